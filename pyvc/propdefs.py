from .props import register

register('C10', 'proof',
         'Per-call contracts transcribed from the statement and proved for all inputs on the real source: the time-out '
         'predicates of start and stop commands (TIMED_OUT iff the tick margin, resp. margin + startsecs/stopwaitsecs, is '
         'exceeded on the target counter; wait_exit is the only unbounded IN_PROGRESS).',
         not_decided=['end-to-end bound as one theorem (composition with C07 and Supervisor startretries)'],
         assumptions=['the target tick counter advances while the target is RUNNING (else C07 invalidates it)',
                      'ints are mathematical; handlers are atomic (single Supervisor thread)'])
register('C07', 'proof',
         'Detection predicate is_inactive proved equal to the statement for all states and counters.',
         assumptions=['the local TICK reaches on_tick (Supervisor event loop)'])
register('C11', 'proof',
         'Data-structure proof on the real source of ProcessStatus: the object invariant I11 (listed exactly where the last '
         'report is running-like or a lingering STOPPING, conflict flag iff two listed, displayed state = the synthesis of '
         'the statement) is proved preserved by every mutator from ANY state satisfying it, together with the whole-view '
         'transition postconditions (listing transition, other entries untouched, forced-state arbitration, FATAL on '
         'instance loss). Histories of any length are covered by induction over the invariant.',
         assumptions=['payload record shapes of contracts/shapes.py REC_KEYS (checked at run time in the thorough tier)',
                      'floats treated as reals (times are only compared)',
                      'time.monotonic() is non-decreasing along one execution'])
register('C14', 'proof',
         'Proved for all inputs on the real source of strategy.py: the validity predicate (node load + node requests + load '
         '<= 100), the loading/validity map (domain = candidates, order of first occurrence, values), the six strategies '
         '(CONFIG = first valid candidate in list order; LESS/MOST_LOADED = valid and lexicographically minimal/maximal on '
         '(instance load + requests, node load); *_NODE on (node load, instance load); LOCAL = the local identifier iff '
         'candidate and valid; None iff no valid candidate), the total dispatch of create_strategy, the module-level '
         'get_supvisors_instance (RUNNING filter + per-strategy optimality over the abstract loads) and get_node.',
         not_decided=['the sums themselves: get_load(), get_nodes_load() and get_node_load_request_map() are abstracted by '
                      'ghost quantities L(i), NL(m), NR(m) (assumed contracts GetLoad, GetNodesLoad, GetNodeLoadRequestMap)',
                      'distribute_to_single_instance / distribute_to_single_node / on_command_added (DESIGN C14.4, '
                      'Appendix A23) are not under contract yet',
                      'ties beyond the documented keys (the statement leaves them open)'],
         assumptions=['every instance seen RUNNING has been identified and is filed under its machine in mapper.nodes '
                      '(handshake; precondition placement_pre)',
                      'mapper.nodes lists are duplicate-free (precondition of get_nodes_load; its preservation by '
                      'SupvisorsMapper.identify is a C04 obligation, refuted: finding C04-identify-files-twice)',
                      'Supvisors object graph shape: mapper.supvisors and context.supvisors point back to the root',
                      'ints are mathematical; dict iteration order = insertion order'])
register('C04', 'proof',
         'Per emission: single emission site (AST scan); is_loading_valid <=> node load + node requests + load <= 100; '
         'get_supvisors_instance returns None or a RUNNING candidate whose node keeps spare load, None iff nobody qualifies '
         '(contracts/c14.py); ProcessStatus.possible_identifiers = permitted by the rule and known and enabled; '
         'ApplicationStartJobs.process_job: nothing sent unless the process is stopped, at most one request, target '
         'RUNNING / knows the program / enabled / permitted, FATAL "No resource available" otherwise; mapper.nodes has a '
         'single writer whose preservation of the duplicate-free invariant is an obligation.',
         not_decided=['the sums (instance load, node load, pending requests per machine) are ghost quantities, see C14',
                      'SupvisorsMapper.filter is assumed (string-level resolution of identifiers / nicks / stereotypes)',
                      'ApplicationStatus.possible_identifiers / possible_node_identifiers (set intersections inside loops) are '
                      'not under contract yet',
                      'the cap clause with ALL pending requests is decided by a structural obligation (the semantic clause is '
                      'refuted by z3 only on some paths within the budget)',
                      '"already being started by the same instance is not requested again" (add_commands de-duplication)'],
         assumptions=['transport: RpcHandler.send_start_process only queues the request (effect log)',
                      'ApplicationJobs.fail_command forces the state through the listener (assumed, no frame)',
                      'get_load_requests returns the pending requests of this application job; its keys are identified '
                      'instances; per machine it is at most AllPending',
                      'payload record shapes (REC_KEYS)', 'expected_load in [0,100] (C18)'],
         extra='pyvc.structural_c04')
