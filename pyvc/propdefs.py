from .props import register

register('C10', 'proof',
         'Per-call contracts transcribed from the statement and proved for all inputs on the real source: the time-out '
         'predicates of start and stop commands (TIMED_OUT iff the tick margin, resp. margin + startsecs/stopwaitsecs, is '
         'exceeded on the target counter; wait_exit is the only unbounded IN_PROGRESS; both overrides proved equal to the '
         'formula assumed for the abstract ProcessCommand.timed_out); fail_command emits exactly one '
         'force_process_state with FATAL (start job) / STOPPED (stop job); force_process_state builds the forced payload '
         '(forced, state, reason, target identifier, time of the last event), applies it locally through the fsm and then '
         'publishes the same payload; both propagate the re-entrancy discipline of the call-out. '
         'Periodic work of the FSM (effect postconditions on the ghost call log, statemachine.py): EVERY '
         'FiniteStateMachine.next() calls starter.check() then stopper.check() (receivers logged) before the state object '
         'is evaluated; _MasterSlaveState / _WorkingState._common_next tell the Starter then the Stopper '
         '(on_instances_invalidation with the report of this evaluation) iff the report holds a lost INSTANCE (also without '
         'lost process), and every next() of the five Master/slave state classes runs that step exactly once unless the '
         'state object decides on its own to leave the state before it.',
         not_decided=['end-to-end bound as one theorem (composition with C07 and Supervisor startretries)',
                      'next() of a working / ending state that leaves early (new instance, local or Master lost, failure '
                      'strategy) does NOT pass the lost instances to Starter / Stopper: the entry actions of SYNCHRONIZATION / '
                      'ELECTION / RESTARTING / SHUTTING_DOWN abort all jobs (C08 clause 3, C09 clause 2), those of OFF / FINAL do '
                      'not, and a refused transition (C08 findings) keeps the state: these cases are only covered by the '
                      'periodic check()',
                      'clause 2 ApplicationJobs.check IS under contract (contracts/c10_check.py CheckPerCommand / CheckRemovals, '
                      'contracts/c10_check_decision.py CheckDecision: per command examined, TIMED_OUT => one fail_command(process, '
                      'target, time of the last event) and the command has left the in-flight list BEFORE that re-entrant '
                      'call-out and is not back at the end of its iteration; SUCCESS => it leaves; IN_PROGRESS => list untouched; '
                      'the preconditions of the final next() are established) under the ASSUMED re-entrancy contract '
                      'FailCommandCallOut. NOT decided: exception-freedom of the two list.remove as safe:ValueError obligations '
                      '(contracts/wip_c10_check.txt: the invariant "not yet examined => still in flight or already stopped" is '
                      'undecided across the call-out; ValueError at the SUCCESS removal is reproduced natively, '
                      'findings/C10_check_valueerror_demo.py, not yet a registered finding); KeyError of fail_command on a target '
                      'unknown to the mapper; the whole-call form of the per-command clauses (meta-argument: a for-loop over the '
                      'copy visits each command once)',
                      'clause 4 is proved at job level (ApplicationJobs.on_instances_invalidation: every command in flight on a '
                      'lost instance leaves, the others stay, no exception; shape validity: duplicate-free in-flight list, '
                      'identifier list distinct from it); Commander.on_instances_invalidation (the loops over the jobs, then '
                      'next()) is drafted in contracts/wip_c10_commander_inval.txt, not converged - NOT claimed',
                      'clause 5 measure lemma: not stated as a lemma; it is the arithmetic content of the timed_out contracts',
                      're-entrancy exclusion: Stopper.after -> starter.start_process -> add_commands may add a command to the '
                      'plan of a Starter job during a Stopper chain (outside the assumed call-out discipline)'],
         assumptions=['the target tick counter advances while the target is RUNNING (else C07 invalidates it)',
                      'ints are mathematical; handlers are atomic (single Supervisor thread)',
                      'RE-ENTRANT CALL-OUT: FiniteStateMachine.on_process_state_event is taken by the assumed contract '
                      'FsmOnProcessStateEvent (contracts/assumed_repo.py): nothing is framed; for every ApplicationJobs alive before the '
                      'call the re-entered Starter/Stopper keeps its in-flight list object, and its plan only shrinks: remaining '
                      'groups are the same list objects, sequence numbers leave in pickup order or all at once (ABORT/STOP)',
                      'RE-ENTRANT CALL-OUT as seen from ApplicationJobs.check (contracts/c10_check.py FailCommandCallOut, ASSUMED, '
                      'read from the code of the chain force_process_state -> fsm -> on_event -> next): only commands of the same '
                      'process name targeted on the LOCAL instance whose on_event() says SUCCESS / FAILED leave the in-flight list '
                      '(so a command of the caller\'s copy MAY have left: the known ValueError defect is not assumed away); the '
                      'list stays duplicate-free; the commands in flight when check() started (ghost `held`) keep their target, '
                      'their report and their counters and do not come back once they have left; the wiring and the '
                      'preconditions of next() survive',
                      'rpc_handler.send_* are effects only (transport outside the model)',
                      'shape validity: one Supvisors root; the local identifier is a key of context.instances',
                      'FSM clauses: assumed call-out contracts of contracts/assumed_fsm.py (Commander.check / '
                      'on_instances_invalidation are logged with their receiver and keep the state & modes view and the '
                      'lost_instances / lost_processes fields of the state objects - single writer scanned by structural_c02)'])
register('C03', 'proof',
         'Sequencing discipline proved per call on the real source. ApplicationJobs.next (start variant, pickup_logic = min '
         'resolved from the class): nothing is triggered and nothing changes while a command is in flight; sequence numbers '
         'leave the plan in increasing order (every popped number is below every remaining one), the remaining groups are '
         'the same list objects; every command of the popped group is passed to process_job exactly once in that call '
         '(per-iteration clause); the call returns with a command in flight or an empty plan. Completion criterion '
         'ProcessStartCommand.on_event: full functional postcondition (SUCCESS iff RUNNING without awaited exit or expected '
         'EXITED with wait_exit; FAILED on FATAL / unexpected EXITED / STOPPED / STOPPING / UNKNOWN; BACKOFF restarts the '
         'margin). process_failure: ABORT / STOP wipe the plan (STOP sets stop_request), CONTINUE / optional leave it. The '
         'call-out obligation of process_job (a job with commands still to trigger must look in progress when the Commander '
         'can be re-entered) is REFUTED on the unchanged tree: genuine defect, reproduced natively.',
         not_decided=['the order of requests relative to the TRUE process states under all timings / partitions',
                      'ghost history Orig/Started/Done: not built. It would have added, across calls, "a command in flight '
                      'belongs to the LAST popped group and every command of an earlier group has left the in-flight list" as '
                      'an object invariant; the per-call clauses give: pop only when nothing is in flight + pickup order + all '
                      'commands of a group triggered in the same call. With the weak re-entrancy discipline assumed for '
                      'process_job, "commands in flight after next() come from the last popped group" is not provable',
                      'fourth wave (contracts/c03_sequence.py, group commander_seq, decision facets whose call-outs are '
                      'abstracted by their effect entry, nothing assumed of the re-entrant ones): Commander.next IS under '
                      'contract (the sequence number picked is the lowest planned key and has left the plan when its jobs '
                      'are triggered; a job is retired and passed to after() iff it is no longer in progress; every job of '
                      'the picked group gets before() and next(); while every job in flight is in progress nothing is '
                      'picked, emitted or changed), Starter.start_applications IS (an application is stored iff '
                      'rules.start_sequence > 0 and never started / in failure; nothing triggered while the plan is built), '
                      'Starter.store_application at KEY level only (stored iff a positive sequence number exists, under the key '
                      'rules.start_sequence, plan keys = the positive keys of application.start_sequence). NOT decided: '
                      'the per-process content of the plan (one command per process of the sequence: nothing is known of the '
                      'lists built by the inner comprehension) and - refutability - mutants of store_application get no '
                      'verdict within 150 s (recorded as undecided in mutants/C03.txt); KeyError of the `del` after the '
                      're-entrant after() call-out is let escape (see C09); ApplicationStatus.update_sequences (keys by '
                      'the processes own rules.start_sequence), Starter.after, ApplicationJobs.on_event / check: no contract; '
                      'ApplicationJobs.on_instances_invalidation IS under contract (contracts/c10.py: host lost = starting '
                      'failure for every dropped command, ABORT / STOP wipe the plan, STOP sets stop_request)',
                      'ApplicationStartJobs.process_job is taken by contract (assumed): its placement callees belong to C04/C14/C16',
                      'termination of the recursion of next() (len(planned_jobs) decreases) is not an engine obligation',
                      'add_commands (user start_process merged into a running job) is outside the statement scope (its stop '
                      'variant is under contract for C09 / C05: contracts/c09_add_commands.py)'],
         assumptions=['"finished starting" is judged on the instance view info_map[target][state], not on the true remote state',
                      'RE-ENTRANT CALL-OUT discipline of contracts/assumed_repo.py FsmOnProcessStateEvent (see C10)',
                      'shape validity: planned groups are list objects distinct from the in-flight list'])
register('C09', 'proof',
         'Clause 1 proved per call on the real source. ApplicationJobs.next (stop variant, pickup_logic = max resolved from '
         'the single constructor assignment): nothing is triggered while a command is in flight; sequence numbers leave the '
         'plan in DEcreasing order; commands sharing a sequence number are passed to process_job in the same call; returns '
         'with a command in flight or an empty plan - fully discharged for the stop variant. ApplicationStopJobs.process_job: '
         'exactly one send_stop_process(identifier, namespec) iff process.running_on(identifier), nothing otherwise. '
         'ProcessStopCommand.on_event: SUCCESS iff the target reports a stopped state. fail_command forces STOPPED. '
         'Ending states (quantifier "loss of a non-Master instance during the ending phase"): RestartingState / '
         'ShuttingDownState.next() run _common_next exactly once unless they propose FINAL on their own, and _common_next '
         'tells Starter and Stopper iff an INSTANCE was invalidated (pending stop commands of a lost instance are dropped '
         'even when no process is reported lost).',
         not_decided=['"reaches the Master", exactly-once delivery to every live instance, true process states',
                      'clause 2 (on_restart / on_shutdown re-routing) and the ending states: other agent (statemachine.py)',
                      'Stopper.store_application (commands only for running_identifiers, keyed by stop_sequence): no '
                      'registered contract (contracts/wip_c09_stopper_store_application.txt: constructors called inside a nested '
                      'comprehension). Fourth wave (contracts/c03_sequence.py): Commander.next at application level IS under '
                      'contract (Stopper variant: the greatest planned key is picked, only when no job in flight is in '
                      'progress) and Stopper.stop_applications (store_application iff has_running_processes, nothing '
                      'triggered while the plan is built). A re-entrancy defect of Commander.next on the restart path is '
                      'reproduced natively (findings/C09_restart_keyerror_demo.py: KeyError of `del self.current_jobs[...]` '
                      'after the re-entrant after() escapes fsm.on_process_state_event); the facets let KeyError escape: with '
                      'raises=() the safe: obligation is not decided within 2 minutes, so it is still not an obligation',
                      'same ghost-history remark as C03',
                      'third wave: ApplicationJobs.add_commands (stop variant; contracts/c09_add_commands.py: a stop command is '
                      'only dropped as already planned when the job holds a command for the same process AND the same instance, '
                      'per command of the request) and Stopper.restart_process / restart_application (contracts/c09_restart.py: '
                      'the deferred start request is appended / stored BEFORE the stop call-out, read with effect_pre; earlier '
                      'pending requests kept) ARE under contract. NOT decided: add_commands of a start job (on_command_added = '
                      'C04 / C14 distribution); the whole-call form of the per-command clauses; that the request is still '
                      'there when the stop ends (Stopper.after is reachable from the stop call-out itself through '
                      'Commander.next when the new job completes at once); single-writer scan of process_start_requests / '
                      'application_start_requests (shape precondition one-list-per-application) not mechanised'],
         assumptions=['RE-ENTRANT CALL-OUT discipline of contracts/assumed_repo.py FsmOnProcessStateEvent (see C10)',
                      'stop commands are built with their target (ProcessStopCommand.__init__)'])
register('C07', 'proof',
         'Per-call contracts transcribed from the statement and proved for all inputs on the real source: the stamp of a '
         'received tick (SupvisorsTimes.update: local counter at reception, 0 on a decreasing remote counter), the '
         'detection predicate is_inactive, the accuracy and completeness lemmas over these two contracts, '
         'Context.on_timer_event (FAILED on exactly the inactive instances, loop invariant), on_instance_failure, '
         'Context.invalidate (local => STOPPED, fence or auto_fence with a working Master => ISOLATED, else STOPPED), the '
         'state setter (raises unless the change is an edge of the documented graph), ProcessStatus.invalidate_identifier '
         '(what ran on the lost instance becomes FATAL and is no longer listed there, other entries untouched; C11). '
         'Structural scans: single writer of _state, _Transitions = documented graph, whitelist of the functions assigning '
         'each target state, ISOLATED only for a non-local instance, call chain on_tick -> on_timer_event -> fsm.next -> '
         'invalidate_failed in every FSM state.',
         not_decided=['message-delay / phase arguments beyond "a tick was received within the window" (the statement is '
                      'phrased in received ticks)',
                      'Context.invalidate_failed as a whole (clause 4 over all processes of the lost instances): its contract '
                      '(contracts/pending_c07_invalidate_failed.txt) executes entirely and its instance-level clauses '
                      'discharge, but the call precondition of invalidate_identifier (object invariant I11 for every '
                      'process) is undecided within the budget, so it is NOT part of this check. Its process-level clause '
                      'is decomposed instead: SupvisorsInstanceStatus.running_processes (the processes handed to '
                      'invalidate_identifier) is proved equal to its definition, ProcessStatus.invalidate_identifier is '
                      'proved in C11, and the lemma "every process listed on the lost instance is selected" is REFUTED = '
                      'known finding A11 (STOPPING-only copy stays listed; native demo '
                      'findings/C07_invalidate_failed_stopping_demo.py); the composition over the two loops is not proved',
                      'SupervisorProxyThread.handle_exception is verified as SEQUENTIAL code (a failed XML-RPC to a peer in '
                      'any active state - CHECKING, CHECKED, RUNNING, FAILED - pushes exactly one INSTANCE_FAILURE '
                      'notification carrying the origin of that peer; none for the local instance or an inactive peer); '
                      'the proxy thread / main thread interleaving and the transport up to read_notification are assumed',
                      'reachability through the proxy-thread race of the STOPPED status met by on_instance_failure '
                      '(reproduced at function level after a real history, the interleaving itself is not modelled)'],
         assumptions=['the local TICK reaches on_tick (Supervisor event loop) and XML-RPC failure notifications are '
                      'delivered by the proxy thread',
                      'structural validity of the per-instance maps (same domain, keyed by identifier, distinct objects): '
                      'precondition valid_structure / distinct_entries of contracts/c07.py',
                      'ints are mathematical; handlers are atomic (single Supervisor thread)'],
         extra='pyvc.structural_c07')
register('C11', 'proof',
         'Data-structure proof on the real source of ProcessStatus: the object invariant I11 (listed exactly where the last '
         'report is running-like or a lingering STOPPING, conflict flag iff two listed, displayed state = the synthesis of '
         'the statement) is proved preserved by every mutator from ANY state satisfying it, together with the whole-view '
         'transition postconditions (listing transition, other entries untouched, forced-state arbitration, FATAL on '
         'instance loss). Histories of any length are covered by induction over the invariant.',
         assumptions=['payload record shapes of contracts/shapes.py REC_KEYS (checked at run time in the thorough tier)',
                      'floats treated as reals (times are only compared)',
                      'time.monotonic() is non-decreasing along one execution'])
register('C12', 'other',
         'NOT a proof of the property: agreement and truth of N replicated process databases over all delivery schedules '
         'cannot be phrased as a contract on one call or one object. Decided instead (necessary conditions, proved for '
         'all states): lemmas over the ProcessStatus contracts of C11 - (1) two instances holding the same last report '
         'from every instance show the same set of running instances and the same running state [refuted for a last '
         'report STOPPING: known finding C12-stopping-snapshot; proved when no last report is STOPPING]; (2) feeding a '
         'report as an event or as a handshake snapshot to equal views yields equal views. The lemmas rest on the '
         'postconditions proved for add_info / update_info in C11. (3) Acceptance guards on the real source of context.py: '
         'Context.on_process_state_event applies an event IFF the local status of the sender is CHECKED or RUNNING and the '
         'process is known (with a report of the sender unless forced): control-flow facet (contracts/c12_events.py: '
         'otherwise nothing written, nothing published, None returned; else ONE update_info of that process under the '
         "identifier of the sender's status, the process returned) and report facet (contracts/c12_report.py: the C11 / C15 "
         'preconditions hold at the call sites, the report of the sender carries the state / expected flag of the event, '
         'listing_transition); Context.on_process_disability_event: same guard, disabled flag of the report of the sender. '
         'SupervisorProxy.check_instance (C13) forwards the handshake snapshot only for an AUTHORIZED peer.',
         not_decided=['agreement across instances under all interleavings / fault prefixes (delivery is outside)',
                      'truth of the view with respect to the remote Supervisors',
                      'Context.on_process_removed_event, Context.load_processes(check_state) and SupervisorProxy.publish '
                      '(has_active_state filter) are not under contract',
                      'the control-flow facet of on_process_state_event does not model the heap writes of its call-outs '
                      '(effect-only abstractions, see contracts/c12_events.py); what they write is in the report facet'],
         assumptions=['the C11 contracts (proved by ./check C11)', 'ApplicationStatus.update (proved by ./check C15)',
                      'process state events never name the process * (built by SupervisorListener.on_process_state / '
                      'force_process_state from a real process name)',
                      'external publisher / statistics collector / serial() call-outs touch nothing of the instance'])
register('C16', 'proof',
         'Scoped proof: the implicit exception-freedom obligations (one safe: obligation per partial operation - subscript, '
         'attribute of a possibly-None value, min/max of empty, enum conversion, explicit raise - plus the call-site '
         'preconditions that carry the safety of the callees) of EVERY function under contract that is reachable from a '
         'SupervisorListener entry point or an XML-RPC method, proved for all inputs satisfying shape validity and the '
         'proved object invariants. XML-RPC methods may only let RPCError escape. The handler-reachable call graph, the '
         'functions under contract and the unverified remainder (by name) are listed in coverage.handler_reachability.',
         not_decided=['exception-freedom of the unverified remainder of the handler-reachable call graph (listed by name)',
                      'last-resort guards (contracts/c16_listener.py): SupervisorListener.on_tick / on_remote_event are PROVED '
                      'to let nothing escape whatever their callees raise (callees ASSUMED with raises = Exception); the '
                      'other handlers (on_running, on_stopping, on_process_state, on_process_added/removed/disability, '
                      'on_group_added/removed) need Supervisor event / process classes in contracts/shapes.py and are not '
                      'under contract',
                      'web UI, statistics collector process, Supervisor patches, transport threads'],
         assumptions=['payload record shapes (contracts/shapes.py)', 'single-threaded atomic handlers'])
register('C15', 'proof',
         'Contracts transcribed from the statement and proved for all inputs on the real source of application.py: '
         'update_state (priority STOPPING > STARTING/BACKOFF > RUNNING > STOPPED, loop invariant = exists-summaries), '
         'update_status_required (major / minor failure, for any entry value of the flags), update_status_formula (major = '
         'negation of the reference value of the formula, True on parse error or non-boolean result), update (the whole '
         'statement on state / major_failure / minor_failure, composing the above through their contracts), the '
         'status_formula setter and status_tree getter over a model of python ast nodes generated mechanically from the ASDL '
         'signatures of the running interpreter (any single-statement module of any node classes). The reference value of a '
         'formula is a pair of ghost functions (kind, value); ApplicationStatus.evaluate is checked against the reference '
         'evaluator written from the statement by a BOUNDED exhaustive enumeration of real ast trees on the real function '
         '(not counted as proved) plus a call-site whitelist scan (never calls anything but itself, _get_process_status, '
         '_get_matches, the logger, type/len/any/all and eval on f"{all|any}({own result})").',
         not_decided=['ApplicationStatus.evaluate for ALL trees (recursive proof over the ast datatype): the contract used by '
                      'update_status_formula is backed by the bounded enumeration only (depth <= 3, alphabet of '
                      'pyvc/structural_c15.py); the engine lacks union-typed list elements and exceptions inside '
                      'comprehensions of modular calls',
                      'regular-expression semantics of pattern leaves (re.compile / match are used as such by the reference)',
                      'structural validity of ApplicationStatus (processes keyed by process_name, start sequence made of '
                      'members of the map) is a precondition of update(), established by add_process / update_sequences, not '
                      'proved here',
                      'RecursionError of evaluate itself on very deep accepted formulas (python recursion limit not modelled)'],
         assumptions=['ast.parse returns a finite tree conforming to the ASDL of the running interpreter (contracts/shapes.py '
                      'ast_model) or raises SyntaxError / RecursionError / MemoryError',
                      'Constant.value is abstracted to: a str, or None for any non-str constant (the code only tests '
                      '`type(value) is str`)',
                      'displayed state of a process = forced state if any, else synthetic state (proved by C11)',
                      'handlers are atomic (single Supervisor thread)'],
         extra='pyvc.structural_c15')
register('C17', 'proof',
         'The FSM state is a symbolic member of SupvisorsStates, so every contract is proved for the nine states at once. '
         'Proved on the real source of RPCInterface: _check_state and its four wrappers return normally iff the state is '
         'allowed, else raise RPCError(BAD_SUPVISORS_STATE) modifying nothing; _get_application / _get_process / '
         '_get_application_process raise BAD_NAME exactly for unknown names; _get_strategy (run per parameter type: str, '
         'int, bool, float, list, and per enumeration) returns the member designated by name or value and raises '
         'INCORRECT_PARAMETERS otherwise. Per command (start/test_start/stop/restart application and process, '
         'start_any_process, update_numprocs, enable, conciliate, restart_sequence, restart, shutdown, end_sync, and the '
         'status query get_application_info): served '
         'only in the documented states with valid parameters; BAD_SUPVISORS_STATE iff the state is not allowed; each '
         'rejection code only for its documented cause; every rejected request (BAD_SUPVISORS_STATE, BAD_NAME, '
         'INCORRECT_PARAMETERS, NOT_MANAGED) leaves the ghost effect log empty (no starter / stopper / fsm / rpc_handler / '
         'supervisor_updater / conciliation call) and writes no pre-existing heap location; every escaping exception is an '
         'RPCError, through the real code of fsm.on_restart / on_shutdown / on_end_sync. The method x gate table of the '
         'statement is checked structurally on all 24 gated RPCs (first effective statement = the documented gate).',
         not_decided=['"on instances brought to that state by a real history": the proof covers all states satisfying the '
                      'structural validity, reachability of a given (state, Master) combination is not established',
                      'disable: only its gate (structural check + proved _check_operating); its body (list comprehension '
                      'around a raising call, filter()) is outside the engine subset',
                      'status queries other than get_application_info: gate only (structural check + proved '
                      '_check_from_distribution); their list comprehensions around serial() are outside the engine subset',
                      'update_numprocs post-checks (_check_process_insertion, _check_process_deletion, _decrease_numprocs) '
                      'are taken by assumed contracts (raise only RPCError FAILED / STILL_RUNNING)',
                      'the deferred onwait closures are returned as opaque function values; they are not verified '
                      '(they run later, outside the request that was gated)',
                      'start_args is not state-gated by design (used internally in DISTRIBUTION) and not under contract',
                      'non-bool `wait` / non-str names, non-int numprocs (XML-RPC can carry any marshallable type)'],
         assumptions=['Starter / Stopper / StarterModel entry points, conciliate_conflicts, supervisor_updater.*, '
                      'fsm.set_state / fsm.next, state_modes.select_master / publish_status do not raise (their '
                      'exception-safety is C16; DESIGN A23 is a known counter-example for Starter.start_application); only '
                      'their effect name is logged',
                      'structural validity: one Supvisors structure shared by the components, the local identifier is '
                      'non-empty and has its StateModes entry, dom(mapper.instances) within dom(context.instances), '
                      'ApplicationStatus.rules is set, no application without process stays in the Context',
                      'supervisor.options.split_namespec is a deterministic function of the namespec',
                      'handlers are atomic (single Supervisor thread)'],
         extra='pyvc.structural_c17')
register('C20', 'proof',
         'Data-structure proof on the real source of statscompiler.py. trunc_depth: loop invariant "lst is a suffix of old", '
         'len\' = min(len, depth), termination. ProcStatisticsInstance.push_statistics and '
         'HostStatisticsInstance.push_statistics (times / mem / per-core cpu series): the object invariant (every series has '
         'len(times) points, at most depth) is preserved from ANY state satisfying it, a point is produced iff a reference '
         'exists and now - ref.now >= period, the reference rolls over exactly then and on the first push. cpu_statistics: '
         'values in [0, 100] for non-decreasing counters, 0 when total = 0. io_statistics: only interfaces present in both '
         'samples with non-decreasing counters, rates >= 0 (reals). _push_cpu_stats: one point more per core, cut to depth.',
         not_decided=['composition: HostStatisticsInstance.push_statistics still uses the ASSUMED frame contract of '
                      '_push_timed_stats (contracts/c20.py); the body of _push_timed_stats is verified on its own '
                      '(contracts/c20_timed.py, group statsmodel_timed: alignment / bound of every kept entity, vanished '
                      'entities dropped, new entities start with one point, frame; decision facet for the first sight of an entity: '
                      'contracts/c20_timed_new.py) under the precondition that the lists '
                      'reachable from the history dictionary are distinct objects and that a known entity gets as many '
                      'values as it has value series - push_statistics is not shown to establish them at its three calls',
                      'ProcStatisticsHolder.push_statistics / ProcStatisticsCompiler / HostStatisticsCompiler (pid 0 => entry '
                      'dropped, pid change => fresh histories, holder deleted when empty): need object construction inside '
                      'summarised dict comprehensions, not supported by the engine yet',
                      'process CPU <= 100 per core: needs d(proc_work) <= d(now) * cores, a fact about the kernel accounting',
                      'the cpu values stored by HostStatisticsInstance.push_statistics equal cpu_statistics(sample, ref) '
                      '(proved for _push_cpu_stats and cpu_statistics separately, composition left out: solver time)',
                      'statscollector.py (psutil, child process)'],
         assumptions=['floats treated as reals (one rounding step could give 100.00000000000001)',
                      'sample payload shapes of contracts/shapes.py REC_KEYS (cpu: list of (work, idle), net_io / disk_io: '
                      '{name: (in, out)}, disk_usage: {path: percent})',
                      'period > 0 and depth >= 1 (options.to_period: [1, 3600], to_histo: [10, 1500]; C18); '
                      'HostStatisticsInstance.depth is an int (built from options.stats_histo only)',
                      'the times / mem / cpu / per-core lists of one HostStatisticsInstance are distinct objects (established by '
                      '__init__ and the first push, stated as precondition and proved preserved)',
                      'ASSUMED frame of HostStatisticsInstance._push_timed_stats (unverified): writes only the dictionary given, '
                      'the integrated values and history lists other than times / mem / cpu'])
register('C01', 'other',
         'Necessary conditions only (per instance, per call): the guards of the election are proved on the real source - '
         'get_master_identifiers returns exactly the Masters declared by the instances seen RUNNING, check_master is true '
         'iff these instances declare one and the same Master and none is without Master, update_instance_state resets '
         'the Master when it leaves RUNNING, forgets the declaration of a STOPPED / ISOLATED peer (fresh StateModes) and '
         'leaves the rest of the local view untouched, get_stable_running_identifiers is the RUNNING set of a peer iff all '
         'the states it publishes are stable. select_master (the election rule, pools read in the pre-state): the Master '
         'chosen is among the Masters recognised (declared, non-empty, by the instances seen RUNNING) if any, else among '
         'the instances seen RUNNING; it is a core_identifiers member whenever some candidate is one; it has the lowest '
         'nick identifier of the core candidates, or of all candidates when none is a core member; corollary: a single '
         'recognised Master is kept; the master_identifier setter declares and publishes it. Known finding: KeyError when '
         'a recognised Master is unknown to the local mapper (A24). '
         'ElectionState.next (effect postcondition): select_master is called exactly once in every evaluation that stays in '
         'ELECTION with a stable context - also when a Master is already known locally (healed split-brain) - and never while '
         'unstable nor in the evaluation that leaves ELECTION. Master-only automatic actions (C01.5): '
         'FiniteStateMachine.on_process_state_event emits no failure job / trigger / restart / shutdown / transition unless '
         'the local instance is the Master; _MasterSlaveState.enter only acts on the Master (c02). '
         'Agreement between instances is NOT proved (property of N interleaved FSMs).',
         not_decided=['agreement / convergence over schedules of N instances (no per-call contract expresses it)',
                      'evaluate_stability (the comprehension invariant relating the list of published stable RUNNING sets '
                      'to the instances seen RUNNING is undecided within the budget: contracts/pending_c01_evaluate_stability.txt)',
                      'select_master: a declared Master that is known to the mapper but not seen RUNNING locally is a '
                      'legitimate candidate of the rule as stated ("the Masters still recognised"); "the Master is seen '
                      'RUNNING by all" needs the rely condition on peers'],
         assumptions=['rely condition on peers: a publication is an atomic snapshot of a state satisfying the same '
                      'per-instance contracts; FIFO per sender',
                      'structural validity of the per-instance maps (valid_structure / distinct_entries, contracts/c07.py)',
                      'call sites of check_master come after _OnState._check_consistence (local instance seen RUNNING)'])
register('C13', 'proof',
         'Non-interference clauses proved per handler on the real source: Context.is_valid never returns an ISOLATED status, '
         'returns None for an unknown or ambiguous origin and only the status of the claimed origin; on_authorization '
         'ignores stale / duplicated results (is_checking: CHECKING and timestamp later than the entry in CHECKING), marks '
         'ISOLATED a peer answering NOT_AUTHORIZED / INCONSISTENT / an unknown code (STOPPED for the local instance), '
         'admits (CHECKED) only on AUTHORIZED, goes back to STOPPED on UNKNOWN, and leaves an ISOLATED status ISOLATED; '
         'on_identification_event changes no instance state and has no effect outside the CHECKING window; '
         'Context.invalidate(fence=True) => ISOLATED unless local. Permanence: C07 (empty ISOLATED row, single writer, '
         'state setter contract). Handshake decision (third wave, sequential code of the proxy thread): '
         'SupervisorProxy._is_authorized answers AUTHORIZED only when the remote get_instance_info answer does not give the '
         'local instance ISOLATED (or an unknown code) and the remote get_strategies answer equals the local one on every '
         'key (auto-fencing, starting, conciliation, supvisors_failure), NOT_AUTHORIZED iff seen ISOLATED once the remote '
         'answered; SupervisorProxy.check_instance hands its timestamp over before any XML-RPC / notification, pushes ONE '
         'AUTHORIZATION notification carrying that same timestamp (what lets on_authorization discard a stale handshake), '
         'the decision of _is_authorized and the source of the peer, and forwards state & modes / process snapshot only '
         'for an AUTHORIZED peer; _transfer_network_info stamps the IDENTIFICATION notification with the same timestamp. '
         'Events only from admitted peers: Context.on_process_state_event / on_process_disability_event change and publish '
         'nothing unless the sender is CHECKED or RUNNING (contracts/c12_events.py, shared with C12).',
         not_decided=['reciprocity as a two-party fact (needs the real answer of the remote instance)',
                      'claimed origin vs real sender (transport)',
                      'listener.read_publication / read_notification (json decoding), SupervisorProxyServer.get_proxy / '
                      'push_* (threads, locks) are not under contract: the frame "invalid origin => nothing modified, nothing '
                      'emitted" is proved at the level of Context.is_valid only',
                      'whether a Fault / no answer to get_strategies yields INCONSISTENT rather than UNKNOWN is not stated '
                      '(only: AUTHORIZED requires both answers); the interleaving of the proxy thread with the main thread',
                      'Context.on_process_removed_event (loop over the processes of the instance) is not under contract: '
                      'its CHECKED / RUNNING guard is the same test but is not proved',
                      'that the handshake timestamp is a clock reading not older than the call (only: it is fixed before '
                      'any XML-RPC and is the one both notifications carry)'],
         assumptions=['SupvisorsInstanceId.is_valid (address match) is an external predicate',
                      'SupvisorsMapper.filter resolves identifier lists as documented (assumed contract); mapper closure '
                      '(nick identifiers and stereotypes name known instances)',
                      'structural validity of the per-instance maps (valid_structure / distinct_entries, contracts/c07.py)',
                      'XML-RPC answers of the remote are what its RPCInterface returns: get_instance_info / get_strategies '
                      '/ get_network_info / get_instance_state_modes / get_all_local_process_info of the client are assumed '
                      'externals (contracts/assumed_transport.py), pure functions of the endpoint returning a symbolic payload '
                      '(get_instance_info: at least one payload with a statecode) or raising Fault / OSError; '
                      'SupervisorProxy._get_proxy returns the client of that endpoint',
                      'records only hold keys declared in contracts/shapes.py REC_KEYS, or are flagged by the ghost '
                      '<undeclared> key (record == dict literal)'])
register('C02', 'proof',
         'Per-transition proof on the real source. (1) Single writer: syntactic scan of every assignment to an attribute '
         '`state` of the package + verified frames (next()/exit()/on_instance_state_event never write the local state). '
         '(2) The precondition of the only writer (SupvisorsStateModes.state setter) IS the statement - new in '
         '_Transitions[old], and a Master-driven state only with a known Master seen RUNNING that is either the local '
         'instance or already published that state - and is discharged at its single call site in '
         'FiniteStateMachine.set_state under a loop invariant (instance class = current state), for every proposal that '
         'next()/on_restart/on_shutdown can make; _Transitions (read from the AST) is inside the documented graph, FINAL '
         'terminal; the setter publishes iff the state changes. (3) Every value returned by next() of each of the nine '
         'state classes (whole super() chain executed symbolically, Context / Starter / Stopper call-outs by contract) '
         'satisfies the Master clause, except the known finding (SHUTDOWN failure strategy). Structural obligation 6: the '
         'report fields lost_instances / lost_processes of the state objects have a single writer (_check_instances), which '
         'justifies that the frames of the call-outs protect them.',
         not_decided=['re-entrant FSM transitions out of Starter/Stopper/failure-handler call-outs (forced process event with '
                      'running failure strategy RESTART/SHUTDOWN on the Master) are not modelled inside next(); they go '
                      'through set_state and its table check like every other write',
                      'exception-freedom of SynchronizationState._check_end_sync_user (Master accepted from a peer but '
                      'unknown to the local Context: AttributeError) is left to C16',
                      'FiniteStateMachine.__init__ establishing the FSM invariant (OffState / OFF) is read, not proved'],
         assumptions=['J (rely condition of C01): a known Master is an instance the local instance sees RUNNING on entry of '
                      'every handler (kept by update_instance_state, verified; select_master/accept_master are C01\'s)',
                      'the Master state known to a slave is the last one it published (FIFO per sender)',
                      'assumed contracts of Context.invalidate_failed / activate_checked / on_timer_event (instance states '
                      'only move through the SupvisorsInstanceStatus.state setter), of the Starter / Stopper / failure '
                      'handler / conciliation call-outs (they do not touch the state & modes view) and of the transport',
                      'shape validity of the Supvisors structure (wiring, same keys in the per-instance maps)',
                      'handlers are atomic (single Supervisor thread)'],
         extra='pyvc.structural_c02')
register('C08', 'other',
         'Liveness of the composed system is out of reach of per-call contracts; necessary conditions are proved per call: '
         '(1) no self-decision of a state class is refused by the transition table (values returned by next() outside the '
         'follow-the-Master path are in _Transitions[X] + {X, None}) - refuted twice, both known findings; (2) on_timer_event '
         'always reaches next(), on_state_event calls next() iff the sender is the Master, every evaluation goes through '
         'set_state; (3) SynchronizationState/ElectionState.enter leave no start, stop or failure job; (4) functional '
         'contract of _check_failure_strategy (CONTINUE never leaves; RESYNC/SHUTDOWN exactly when a selected condition is '
         'lost, precedence USER > CORE > STRICT > LIST; TIMEOUT alone never fails).',
         not_decided=['bounded-time return of every live instance to OPERATION/CONCILIATION (liveness over all schedules)',
                      'termination of the set_state loop inside one call (needs a global argument on Context stability '
                      'between evaluations); only proved: every iteration performs a transition of the table or stops',
                      'clause 5 (slave in ELECTION that missed its Master\'s DISTRIBUTION): needs a multi-instance history; '
                      'the per-call obligation is not claimed'],
         assumptions=['same assumed call-out contracts as C02',
                      'Context.on_timer_event does not raise (C07/C16)'])
register('C05', 'proof',
         'Detection: Context.conflicting()/conflicts() proved to be exactly "some / the processes of MANAGED applications '
         'whose running_identifiers has more than one element" (C11 proves that flag equal to "listed on two distinct '
         'instances"). Request sets: each conciliation strategy is proved, per iteration of its loop over the conflicts '
         '(loop<K>_iter clauses on the ghost effect log), to emit exactly one Stopper call for that conflict and nothing '
         'else: SENICIDE stop_process(p, running(p) minus one copy of minimal uptime, False), INFANTICIDE minus one copy of '
         'maximal uptime, the identifier set never empty (an empty list would mean "everywhere"); STOP stop_process(p, '
         'None) = every copy; RESTART default_restart_process(p); RUNNING_FAILURE stop_process(p, None) then '
         'failure_handler.add_default_job(p); USER empty log. Only elements of `conflicts` are ever targeted. '
         'conciliate_conflicts: the option selects exactly the strategy of the same name.',
         not_decided=['closed loop "once those stops are reported no conflict remains and Supvisors returns to OPERATION" '
                      '(composition with C10 / C11 over real events)',
                      'whole-call statement for the loops is obtained from the per-iteration clauses by the meta-argument '
                      '"a for-loop over a list visits each element once" (effects inside symbolic loops are not in the '
                      'per-path log; the engine refuses effect predicates across such loops)',
                      'ConciliationState._master_next decision is proved (jobs in progress => stay; no conflict => '
                      'OPERATION; else one re-conciliation and stay) but goes through the ASSUMED contract of '
                      'ConciliationState._master_enter (2 call-pre obligations undecided within budget); '
                      'OperationState._master_next (needs _WorkingState._master_next, C06.3) not done',
                      'Stopper.stop_process builds commands only for running_identifiers ∩ identifiers: owned by the '
                      'Commander contracts (C09/C10), assumed here as an effect; what happens to those commands next IS proved '
                      '(third wave, group commander): add_commands keeps the stop command of EVERY copy (same process AND same '
                      'instance is the only reason to drop one), restart_process (RESTART strategy) stops every copy and '
                      'appends ONE deferred start after the pending ones (contracts/c09_add_commands.py, c09_restart.py)'],
         assumptions=['Starter/Stopper entry points (stop_process, default_restart_process, stop_application, '
                      'default_restart_application, Commander.next) are effect-only for the state read by C05/C06 contracts '
                      '(contracts/assumed_c05.py)',
                      'C11 invariant on the conflicting ProcessStatus (every listed instance has a report with an uptime)',
                      'min/max ties over a set: any optimal element (CPython leaves set order unspecified)',
                      'floats treated as reals (uptimes are only compared)'])
register('C06', 'proof',
         'Data-structure proof on the real source of RunningFailureHandler: the object invariant I06 (mutual exclusion of '
         'the four job sets by precedence STOP_APPLICATION > RESTART_APPLICATION > RESTART_PROCESS > CONTINUE, applications '
         'held are the registered ones) is proved preserved by add_stop_application_job, add_restart_application_job, '
         'add_restart_process_job, add_continue_process_job, add_job and add_default_job from ANY state satisfying it, with '
         'whole-view postconditions per method (which elements enter / leave which set; the in-place filter loops carry '
         'sidecar invariants), "the failure is covered by the job the precedence designates or a stronger one", "no job is '
         'forgotten", and the promotion RESTART_PROCESS -> RESTART_APPLICATION when the application is STOPPED and the '
         'process is in its start sequence. get_start_sequenced_processes proved equal to its definition. '
         'FSM side (effect postconditions, contracts/c02.py): _WorkingState._master_next registers exactly one failure job '
         'per lost process (per-iteration clause) and triggers the handler once iff a process was lost, nothing otherwise; '
         'the _master_next override of EVERY working state must run that step exactly once - proved for DISTRIBUTION and '
         'OPERATION, REFUTED for CONCILIATION (genuine defect, native demo: the override never calls super()); every '
         'FiniteStateMachine.next() calls failure_handler.trigger_jobs() exactly once before evaluating the state (deferred '
         'repairs); on_process_state_event: no automatic action unless Master; RESTART / SHUTDOWN / failure job only for a '
         'crashed process with that strategy, a failure job only when the state is not forced, followed by one trigger; and '
         'conversely a Master taking no action saw no crash or a CONTINUE / RESTART_PROCESS strategy or a forced state.',
         not_decided=['trigger_* (deferral while the application has Starter/Stopper jobs, one Stopper call per job): '
                      'contract of trigger_jobs is ASSUMED (only removes elements), not verified - left undone',
                      'ApplicationJobs.on_instances_invalidation is under contract (contracts/c10.py + decision facet '
                      'contracts/c06_pending.py): processes of planned and of dropped commands leave failed_processes, nothing '
                      'else does, nothing enters; the process of a command in flight on a surviving instance does NOT leave '
                      '(refuted, finding C06-pending-on-survivor); the Commander-level loop over the jobs is not converged '
                      '(contracts/wip_c10_commander_inval.txt)',
                      '"each lost process gets a job" composes the per-iteration clause with the meta-fact that a for-loop over '
                      'a set visits each element once',
                      'the Master-only guard is evaluated on the local declaration (is_master); that at most one instance '
                      'regards itself as Master is C01',
                      'Context.invalidate_failed exactness as a whole: not under contract (see C07); its selection step '
                      '(SupvisorsInstanceStatus.running_processes) is proved equal to its definition and the lemma "every '
                      'process listed on the lost instance is selected" is refuted = known finding A11 (contracts/c07.py, '
                      'props include C06)',
                      'RunningFailureHandler.abort: `self.x = set()` into a typed field is not modelled by the engine '
                      '(false alarm), contract not registered',
                      'start_sequence changes between two handler calls (ApplicationStatus.update_sequences) are outside '
                      'the invariant: I06 speaks about the sequences at the time of each call',
                      'end-to-end "running again on exactly one surviving instance" (composition with C04/C10/C11)'],
         assumptions=['Context validity at the call sites: processes handed to the handler belong to an application stored '
                      'under its own name in context.applications',
                      'shape validity sequences_exist: start-sequence lists reachable on entry are allocated on entry '
                      '(engine modelling artefact, true of every Python heap)'])
register('C18', 'proof',
         'Decision logic proved for all inputs on the real source, with every string-level operation (ElementTree find / '
         'findtext / get, re.search / match, int(), float(), strtobool, Supervisor datatypes) an assumed external whose '
         'result is an uninterpreted function of its arguments: exact name beats any pattern and get_best_pattern returns '
         'a matching pattern of maximal match length or None (loop invariant); load_model_rules terminates (decreases '
         'loop_check, depth <= 3) and, per attribute, the element\'s own valid value supersedes the referenced model '
         'chain; load_sequence / load_expected_loading / load_boolean / load_enum set the attribute iff the text is in '
         'the domain, else leave the rules unchanged (frame), nothing escapes; ProcessRules / ApplicationRules '
         'check_dependencies; every integer / enumeration / period converter of options.py raises ValueError or returns '
         'a value of the documented range (float() returns ANY binary64 value, IEEE comparisons); _get_value falls back '
         'to the default and lets nothing else escape; check_options. String-level pieces (alias expansion, sign '
         'extraction, @ / # assignment, IP / multicast parsing, best pattern with the real re) are BOUNDED stand-ins on '
         'the real functions, listed under bounded_standins and never counted as proved.',
         not_decided=['XSD validation by lxml (external)', "'as documented' for '#' / '@' beyond the bounded reference",
                      'to_filepaths / to_existing_file / check_dirpath (file system; only used through _get_value)',
                      'SupvisorsOptions.__init__ as a whole (27 _get_value calls); the aliasing of the class default is '
                      'established by the _get_value postcondition plus a syntactic scan',
                      'load_status (formula parsing, C15) and check_identifier_list are assumed in the deductive part'],
         assumptions=['ElementTree / lxml accessors are functions of the (immutable) document',
                      'int(), float(), strtobool, supervisor.datatypes.integer / boolean raise exactly ValueError',
                      'the literal pattern r".*[-_](\\d+)$" is valid and its group 1 is accepted by int() (checked on '
                      'samples by a bounded stand-in)',
                      'SupvisorsMapper always knows the local instance (instances not empty)',
                      'namespecs given to load_program_rules are those of real processes (non-empty process name)',
                      'dicts keyed by str never hold the key None'],
         extra='pyvc.structural_c18')
register('C14', 'proof',
         'Proved for all inputs on the real source of strategy.py: the validity predicate (node load + node requests + load '
         '<= 100), the loading/validity map (domain = candidates, order of first occurrence, values), the six strategies '
         '(CONFIG = first valid candidate in list order; LESS/MOST_LOADED = valid and lexicographically minimal/maximal on '
         '(instance load + requests, node load); *_NODE on (node load, instance load); LOCAL = the local identifier iff '
         'candidate and valid; None iff no valid candidate), the total dispatch of create_strategy, the module-level '
         'get_supvisors_instance (RUNNING filter + per-strategy optimality over the abstract loads) and get_node; '
         'get_node_load_request_map returns per machine the SUM of the requests of all its identifiers (loop invariant over '
         'the engine\'s finite-sum function setsum); ProcessStartCommand.update_identifier.',
         not_decided=['the sums of get_load() and get_nodes_load() (python sum() over generators) are abstracted by the ghost '
                      'quantities L(i), NL(m) (assumed contracts GetLoad, GetNodesLoad); get_node_load_request_map() is PROVED '
                      'to return, per machine, the sum of the requests of all its identifiers (loop invariant over setsum)',
                      '"loads include starts already requested": the request map itself (ApplicationStartJobs.'
                      'get_load_requests) is proved for its domain and for the lower bound "at least each pending command" '
                      '(contracts/c04_loadreq.py), not for the exact sum; Starter.get_load_requests is not under contract',
                      'distribute_to_single_instance / distribute_to_single_node (contracts/c14_single.py, '
                      'c14_single_calls.py): PROVED per iteration (the command of any iteration gets the instance '
                      'get_supvisors_instance returned = the selection / an element of the selection seen RUNNING; None -> '
                      'nothing assigned; selection RUNNING, permitted by the application rule, knows every program; no '
                      'KeyError, TypeError only as in finding C14-single-node-unknown-program) on top of ASSUMED candidate '
                      'lists of ApplicationStatus and an ASSUMED dispatch of update_identifier; NOT decided: the quantified '
                      'form over the whole plan, "instances of one single node" for the selection, and - decisive - the '
                      'counter-model search does not conclude for the breaking edits tried (> 120 s, undecided: '
                      'contracts/wip_c14_single.txt), so these edits are still only caught by the structural obligations '
                      'of pyvc/structural_c14.py; before / on_command_added are not under contract',
                      'ApplicationStatus.possible_identifiers / possible_node_identifiers / get_start_sequence_expected_load '
                      '(set.intersection(*sets), for/else over sets, sum()) are not under contract',
                      'ties beyond the documented keys (the statement leaves them open)'],
         assumptions=['every instance seen RUNNING has been identified and is filed under its machine in mapper.nodes '
                      '(handshake; precondition placement_pre)',
                      'mapper.nodes lists are duplicate-free (precondition of get_nodes_load; its preservation by '
                      'SupvisorsMapper.identify is a C04 obligation, refuted: finding C04-identify-files-twice)',
                      'Supvisors object graph shape: mapper.supvisors and context.supvisors point back to the root',
                      'ints are mathematical; dict iteration order = insertion order'],
         extra='pyvc.structural_c14')
register('C04', 'proof',
         'Per emission: single emission site (AST scan); is_loading_valid <=> node load + node requests + load <= 100; '
         'get_supvisors_instance returns None or a RUNNING candidate whose node keeps spare load, None iff nobody qualifies '
         '(contracts/c14.py); ProcessStatus.possible_identifiers = permitted by the rule and known and enabled; '
         'ApplicationStartJobs.process_job: nothing sent unless the process is stopped, at most one request, target '
         'RUNNING / knows the program / enabled / permitted, FATAL "No resource available" otherwise; mapper.nodes has a '
         'single writer whose preservation of the duplicate-free invariant is an obligation.  "The starts already '
         'requested": ApplicationStartJobs.get_load_requests is PROVED (contracts/c04_loadreq.py) to have as keys exactly '
         'the targets of the commands of current_jobs and of every group of planned_jobs whose process is still stopped, '
         'with a value >= the expected_load of each of them; its result is fresh and its keys are identified instances '
         '(call-site facet, contracts/c04.py).',
         not_decided=['the sums (instance load, node load) are ghost quantities, see C14',
                      'ApplicationStartJobs.get_load_requests: the EXACT value (sum with multiplicities of the expected_load '
                      'of the pending commands per target) is not decided - only its domain and the lower bound "at least '
                      'each counted command"; `max(load_list)` instead of `sum(load_list)` satisfies both and is not refuted '
                      '(the clause "at least the sum of any two distinct counted commands" is drafted and verifies, but is '
                      'parked in contracts/wip_c04_starter_load_requests.txt until a mutant only it refutes is shown)',
                      'Starter.get_load_requests (sum over the application jobs in progress) is not under contract in this '
                      'group: drafted in contracts/wip_c04_starter_load_requests.txt (domain = union of the domains, value >= '
                      'each job\'s value; `max` instead of `sum` over the jobs would NOT be refutable by that lower bound '
                      'either); the engine summaries it needs (sum over a generator, comprehension with invariant) exist',
                      'SupvisorsMapper.filter is assumed (string-level resolution of identifiers / nicks / stereotypes)',
                      'ApplicationStatus.possible_identifiers / possible_node_identifiers (set intersections inside loops) are '
                      'not under contract yet',
                      'the cap clause with ALL pending requests is decided by a structural obligation (the semantic clause is '
                      'refuted by z3 only on some paths within the budget)',
                      '"already being started by the same instance is not requested again" (add_commands de-duplication)'],
         assumptions=['transport: RpcHandler.send_start_process only queues the request (effect log)',
                      'ApplicationJobs.fail_command forces the state through the listener (assumed, no frame)',
                      'rely of process_job (was part of the assumed contract of get_load_requests): the targets already '
                      'recorded in the commands of the job are identified instances (chosen RUNNING; identification is never '
                      'undone)',
                      'payload record shapes (REC_KEYS)', 'expected_load in [0,100] (C18)'],
         extra='pyvc.structural_c04')
register('C19', 'proof',
         'Clause 1 only (the prediction leaves every status as it was), and only its central mechanism: proved for all '
         'inputs on the real constructor of the model command that every object a model command can write through - the '
         'mock ProcessStatus, its info_map, its running_identifiers and every per-instance payload of that map - is '
         'allocated by the constructor (so the writes of feed_model / start cannot reach a live status), that the live '
         'process is not modified, and structurally that the model classes override exactly the interacting methods with '
         'bodies that never name the transport or the listener. ProcessStartCommandModel.start (contracts/c19_model.py): '
         'emits no effect at all (no request), writes only the sequence counter of the command, the running set of ITS '
         'process (the mock) and the event list of the model, and every event it appends names that mock on the instance '
         'of the command (so that the writes of feed_model land in the mock).',
         not_decided=['clause 2 (the predicted placement equals the placement of a real start): a relational property of two '
                      'executions on cloned clusters',
                      'the frame of the whole call tree of test_start_application / test_start_processes (store_application -> '
                      'resolve_rules writes the live rules; Starter.after is not overridden by the model and may call the real '
                      'stopper) is NOT under contract: only the model-object isolation is proved',
                      'StarterModel.next (comprehension over three nested plans)',
                      'StarterModel.feed_model (contracts/c19_feed.py) is proved to write mocks only, to leave every live '
                      'status / per-instance record as it was and to send no request, but only UNDER AN ASSUMED file-local '
                      'abstraction of Commander.on_event (the acknowledgement reaches model objects only); the payload '
                      'records of its return value are abstracted (opaque), their contents are not decided'],
         assumptions=['ProcessStatus contracts of C11',
                      'contracts/c19_feed.py ModelOnEventAbstraction: Commander.on_event called on a StarterModel only '
                      'reaches model objects and sends nothing (assumed, file-local, group process_feed)'],
         extra='pyvc.structural_c19')
