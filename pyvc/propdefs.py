from .props import register

register('C10', 'proof',
         'Per-call contracts transcribed from the statement and proved for all inputs on the real source: the time-out '
         'predicates of start and stop commands (TIMED_OUT iff the tick margin, resp. margin + startsecs/stopwaitsecs, is '
         'exceeded on the target counter; wait_exit is the only unbounded IN_PROGRESS).',
         not_decided=['end-to-end bound as one theorem (composition with C07 and Supervisor startretries)'],
         assumptions=['the target tick counter advances while the target is RUNNING (else C07 invalidates it)',
                      'ints are mathematical; handlers are atomic (single Supervisor thread)'])
register('C07', 'proof',
         'Detection predicate is_inactive proved equal to the statement for all states and counters.',
         assumptions=['the local TICK reaches on_tick (Supervisor event loop)'])
register('C11', 'proof',
         'Data-structure proof on the real source of ProcessStatus: the object invariant I11 (listed exactly where the last '
         'report is running-like or a lingering STOPPING, conflict flag iff two listed, displayed state = the synthesis of '
         'the statement) is proved preserved by every mutator from ANY state satisfying it, together with the whole-view '
         'transition postconditions (listing transition, other entries untouched, forced-state arbitration, FATAL on '
         'instance loss). Histories of any length are covered by induction over the invariant.',
         assumptions=['payload record shapes of contracts/shapes.py REC_KEYS (checked at run time in the thorough tier)',
                      'floats treated as reals (times are only compared)',
                      'time.monotonic() is non-decreasing along one execution'])
register('C05', 'proof',
         'Detection: Context.conflicting()/conflicts() proved to be exactly "some / the processes of MANAGED applications '
         'whose running_identifiers has more than one element" (C11 proves that flag equal to "listed on two distinct '
         'instances"). Request sets: each conciliation strategy is proved, per iteration of its loop over the conflicts '
         '(loop<K>_iter clauses on the ghost effect log), to emit exactly one Stopper call for that conflict and nothing '
         'else: SENICIDE stop_process(p, running(p) minus one copy of minimal uptime, False), INFANTICIDE minus one copy of '
         'maximal uptime, the identifier set never empty (an empty list would mean "everywhere"); STOP stop_process(p, '
         'None) = every copy; RESTART default_restart_process(p); RUNNING_FAILURE stop_process(p, None) then '
         'failure_handler.add_default_job(p); USER empty log. Only elements of `conflicts` are ever targeted. '
         'conciliate_conflicts: the option selects exactly the strategy of the same name.',
         not_decided=['closed loop "once those stops are reported no conflict remains and Supvisors returns to OPERATION" '
                      '(composition with C10 / C11 over real events)',
                      'whole-call statement for the loops is obtained from the per-iteration clauses by the meta-argument '
                      '"a for-loop over a list visits each element once" (effects inside symbolic loops are not in the '
                      'per-path log; the engine refuses effect predicates across such loops)',
                      'ConciliationState._master_next decision is proved (jobs in progress => stay; no conflict => '
                      'OPERATION; else one re-conciliation and stay) but goes through the ASSUMED contract of '
                      'ConciliationState._master_enter (2 call-pre obligations undecided within budget); '
                      'OperationState._master_next (needs _WorkingState._master_next, C06.3) not done',
                      'Stopper.stop_process builds commands only for running_identifiers ∩ identifiers: owned by the '
                      'Commander contracts (C09/C10), assumed here as an effect'],
         assumptions=['Starter/Stopper entry points (stop_process, default_restart_process, stop_application, '
                      'default_restart_application, Commander.next) are effect-only for the state read by C05/C06 contracts '
                      '(contracts/assumed_c05.py)',
                      'C11 invariant on the conflicting ProcessStatus (every listed instance has a report with an uptime)',
                      'min/max ties over a set: any optimal element (CPython leaves set order unspecified)',
                      'floats treated as reals (uptimes are only compared)'])
register('C06', 'proof',
         'Data-structure proof on the real source of RunningFailureHandler: the object invariant I06 (mutual exclusion of '
         'the four job sets by precedence STOP_APPLICATION > RESTART_APPLICATION > RESTART_PROCESS > CONTINUE, applications '
         'held are the registered ones) is proved preserved by add_stop_application_job, add_restart_application_job, '
         'add_restart_process_job, add_continue_process_job, add_job and add_default_job from ANY state satisfying it, with '
         'whole-view postconditions per method (which elements enter / leave which set; the in-place filter loops carry '
         'sidecar invariants), "the failure is covered by the job the precedence designates or a stronger one", "no job is '
         'forgotten", and the promotion RESTART_PROCESS -> RESTART_APPLICATION when the application is STOPPED and the '
         'process is in its start sequence. get_start_sequenced_processes proved equal to its definition.',
         not_decided=['trigger_* (deferral while the application has Starter/Stopper jobs, one Stopper call per job): '
                      'contract of trigger_jobs is ASSUMED (only removes elements), not verified - left undone',
                      '_WorkingState._master_next / on_process_state_event Master-only guards and '
                      'Commander.on_instances_invalidation: not done here',
                      'Context.invalidate_failed exactness (clause post_failed_exactly, expected refutation A11): carried '
                      'by the contract of the C07 owner (contracts/c07.py, props include C06)',
                      'RunningFailureHandler.abort: `self.x = set()` into a typed field is not modelled by the engine '
                      '(false alarm), contract not registered',
                      'start_sequence changes between two handler calls (ApplicationStatus.update_sequences) are outside '
                      'the invariant: I06 speaks about the sequences at the time of each call',
                      'end-to-end "running again on exactly one surviving instance" (composition with C04/C10/C11)'],
         assumptions=['Context validity at the call sites: processes handed to the handler belong to an application stored '
                      'under its own name in context.applications',
                      'shape validity sequences_exist: start-sequence lists reachable on entry are allocated on entry '
                      '(engine modelling artefact, true of every Python heap)'])
