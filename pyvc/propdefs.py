from .props import register

register('C10', 'proof',
         'Per-call contracts transcribed from the statement and proved for all inputs on the real source: the time-out '
         'predicates of start and stop commands (TIMED_OUT iff the tick margin, resp. margin + startsecs/stopwaitsecs, is '
         'exceeded on the target counter; wait_exit is the only unbounded IN_PROGRESS).',
         not_decided=['end-to-end bound as one theorem (composition with C07 and Supervisor startretries)'],
         assumptions=['the target tick counter advances while the target is RUNNING (else C07 invalidates it)',
                      'ints are mathematical; handlers are atomic (single Supervisor thread)'])
register('C07', 'proof',
         'Detection predicate is_inactive proved equal to the statement for all states and counters.',
         assumptions=['the local TICK reaches on_tick (Supervisor event loop)'])
register('C11', 'proof',
         'Data-structure proof on the real source of ProcessStatus: the object invariant I11 (listed exactly where the last '
         'report is running-like or a lingering STOPPING, conflict flag iff two listed, displayed state = the synthesis of '
         'the statement) is proved preserved by every mutator from ANY state satisfying it, together with the whole-view '
         'transition postconditions (listing transition, other entries untouched, forced-state arbitration, FATAL on '
         'instance loss). Histories of any length are covered by induction over the invariant.',
         assumptions=['payload record shapes of contracts/shapes.py REC_KEYS (checked at run time in the thorough tier)',
                      'floats treated as reals (times are only compared)',
                      'time.monotonic() is non-decreasing along one execution'])
register('C20', 'proof',
         'WORK IN PROGRESS',
         assumptions=['floats treated as reals'])
