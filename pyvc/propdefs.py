from .props import register

register('C10', 'proof',
         'Per-call contracts transcribed from the statement and proved for all inputs on the real source: the time-out '
         'predicates of start and stop commands (TIMED_OUT iff the tick margin, resp. margin + startsecs/stopwaitsecs, is '
         'exceeded on the target counter; wait_exit is the only unbounded IN_PROGRESS).',
         not_decided=['end-to-end bound as one theorem (composition with C07 and Supervisor startretries)'],
         assumptions=['the target tick counter advances while the target is RUNNING (else C07 invalidates it)',
                      'ints are mathematical; handlers are atomic (single Supervisor thread)'])
register('C07', 'proof',
         'Detection predicate is_inactive proved equal to the statement for all states and counters.',
         assumptions=['the local TICK reaches on_tick (Supervisor event loop)'])
register('C11', 'proof',
         'Data-structure proof on the real source of ProcessStatus: the object invariant I11 (listed exactly where the last '
         'report is running-like or a lingering STOPPING, conflict flag iff two listed, displayed state = the synthesis of '
         'the statement) is proved preserved by every mutator from ANY state satisfying it, together with the whole-view '
         'transition postconditions (listing transition, other entries untouched, forced-state arbitration, FATAL on '
         'instance loss). Histories of any length are covered by induction over the invariant.',
         assumptions=['payload record shapes of contracts/shapes.py REC_KEYS (checked at run time in the thorough tier)',
                      'floats treated as reals (times are only compared)',
                      'time.monotonic() is non-decreasing along one execution'])
register('C20', 'proof',
         'Data-structure proof on the real source of statscompiler.py. trunc_depth: loop invariant "lst is a suffix of old", '
         'len\' = min(len, depth), termination. ProcStatisticsInstance.push_statistics and '
         'HostStatisticsInstance.push_statistics (times / mem / per-core cpu series): the object invariant (every series has '
         'len(times) points, at most depth) is preserved from ANY state satisfying it, a point is produced iff a reference '
         'exists and now - ref.now >= period, the reference rolls over exactly then and on the first push. cpu_statistics: '
         'values in [0, 100] for non-decreasing counters, 0 when total = 0. io_statistics: only interfaces present in both '
         'samples with non-decreasing counters, rates >= 0 (reals). _push_cpu_stats: one point more per core, cut to depth.',
         not_decided=['alignment / bound of the net_io, disk_io, disk_usage series (HostStatisticsInstance._push_timed_stats: '
                      'four loops incl. a nested zip loop over aliased lists) - the function is only used through an ASSUMED '
                      'frame contract (it does not write the times / mem / cpu lists); its body is NOT verified',
                      'ProcStatisticsHolder.push_statistics / ProcStatisticsCompiler / HostStatisticsCompiler (pid 0 => entry '
                      'dropped, pid change => fresh histories, holder deleted when empty): need object construction inside '
                      'summarised dict comprehensions, not supported by the engine yet',
                      'process CPU <= 100 per core: needs d(proc_work) <= d(now) * cores, a fact about the kernel accounting',
                      'the cpu values stored by HostStatisticsInstance.push_statistics equal cpu_statistics(sample, ref) '
                      '(proved for _push_cpu_stats and cpu_statistics separately, composition left out: solver time)',
                      'statscollector.py (psutil, child process)'],
         assumptions=['floats treated as reals (one rounding step could give 100.00000000000001)',
                      'sample payload shapes of contracts/shapes.py REC_KEYS (cpu: list of (work, idle), net_io / disk_io: '
                      '{name: (in, out)}, disk_usage: {path: percent})',
                      'period > 0 and depth >= 1 (options.to_period: [1, 3600], to_histo: [10, 1500]; C18); '
                      'HostStatisticsInstance.depth is an int (built from options.stats_histo only)',
                      'the times / mem / cpu / per-core lists of one HostStatisticsInstance are distinct objects (established by '
                      '__init__ and the first push, stated as precondition and proved preserved)',
                      'ASSUMED frame of HostStatisticsInstance._push_timed_stats (unverified): writes only the dictionary given, '
                      'the integrated values and history lists other than times / mem / cpu'])
