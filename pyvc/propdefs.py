from .props import register

register('C10', 'proof',
         'Per-call contracts transcribed from the statement and proved for all inputs on the real source: the time-out '
         'predicates of start and stop commands (TIMED_OUT iff the tick margin, resp. margin + startsecs/stopwaitsecs, is '
         'exceeded on the target counter; wait_exit is the only unbounded IN_PROGRESS).',
         not_decided=['end-to-end bound as one theorem (composition with C07 and Supervisor startretries)'],
         assumptions=['the target tick counter advances while the target is RUNNING (else C07 invalidates it)',
                      'ints are mathematical; handlers are atomic (single Supervisor thread)'])
register('C07', 'proof',
         'Per-call contracts transcribed from the statement and proved for all inputs on the real source: the stamp of a '
         'received tick (SupvisorsTimes.update: local counter at reception, 0 on a decreasing remote counter), the '
         'detection predicate is_inactive, the accuracy and completeness lemmas over these two contracts, '
         'Context.on_timer_event (FAILED on exactly the inactive instances, loop invariant), on_instance_failure, '
         'Context.invalidate (local => STOPPED, fence or auto_fence with a working Master => ISOLATED, else STOPPED), the '
         'state setter (raises unless the change is an edge of the documented graph), ProcessStatus.invalidate_identifier '
         '(what ran on the lost instance becomes FATAL and is no longer listed there, other entries untouched; C11). '
         'Structural scans: single writer of _state, _Transitions = documented graph, whitelist of the functions assigning '
         'each target state, ISOLATED only for a non-local instance, call chain on_tick -> on_timer_event -> fsm.next -> '
         'invalidate_failed in every FSM state.',
         not_decided=['message-delay / phase arguments beyond "a tick was received within the window" (the statement is '
                      'phrased in received ticks)',
                      'Context.invalidate_failed as a whole (clause 4 over all processes of the lost instances): its contract '
                      '(contracts/pending_c07_invalidate_failed.txt) executes entirely and its instance-level clauses '
                      'discharge, but the call precondition of invalidate_identifier (object invariant I11 for every '
                      'process) is undecided within the budget, so it is NOT part of this check; the expected defect '
                      'A11 (STOPPING-only copy on a lost instance stays listed) is reproduced natively only '
                      '(findings/C07_invalidate_failed_stopping_demo.py)',
                      'reachability through the proxy-thread race of the STOPPED status met by on_instance_failure '
                      '(reproduced at function level after a real history, the interleaving itself is not modelled)'],
         assumptions=['the local TICK reaches on_tick (Supervisor event loop) and XML-RPC failure notifications are '
                      'delivered by the proxy thread',
                      'structural validity of the per-instance maps (same domain, keyed by identifier, distinct objects): '
                      'precondition valid_structure / distinct_entries of contracts/c07.py',
                      'ints are mathematical; handlers are atomic (single Supervisor thread)'],
         extra='pyvc.structural_c07')
register('C11', 'proof',
         'Data-structure proof on the real source of ProcessStatus: the object invariant I11 (listed exactly where the last '
         'report is running-like or a lingering STOPPING, conflict flag iff two listed, displayed state = the synthesis of '
         'the statement) is proved preserved by every mutator from ANY state satisfying it, together with the whole-view '
         'transition postconditions (listing transition, other entries untouched, forced-state arbitration, FATAL on '
         'instance loss). Histories of any length are covered by induction over the invariant.',
         assumptions=['payload record shapes of contracts/shapes.py REC_KEYS (checked at run time in the thorough tier)',
                      'floats treated as reals (times are only compared)',
                      'time.monotonic() is non-decreasing along one execution'])
register('C01', 'other',
         'Necessary conditions only (per instance, per call): the guards of the election are proved on the real source - '
         'get_master_identifiers returns exactly the Masters declared by the instances seen RUNNING, check_master is true '
         'iff these instances declare one and the same Master and none is without Master, update_instance_state resets '
         'the Master when it leaves RUNNING, forgets the declaration of a STOPPED / ISOLATED peer (fresh StateModes) and '
         'leaves the rest of the local view untouched, get_stable_running_identifiers is the RUNNING set of a peer iff all '
         'the states it publishes are stable. Agreement between instances is NOT proved (property of N interleaved FSMs).',
         not_decided=['agreement / convergence over schedules of N instances (no per-call contract expresses it)',
                      'select_master: the contract transcribed from the rule (contracts/pending_c01_select_master.txt) '
                      'is undecided within the solver budget and is not part of this check; its expected safe:KeyError '
                      '(Appendix A24) is therefore not reported by this check',
                      'evaluate_stability / ElectionState.next guards, Master-only automatic actions (C01.5) - FSM agent'],
         assumptions=['rely condition on peers: a publication is an atomic snapshot of a state satisfying the same '
                      'per-instance contracts; FIFO per sender',
                      'structural validity of the per-instance maps (valid_structure / distinct_entries, contracts/c07.py)',
                      'call sites of check_master come after _OnState._check_consistence (local instance seen RUNNING)'])
register('C13', 'proof',
         'Non-interference clauses proved per handler on the real source: Context.is_valid never returns an ISOLATED status, '
         'returns None for an unknown or ambiguous origin and only the status of the claimed origin; on_authorization '
         'ignores stale / duplicated results (is_checking: CHECKING and timestamp later than the entry in CHECKING), marks '
         'ISOLATED a peer answering NOT_AUTHORIZED / INCONSISTENT / an unknown code (STOPPED for the local instance), '
         'admits (CHECKED) only on AUTHORIZED, goes back to STOPPED on UNKNOWN, and leaves an ISOLATED status ISOLATED; '
         'on_identification_event changes no instance state and has no effect outside the CHECKING window; '
         'Context.invalidate(fence=True) => ISOLATED unless local. Permanence: C07 (empty ISOLATED row, single writer, '
         'state setter contract).',
         not_decided=['reciprocity as a two-party fact (needs the real answer of the remote instance)',
                      'claimed origin vs real sender (transport)',
                      'listener.read_publication / read_notification (json decoding), SupervisorProxyServer.get_proxy / '
                      'push_* (threads, locks) and SupervisorProxy._is_authorized (XML-RPC) are not under contract in this '
                      'round: the frame "invalid origin => nothing modified, nothing emitted" is proved at the level of '
                      'Context.is_valid only',
                      'process state / removal / disability events only from CHECKED or RUNNING peers: C12'],
         assumptions=['SupvisorsInstanceId.is_valid (address match) is an external predicate',
                      'SupvisorsMapper.filter resolves identifier lists as documented (assumed contract); mapper closure '
                      '(nick identifiers and stereotypes name known instances)',
                      'structural validity of the per-instance maps (valid_structure / distinct_entries, contracts/c07.py)',
                      'XML-RPC answers of the remote are what its RPCInterface returns'])
