from .props import register

register('C10', 'proof',
         'Per-call contracts transcribed from the statement and proved for all inputs on the real source: the time-out '
         'predicates of start and stop commands (TIMED_OUT iff the tick margin, resp. margin + startsecs/stopwaitsecs, is '
         'exceeded on the target counter; wait_exit is the only unbounded IN_PROGRESS).',
         not_decided=['end-to-end bound as one theorem (composition with C07 and Supervisor startretries)'],
         assumptions=['the target tick counter advances while the target is RUNNING (else C07 invalidates it)',
                      'ints are mathematical; handlers are atomic (single Supervisor thread)'])
register('C07', 'proof',
         'Detection predicate is_inactive proved equal to the statement for all states and counters.',
         assumptions=['the local TICK reaches on_tick (Supervisor event loop)'])
register('C11', 'proof',
         'Data-structure proof on the real source of ProcessStatus: the object invariant I11 (listed exactly where the last '
         'report is running-like or a lingering STOPPING, conflict flag iff two listed, displayed state = the synthesis of '
         'the statement) is proved preserved by every mutator from ANY state satisfying it, together with the whole-view '
         'transition postconditions (listing transition, other entries untouched, forced-state arbitration, FATAL on '
         'instance loss). Histories of any length are covered by induction over the invariant.',
         assumptions=['payload record shapes of contracts/shapes.py REC_KEYS (checked at run time in the thorough tier)',
                      'floats treated as reals (times are only compared)',
                      'time.monotonic() is non-decreasing along one execution'])
register('C02', 'proof',
         'Per-transition proof on the real source. (1) Single writer: syntactic scan of every assignment to an attribute '
         '`state` of the package + verified frames (next()/exit()/on_instance_state_event never write the local state). '
         '(2) The precondition of the only writer (SupvisorsStateModes.state setter) IS the statement - new in '
         '_Transitions[old], and a Master-driven state only with a known Master seen RUNNING that is either the local '
         'instance or already published that state - and is discharged at its single call site in '
         'FiniteStateMachine.set_state under a loop invariant (instance class = current state), for every proposal that '
         'next()/on_restart/on_shutdown can make; _Transitions (read from the AST) is inside the documented graph, FINAL '
         'terminal; the setter publishes iff the state changes. (3) Every value returned by next() of each of the nine '
         'state classes (whole super() chain executed symbolically, Context / Starter / Stopper call-outs by contract) '
         'satisfies the Master clause, except the known finding (SHUTDOWN failure strategy).',
         not_decided=['re-entrant FSM transitions out of Starter/Stopper/failure-handler call-outs (forced process event with '
                      'running failure strategy RESTART/SHUTDOWN on the Master) are not modelled inside next(); they go '
                      'through set_state and its table check like every other write',
                      'exception-freedom of SynchronizationState._check_end_sync_user (Master accepted from a peer but '
                      'unknown to the local Context: AttributeError) is left to C16',
                      'FiniteStateMachine.__init__ establishing the FSM invariant (OffState / OFF) is read, not proved'],
         assumptions=['J (rely condition of C01): a known Master is an instance the local instance sees RUNNING on entry of '
                      'every handler (kept by update_instance_state, verified; select_master/accept_master are C01\'s)',
                      'the Master state known to a slave is the last one it published (FIFO per sender)',
                      'assumed contracts of Context.invalidate_failed / activate_checked / on_timer_event (instance states '
                      'only move through the SupvisorsInstanceStatus.state setter), of the Starter / Stopper / failure '
                      'handler / conciliation call-outs (they do not touch the state & modes view) and of the transport',
                      'shape validity of the Supvisors structure (wiring, same keys in the per-instance maps)',
                      'handlers are atomic (single Supervisor thread)'],
         extra='pyvc.structural_c02')
register('C08', 'other',
         'Liveness of the composed system is out of reach of per-call contracts; necessary conditions are proved per call: '
         '(1) no self-decision of a state class is refused by the transition table (values returned by next() outside the '
         'follow-the-Master path are in _Transitions[X] + {X, None}) - refuted twice, both known findings; (2) on_timer_event '
         'always reaches next(), on_state_event calls next() iff the sender is the Master, every evaluation goes through '
         'set_state; (3) SynchronizationState/ElectionState.enter leave no start, stop or failure job; (4) functional '
         'contract of _check_failure_strategy (CONTINUE never leaves; RESYNC/SHUTDOWN exactly when a selected condition is '
         'lost, precedence USER > CORE > STRICT > LIST; TIMEOUT alone never fails).',
         not_decided=['bounded-time return of every live instance to OPERATION/CONCILIATION (liveness over all schedules)',
                      'termination of the set_state loop inside one call (needs a global argument on Context stability '
                      'between evaluations); only proved: every iteration performs a transition of the table or stops',
                      'clause 5 (slave in ELECTION that missed its Master\'s DISTRIBUTION): needs a multi-instance history; '
                      'the per-call obligation is not claimed'],
         assumptions=['same assumed call-out contracts as C02',
                      'Context.on_timer_event does not raise (C07/C16)'])
