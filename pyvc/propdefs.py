from .props import register

register('C10', 'proof',
         'Per-call contracts transcribed from the statement and proved for all inputs on the real source: the time-out '
         'predicates of start and stop commands (TIMED_OUT iff the tick margin, resp. margin + startsecs/stopwaitsecs, is '
         'exceeded on the target counter; wait_exit is the only unbounded IN_PROGRESS).',
         not_decided=['end-to-end bound as one theorem (composition with C07 and Supervisor startretries)'],
         assumptions=['the target tick counter advances while the target is RUNNING (else C07 invalidates it)',
                      'ints are mathematical; handlers are atomic (single Supervisor thread)'])
register('C07', 'proof',
         'Detection predicate is_inactive proved equal to the statement for all states and counters.',
         assumptions=['the local TICK reaches on_tick (Supervisor event loop)'])
register('C11', 'proof',
         'Data-structure proof on the real source of ProcessStatus: the object invariant I11 (listed exactly where the last '
         'report is running-like or a lingering STOPPING, conflict flag iff two listed, displayed state = the synthesis of '
         'the statement) is proved preserved by every mutator from ANY state satisfying it, together with the whole-view '
         'transition postconditions (listing transition, other entries untouched, forced-state arbitration, FATAL on '
         'instance loss). Histories of any length are covered by induction over the invariant.',
         assumptions=['payload record shapes of contracts/shapes.py REC_KEYS (checked at run time in the thorough tier)',
                      'floats treated as reals (times are only compared)',
                      'time.monotonic() is non-decreasing along one execution'])
register('C18', 'proof',
         'Decision logic proved for all inputs on the real source, with every string-level operation (ElementTree find / '
         'findtext / get, re.search / match, int(), float(), strtobool, Supervisor datatypes) an assumed external whose '
         'result is an uninterpreted function of its arguments: exact name beats any pattern and get_best_pattern returns '
         'a matching pattern of maximal match length or None (loop invariant); load_model_rules terminates (decreases '
         'loop_check, depth <= 3) and, per attribute, the element\'s own valid value supersedes the referenced model '
         'chain; load_sequence / load_expected_loading / load_boolean / load_enum set the attribute iff the text is in '
         'the domain, else leave the rules unchanged (frame), nothing escapes; ProcessRules / ApplicationRules '
         'check_dependencies; every integer / enumeration / period converter of options.py raises ValueError or returns '
         'a value of the documented range (float() returns ANY binary64 value, IEEE comparisons); _get_value falls back '
         'to the default and lets nothing else escape; check_options. String-level pieces (alias expansion, sign '
         'extraction, @ / # assignment, IP / multicast parsing, best pattern with the real re) are BOUNDED stand-ins on '
         'the real functions, listed under bounded_standins and never counted as proved.',
         not_decided=['XSD validation by lxml (external)', "'as documented' for '#' / '@' beyond the bounded reference",
                      'to_filepaths / to_existing_file / check_dirpath (file system; only used through _get_value)',
                      'SupvisorsOptions.__init__ as a whole (27 _get_value calls); the aliasing of the class default is '
                      'established by the _get_value postcondition plus a syntactic scan',
                      'load_status (formula parsing, C15) and check_identifier_list are assumed in the deductive part'],
         assumptions=['ElementTree / lxml accessors are functions of the (immutable) document',
                      'int(), float(), strtobool, supervisor.datatypes.integer / boolean raise exactly ValueError',
                      'the literal pattern r".*[-_](\\d+)$" is valid and its group 1 is accepted by int() (checked on '
                      'samples by a bounded stand-in)',
                      'SupvisorsMapper always knows the local instance (instances not empty)',
                      'namespecs given to load_program_rules are those of real processes (non-empty process name)',
                      'dicts keyed by str never hold the key None'],
         extra='pyvc.structural_c18')
