from .props import register

register('C10', 'proof',
         'Per-call contracts transcribed from the statement and proved for all inputs on the real source: the time-out '
         'predicates of start and stop commands (TIMED_OUT iff the tick margin, resp. margin + startsecs/stopwaitsecs, is '
         'exceeded on the target counter; wait_exit is the only unbounded IN_PROGRESS; both overrides proved equal to the '
         'formula assumed for the abstract ProcessCommand.timed_out); fail_command emits exactly one '
         'force_process_state with FATAL (start job) / STOPPED (stop job); force_process_state builds the forced payload '
         '(forced, state, reason, target identifier, time of the last event), applies it locally through the fsm and then '
         'publishes the same payload; both propagate the re-entrancy discipline of the call-out.',
         not_decided=['end-to-end bound as one theorem (composition with C07 and Supervisor startretries)',
                      'clause 2 ApplicationJobs.check and clause 4 on_instances_invalidation: contract written '
                      '(contracts/wip_c10_check.txt) but not converged under the honest re-entrancy discipline - NOT claimed; '
                      'safe:ValueError@check:582 is refuted there and reproduced natively (findings/C10_check_valueerror_demo.py)',
                      'clause 5 measure lemma: not stated as a lemma; it is the arithmetic content of the timed_out contracts',
                      're-entrancy exclusion: Stopper.after -> starter.start_process -> add_commands may add a command to the '
                      'plan of a Starter job during a Stopper chain (outside the assumed call-out discipline)'],
         assumptions=['the target tick counter advances while the target is RUNNING (else C07 invalidates it)',
                      'ints are mathematical; handlers are atomic (single Supervisor thread)',
                      'RE-ENTRANT CALL-OUT: FiniteStateMachine.on_process_state_event is taken by the assumed contract '
                      'FsmOnProcessStateEvent (contracts/assumed_repo.py): nothing is framed; for every ApplicationJobs alive before the '
                      'call the re-entered Starter/Stopper keeps its in-flight list object, and its plan only shrinks: remaining '
                      'groups are the same list objects, sequence numbers leave in pickup order or all at once (ABORT/STOP)',
                      'rpc_handler.send_* are effects only (transport outside the model)',
                      'shape validity: one Supvisors root; the local identifier is a key of context.instances'])
register('C03', 'proof',
         'Sequencing discipline proved per call on the real source. ApplicationJobs.next (start variant, pickup_logic = min '
         'resolved from the class): nothing is triggered and nothing changes while a command is in flight; sequence numbers '
         'leave the plan in increasing order (every popped number is below every remaining one), the remaining groups are '
         'the same list objects; every command of the popped group is passed to process_job exactly once in that call '
         '(per-iteration clause); the call returns with a command in flight or an empty plan. Completion criterion '
         'ProcessStartCommand.on_event: full functional postcondition (SUCCESS iff RUNNING without awaited exit or expected '
         'EXITED with wait_exit; FAILED on FATAL / unexpected EXITED / STOPPED / STOPPING / UNKNOWN; BACKOFF restarts the '
         'margin). process_failure: ABORT / STOP wipe the plan (STOP sets stop_request), CONTINUE / optional leave it. The '
         'call-out obligation of process_job (a job with commands still to trigger must look in progress when the Commander '
         'can be re-entered) is REFUTED on the unchanged tree: genuine defect, reproduced natively.',
         not_decided=['the order of requests relative to the TRUE process states under all timings / partitions',
                      'ghost history Orig/Started/Done: not built. It would have added, across calls, "a command in flight '
                      'belongs to the LAST popped group and every command of an earlier group has left the in-flight list" as '
                      'an object invariant; the per-call clauses give: pop only when nothing is in flight + pickup order + all '
                      'commands of a group triggered in the same call. With the weak re-entrancy discipline assumed for '
                      'process_job, "commands in flight after next() come from the last popped group" is not provable',
                      'Commander.next (application level, clause 3), Starter.store_application / start_applications (sequence 0 '
                      'never planned, clause 1), Starter.after, ApplicationJobs.on_event / check / on_instances_invalidation: no '
                      'contract yet (store_application needs comprehensions that allocate objects, not supported by the engine)',
                      'ApplicationStartJobs.process_job is taken by contract (assumed): its placement callees belong to C04/C14/C16',
                      'termination of the recursion of next() (len(planned_jobs) decreases) is not an engine obligation',
                      'add_commands (user start_process merged into a running job) is outside the statement scope'],
         assumptions=['"finished starting" is judged on the instance view info_map[target][state], not on the true remote state',
                      'RE-ENTRANT CALL-OUT discipline of contracts/assumed_repo.py FsmOnProcessStateEvent (see C10)',
                      'shape validity: planned groups are list objects distinct from the in-flight list'])
register('C09', 'proof',
         'Clause 1 proved per call on the real source. ApplicationJobs.next (stop variant, pickup_logic = max resolved from '
         'the single constructor assignment): nothing is triggered while a command is in flight; sequence numbers leave the '
         'plan in DEcreasing order; commands sharing a sequence number are passed to process_job in the same call; returns '
         'with a command in flight or an empty plan - fully discharged for the stop variant. ApplicationStopJobs.process_job: '
         'exactly one send_stop_process(identifier, namespec) iff process.running_on(identifier), nothing otherwise. '
         'ProcessStopCommand.on_event: SUCCESS iff the target reports a stopped state. fail_command forces STOPPED.',
         not_decided=['"reaches the Master", exactly-once delivery to every live instance, true process states',
                      'clause 2 (on_restart / on_shutdown re-routing) and the ending states: other agent (statemachine.py)',
                      'Stopper.store_application (commands only for running_identifiers), Commander.next at application level: '
                      'no contract yet. A re-entrancy defect of Commander.next on the restart path is reproduced natively '
                      '(findings/C09_restart_keyerror_demo.py: KeyError escapes fsm.on_process_state_event) but not yet an '
                      'obligation',
                      'same ghost-history remark as C03'],
         assumptions=['RE-ENTRANT CALL-OUT discipline of contracts/assumed_repo.py FsmOnProcessStateEvent (see C10)',
                      'stop commands are built with their target (ProcessStopCommand.__init__)'])
register('C07', 'proof',
         'Detection predicate is_inactive proved equal to the statement for all states and counters.',
         assumptions=['the local TICK reaches on_tick (Supervisor event loop)'])
register('C11', 'proof',
         'Data-structure proof on the real source of ProcessStatus: the object invariant I11 (listed exactly where the last '
         'report is running-like or a lingering STOPPING, conflict flag iff two listed, displayed state = the synthesis of '
         'the statement) is proved preserved by every mutator from ANY state satisfying it, together with the whole-view '
         'transition postconditions (listing transition, other entries untouched, forced-state arbitration, FATAL on '
         'instance loss). Histories of any length are covered by induction over the invariant.',
         assumptions=['payload record shapes of contracts/shapes.py REC_KEYS (checked at run time in the thorough tier)',
                      'floats treated as reals (times are only compared)',
                      'time.monotonic() is non-decreasing along one execution'])
