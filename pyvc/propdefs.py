from .props import register

register('C10', 'proof',
         'Per-call contracts transcribed from the statement and proved for all inputs on the real source: the time-out '
         'predicates of start and stop commands (TIMED_OUT iff the tick margin, resp. margin + startsecs/stopwaitsecs, is '
         'exceeded on the target counter; wait_exit is the only unbounded IN_PROGRESS).',
         not_decided=['end-to-end bound as one theorem (composition with C07 and Supervisor startretries)'],
         assumptions=['the target tick counter advances while the target is RUNNING (else C07 invalidates it)',
                      'ints are mathematical; handlers are atomic (single Supervisor thread)'])
register('C07', 'proof',
         'Detection predicate is_inactive proved equal to the statement for all states and counters.',
         assumptions=['the local TICK reaches on_tick (Supervisor event loop)'])
