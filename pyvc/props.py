"""Per-property meta data (level, what is and is not decided) and the structural obligations that are not
function contracts (single-writer scans, table comparisons).  Filled property by property."""
import importlib

PROPS = {}


def register(pid, level, explanation, not_decided=(), assumptions=(), trusted=(), extra=None):
    PROPS[pid] = {'level': level, 'explanation': explanation, 'not_decided': list(not_decided),
                  'assumptions': list(assumptions), 'trusted': list(trusted), 'extra': extra}


def run_extra(pid, world, tier):
    spec = PROPS[pid]
    out = {'obligations': [], 'errors': [], 'bounded': [], 'structural': []}
    if spec.get('extra'):
        mod = importlib.import_module(spec['extra'])
        mod.run(world, tier, out)
    return out


def obligation(name, ok, detail='', function='(structural)', backend='ast-scan', kind='struct', seconds=0.0):
    return {'name': name, 'kind': kind, 'verdict': 'discharged' if ok else 'refuted', 'seconds': seconds,
            'backend': backend, 'detail': detail, 'function': function, 'variant': None, 'line': 0}


from . import propdefs  # noqa: E402,F401  (registers the properties)
