"""Loops over symbolic collections: inductive invariants from the sidecar contract (initiation, preservation, use)."""
import ast
from .core import *
from .interp import EXEC, GENERIC, SPEC, I, B, R, arr, Frame, PathEnd


def loop_ordinal(fi, node):
    loops = [n for n in ast.walk(fi.node) if isinstance(n, (ast.For, ast.While))]
    loops.sort(key=lambda n: (n.lineno, n.col_offset))
    return loops.index(node)


def find_spec(eng, fr, node):
    fi = fr.fi
    if fi is None:
        return None, None, None
    k = loop_ordinal(fi, node)
    reg = eng.reg
    con = reg.contracts.get(fi.qualname)
    if con is None or k not in con.loops:
        con = reg.loop_contracts.get(fi.qualname) if hasattr(reg, 'loop_contracts') else None
    if con is None or k not in con.loops:
        return None, k, None
    return con.loops[k], k, con


def assigned_names(stmts):
    out = set()
    for s in stmts:
        for n in ast.walk(s):
            if isinstance(n, ast.Name) and isinstance(n.ctx, ast.Store):
                out.add(n.id)
    return out


def declared_local_type(eng, con, fr, nme):
    """type given to a local of the function by the `types` attribute of its (loop) contract"""
    t = (con.types or {}).get(nme) if con is not None else None
    if t is None:
        return None
    return eng.ts.ann_to_type(ast.parse(t, mode='eval').body, fr.module, fr.defcls)


def prepare_locals(eng, fr, con, body):
    """literal lists bound to locals and used inside the loop body become heap lists before the loop is abstracted
    (a literal list mutated by an arbitrary iteration would otherwise keep its entry value at loop exit)"""
    used = {n.id for st in body for n in ast.walk(st) if isinstance(n, ast.Name)}
    for nme in sorted(used):
        v = fr.vars.get(nme)
        if isinstance(v, ConstSeq) and v.kind == 'list':
            if sum(1 for x in fr.vars.values() if x is v) > 1:
                raise Unsupported(f'literal list {nme!r} used in a loop is bound to several locals')
            ty = declared_local_type(eng, con, fr, nme)
            if ty is None and v.items:
                ty = eng.value_type(v)
            if ty is None or not isinstance(ty, TList) or ty.t == ANY:
                raise Unsupported(f'loop uses the literal list {nme!r}: declare its type in types= of the contract so '
                                  f'that it lives in the heap')
            fr.vars[nme] = eng.materialize(v, ty)


def havoc_locals(eng, fr, names, con=None):
    for nme in sorted(names):
        if nme in fr.vars:
            v = fr.vars[nme]
            try:
                ty = eng.value_type(v)
            except Unsupported:
                continue
            if isinstance(v, SetV) and v.ety == ANY:
                raise Unsupported(f'loop modifies the set {nme!r} whose element type is unknown: annotate it')
            if isinstance(v, ConstSeq):
                raise Unsupported(f'loop modifies the literal list {nme!r}: annotate it so that it lives in the heap')
            if ty == NONE:
                # None at loop entry, assigned by the body: its value at the head of an arbitrary iteration is only
                # known through the declared type (types= of the contract)
                ty = declared_local_type(eng, con, fr, nme)
                if ty is None:
                    raise Unsupported(f'loop assigns the local {nme!r}, which is None at loop entry: declare its type in '
                                      f'types= of the contract')
            fr.vars[nme] = eng.fresh_value('lv_' + nme, ty)


def _bind(eng, fr, extra):
    b = dict(fr.vars)
    b['old'] = OldNS(eng.entry_vars, eng.old_heap) if eng.old_heap is not None else None
    b.update(extra)
    return b


def _clause(eng, con, clause, fr, extra):
    b = _bind(eng, fr, extra)
    names = [a.arg for a in clause.args.args]
    for n in names:
        if n not in b:
            raise Unsupported(f'loop clause {clause.name}: {n!r} is not a local of the function at this point')
    return eng.eval_clause(clause, con.module, b)


def symbolic_for(eng, s, fr, it):
    spec, k_ord, con = find_spec(eng, fr, s)
    if spec is None or 'inv' not in spec:
        raise Unsupported(f'for-loop #{k_ord} over a symbolic collection at line {s.lineno} of {fr.fi.qualname if fr.fi else "?"} '
                          f'needs an invariant (loop{k_ord}_inv)')
    if eng.mode != EXEC:
        raise Unsupported('loop outside exec mode')
    tag = f'loop{k_ord}/{eng.cur_fn}'
    prepare_locals(eng, fr, con, s.body)
    entry_heap = eng.heap.snapshot()
    entry_vars = dict(fr.vars)
    loop_old = OldNS(entry_vars, entry_heap)
    is_list = isinstance(it, ListV)
    if isinstance(it, DictV):
        it = ValuesView(it, 'keys')
    if is_list:
        n = eng.list_len(it)
        ghost0 = {'k': 0, 'loop_old': loop_old}
    else:
        ety = eng.elem_type(it) if not (isinstance(it, ValuesView) and it.what == 'items') else it.d.kty
        so = sort_of(it.d.kty if isinstance(it, ValuesView) else ety)
        keyty = it.d.kty if isinstance(it, ValuesView) else ety
        ghost0 = {'seen': SymSet(z3.K(so, z3.BoolVal(False)), keyty), 'loop_old': loop_old}
    # 1. initiation
    eng.run.oblige(f'loop-init:{tag}', 'inv', _clause(eng, con, spec['inv'], fr, ghost0), s.lineno)
    # 2. arbitrary iteration: havoc what the body may change
    if 'modifies' in spec:
        b = _bind(eng, fr, ghost0)
        names = [a.arg for a in spec['modifies'].args.args]
        mfr = Frame(None, con.module, {x: b[x] for x in names}, None, None)
        saved = eng.mode
        eng.mode = SPEC
        try:
            try:
                eng.exec_block(spec['modifies'].body, mfr)
                mods = []
            except ReturnEx as r:
                mods = list(eng.iter_const(r.value))
        finally:
            eng.mode = saved
        eng.heap.havoc(eng.allowed_fn(mods))
    else:
        eng.heap.havoc(eng.allowed_fn(None))
    havoc_locals(eng, fr, assigned_names(s.body) | assigned_names([s.target]), con)
    if is_list:
        k = eng.run.fresh('k', I)
        eng.run.assume(z3.And(0 <= k, k <= n))
        ghost = {'k': SV(k, INT), 'loop_old': loop_old}
        eng.run.assume(_clause(eng, con, spec['inv'], fr, ghost))
        more = k < n
    else:
        coll_chi = eng.set_chi(it if not isinstance(it, ValuesView) else it.d)
        # the collection iterated is the one at loop entry
        if isinstance(it, (SetV, DictV)) or isinstance(it, ValuesView):
            base = it.d if isinstance(it, ValuesView) else it
            pinned = eng.pin(base, entry_heap)
            coll_chi = eng.set_chi(pinned)
        seen = eng.run.fresh('seen', arr(so, B))
        x = z3.Const('x!loop', so)
        eng.run.assume(z3.ForAll([x], z3.Implies(seen[x], coll_chi[x])))
        ghost = {'seen': SymSet(seen, keyty), 'loop_old': loop_old}
        eng.run.assume(_clause(eng, con, spec['inv'], fr, ghost))
        more = z3.Exists([x], z3.And(coll_chi[x], z3.Not(seen[x])))
    if eng.run.decide(more):
        if is_list:
            elem = eng.list_get(it, k)
            ghost_next = {'k': SV(k + 1, INT), 'loop_old': loop_old}
        else:
            e = eng.run.fresh('elem', so)
            eng.run.assume(z3.And(coll_chi[e], z3.Not(seen[e])))
            kv = eng.wrap(e, keyty)
            if isinstance(it, ValuesView) and it.what in ('values', 'items'):
                d = eng.pin(it.d, entry_heap)
                vv = eng.assume_domain(eng.wrap(eng.dict_val(d)[1][d.ref][e], d.vty))
                elem = vv if it.what == 'values' else (kv, vv)
            else:
                elem = kv
            ghost_next = {'seen': SymSet(z3.Store(seen, e, True), keyty), 'loop_old': loop_old}
        eng.bind_target(s.target, elem, fr, s.lineno)
        try:
            eng.exec_block(s.body, fr)
        except BreakEx:
            return     # leaves the loop from an arbitrary iteration satisfying the invariant
        except ContinueEx:
            pass
        eng.run.oblige(f'loop-preserve:{tag}', 'inv', _clause(eng, con, spec['inv'], fr, ghost_next), s.lineno)
        raise PathEnd()
    # 3. exit: invariant with everything processed
    if not is_list:
        eng.run.assume(z3.ForAll([x], seen[x] == coll_chi[x]))
    eng.exec_block(s.orelse, fr)


def symbolic_while(eng, s, fr):
    spec, k_ord, con = find_spec(eng, fr, s)
    if spec is None or 'inv' not in spec:
        # no invariant: unroll while the condition is decided, bounded
        for _ in range(12):
            c = eng.truthy(eng.ev(s.test, fr))
            if not isinstance(c, bool):
                c = eng.run.decide(c)
            if not c:
                eng.exec_block(s.orelse, fr)
                return
            try:
                eng.exec_block(s.body, fr)
            except BreakEx:
                return
            except ContinueEx:
                continue
        raise Unsupported(f'while-loop #{k_ord} at line {s.lineno} needs an invariant (loop{k_ord}_inv): not finished after 12 '
                          f'unrollings')
    tag = f'loop{k_ord}/{eng.cur_fn}'
    prepare_locals(eng, fr, con, s.body)
    loop_old = OldNS(dict(fr.vars), eng.heap.snapshot())
    ghost = {'loop_old': loop_old}
    eng.run.oblige(f'loop-init:{tag}', 'inv', _clause(eng, con, spec['inv'], fr, ghost), s.lineno)
    eng.heap.havoc(eng.allowed_fn(None))
    havoc_locals(eng, fr, assigned_names(s.body), con)
    eng.run.assume(_clause(eng, con, spec['inv'], fr, ghost))
    measure0 = None
    if 'decreases' in spec:
        measure0 = eng.eval_term(con, spec['decreases'], fr, ghost)
    c = eng.truthy(eng.ev(s.test, fr))
    if not isinstance(c, bool):
        c = eng.run.decide(c)
    if c:
        try:
            eng.exec_block(s.body, fr)
        except BreakEx:
            return
        except ContinueEx:
            pass
        eng.run.oblige(f'loop-preserve:{tag}', 'inv', _clause(eng, con, spec['inv'], fr, ghost), s.lineno)
        if measure0 is not None:
            m1 = eng.eval_term(con, spec['decreases'], fr, ghost)
            eng.run.oblige(f'term:{tag}', 'term', z3.And(measure0 >= 0, m1 < measure0), s.lineno)
        raise PathEnd()
    eng.exec_block(s.orelse, fr)
