"""Loops over symbolic collections: inductive invariants from the sidecar contract (initiation, preservation, use)."""
import ast
from .core import *
from .interp import EXEC, GENERIC, SPEC, I, B, R, arr, Frame, PathEnd


def loop_ordinal(fi, node):
    loops = [n for n in ast.walk(fi.node) if isinstance(n, (ast.For, ast.While))]
    loops.sort(key=lambda n: (n.lineno, n.col_offset))
    return loops.index(node)


def find_spec(eng, fr, node):
    if getattr(node, 'pyvc_spec', None) is not None:
        return node.pyvc_spec     # synthesized loop (comprehension executed as a loop) carrying its own invariant
    fi = fr.fi
    if fi is None:
        return None, None, None
    k = loop_ordinal(fi, node)
    reg = eng.reg
    con = reg.contracts.get(fi.qualname)
    cur = getattr(reg, 'current', None)
    if cur is not None and cur.target == fi.qualname:
        con = cur      # several facets for one function: the loop clauses of the facet under verification, not the primary's
    if con is None or k not in con.loops:
        con = reg.loop_contracts.get(fi.qualname) if hasattr(reg, 'loop_contracts') else None
    if con is None or k not in con.loops:
        return None, k, None
    return con.loops[k], k, con


def assigned_names(stmts):
    out = set()
    for s in stmts:
        for n in ast.walk(s):
            if isinstance(n, ast.Name) and isinstance(n.ctx, ast.Store):
                out.add(n.id)
    return out


def declared_local_type(eng, con, fr, nme):
    """type given to a local of the function by the `types` attribute of its (loop) contract"""
    t = (con.types or {}).get(nme) if con is not None else None
    if t is None:
        return None
    return eng.ts.ann_to_type(ast.parse(t, mode='eval').body, fr.module, fr.defcls)


def prepare_locals(eng, fr, con, body):
    """literal lists bound to locals and used inside the loop body become heap lists before the loop is abstracted
    (a literal list mutated by an arbitrary iteration would otherwise keep its entry value at loop exit)"""
    used = {n.id for st in body for n in ast.walk(st) if isinstance(n, ast.Name)}
    for nme in sorted(used):
        v = fr.vars.get(nme)
        if isinstance(v, ConstSeq) and v.kind == 'list':
            if sum(1 for x in fr.vars.values() if x is v) > 1:
                raise Unsupported(f'literal list {nme!r} used in a loop is bound to several locals')
            ty = declared_local_type(eng, con, fr, nme)
            if ty is None and v.items:
                ty = eng.value_type(v)
            if ty is None or not isinstance(ty, TList) or ty.t == ANY:
                raise Unsupported(f'loop uses the literal list {nme!r}: declare its type in types= of the contract so '
                                  f'that it lives in the heap')
            fr.vars[nme] = eng.materialize(v, ty)


def havoc_locals(eng, fr, names, con=None):
    for nme in sorted(names):
        if nme in fr.vars:
            v = fr.vars[nme]
            try:
                ty = eng.value_type(v)
            except Unsupported:
                continue
            if isinstance(v, SetV) and v.ety == ANY:
                raise Unsupported(f'loop modifies the set {nme!r} whose element type is unknown: annotate it')
            if isinstance(v, ConstSeq):
                raise Unsupported(f'loop modifies the literal list {nme!r}: annotate it so that it lives in the heap')
            if ty == NONE:
                # None at loop entry, assigned by the body: its value at the head of an arbitrary iteration is only
                # known through the declared type (types= of the contract)
                ty = declared_local_type(eng, con, fr, nme)
                if ty is None:
                    raise Unsupported(f'loop assigns the local {nme!r}, which is None at loop entry: declare its type in '
                                      f'types= of the contract')
            fr.vars[nme] = eng.fresh_value('lv_' + nme, ty)


def _bind(eng, fr, extra):
    b = dict(fr.vars)
    b['old'] = OldNS(eng.entry_vars, eng.old_heap) if eng.old_heap is not None else None
    b.update(extra)
    return b


def _clause(eng, con, clause, fr, extra):
    b = _bind(eng, fr, extra)
    names = [a.arg for a in clause.args.args]
    for n in names:
        if n not in b:
            raise Unsupported(f'loop clause {clause.name}: {n!r} is not a local of the function at this point')
    return eng.eval_clause(clause, con.module, b)


class LoopEffects:
    """marker in the ghost effect log: 'the iterations of a loop (other than the one being executed) emitted this
    effect an unknown number of times' - `some` is an unconstrained Bool (whether at least one was emitted)"""

    def __init__(self, some):
        self.some = some

    def __iter__(self):
        raise Unsupported('arguments of an effect emitted inside a loop over a symbolic collection')


def declared_effects(con, k_ord):
    return tuple(con.attrs.get(f'loop{k_ord}_effects', ())) if con is not None else ()


def mark_loop_effects(eng, con, k_ord):
    """after the loop havoc: the other iterations may have emitted the effects declared in loop<K>_effects"""
    for nme in declared_effects(con, k_ord):
        eng.effects.append((nme, LoopEffects(eng.run.fresh('loopfx', B))))


def check_loop_effects(eng, con, k_ord, start, tag, line):
    """the body of the arbitrary iteration only emitted declared effects (obligation loop-effects:); a loop without
    loop<K>_effects declaration falls under the other discipline (_note_loop_effects: later effect queries unknown)"""
    if not declared_effects(con, k_ord):
        return
    extra = sorted({nme for nme, _ in eng.effects[start:]} - set(declared_effects(con, k_ord)))
    if extra:
        eng.run.oblige(f'loop-effects:{tag}', 'inv', False, line,
                       detail=f'loop body emits {extra}: declare them in loop{k_ord}_effects')


MUTATORS = ('append', 'extend', 'insert', 'remove', 'pop', 'clear', 'add', 'discard', 'update', 'sort', 'reverse',
            'setdefault', 'popitem')


def _body_mutates_iterable(s):
    """the loop body applies a mutating method (or del / subscript assignment) to the very expression the loop header
    iterates (`for c in self.jobs: ... self.jobs.remove(c)`): the only case in which the obligation
    safe:list-changed-while-iterated is generated - a write to a list that merely could alias the iterated one (or the
    frame of a modular callee) is the imprecision of a contract, not a change made by the loop"""
    if not isinstance(s.iter, (ast.Name, ast.Attribute, ast.Subscript)):
        return False
    target = ast.dump(s.iter)
    for st in s.body:
        for x in ast.walk(st):
            if (isinstance(x, ast.Call) and isinstance(x.func, ast.Attribute) and x.func.attr in MUTATORS
                    and ast.dump(x.func.value) == target):
                return True
            if isinstance(x, (ast.Delete, ast.Assign, ast.AugAssign)):
                tg = x.targets if isinstance(x, (ast.Delete, ast.Assign)) else [x.target]
                for t in tg:
                    if isinstance(t, ast.Subscript) and ast.dump(t.value).replace('Store()', 'Load()').replace('Del()', 'Load()') == target:
                        return True
    return False


def check_literal_mutation(eng, s, fr):
    """a literal list / dict local (kept as a python-level constant) that the loop body mutates would keep its entry
    value on the loop-exit path: refuse instead of being silently wrong"""
    for st in s.body:
        for x in ast.walk(st):
            nme = None
            if isinstance(x, ast.Call) and isinstance(x.func, ast.Attribute) and x.func.attr in MUTATORS \
                    and isinstance(x.func.value, ast.Name):
                nme = x.func.value.id
            elif isinstance(x, ast.Subscript) and isinstance(x.ctx, (ast.Store, ast.Del)) and isinstance(x.value, ast.Name):
                nme = x.value.id
            if nme is not None and isinstance(fr.vars.get(nme), (ConstSeq, ConstDict)):
                raise Unsupported(f'loop at line {s.lineno} mutates the literal collection {nme!r} (python-level constant): '
                                  f'give the enclosing function a contract / annotate the local so that it lives in the heap')
def _loop_mods(eng, con, spec, fr, ghost):
    """modifies items of loop<K>_modifies evaluated at loop entry (for and while loops); None = anything may change"""
    if 'modifies' not in spec:
        return None
    b = _bind(eng, fr, ghost)
    names = [a.arg for a in spec['modifies'].args.args]
    mfr = Frame(None, con.module, {x: b[x] for x in names}, None, None)
    saved = eng.mode
    eng.mode = SPEC
    try:
        try:
            eng.exec_block(spec['modifies'].body, mfr)
            return []
        except ReturnEx as r:
            return list(eng.iter_const(r.value))
    finally:
        eng.mode = saved


def _log_mark(eng):
    return {k: len(v) for k, v in eng.heap.log.items()}


def _body_frame(eng, mods, head_heap, mark, tag, line):
    """the writes of one arbitrary iteration stay inside loop<K>_modifies (or hit objects allocated by the iteration):
    obligation loop-frame, without which the havoc of exactly that set at the loop head would not be justified"""
    if mods is None:
        return
    allowed = eng.allowed_fn(mods)
    alloc0 = head_heap.get('alloc', arr(Ref, B))
    for name in sorted(eng.heap.log):
        events = eng.heap.log[name][mark.get(name, 0):]
        if name == 'alloc' or not events:
            continue
        a = allowed(name)
        if a == 'all':
            continue
        new, old = eng.heap.get(name), head_heap.get(name, eng.heap.sorts[name])
        claims, general, seen = [], False, set()
        for evn in events:
            ws = [evn[1]] if evn[0] == 'store' else (evn[1].refs if evn[0] == 'havoc' and evn[1] != 'all' and not evn[1].preds else None)
            if ws is None:
                general = True
                break
            for w in ws:
                if w.get_id() not in seen:
                    seen.add(w.get_id())
                    claims.append(z3.Or(z3.Not(alloc0[w]), a(w) if a is not None else z3.BoolVal(False), new[w] == old[w]))
        if general:
            r = z3.Const('r!fr', Ref)
            cond = alloc0[r] if a is None else z3.And(alloc0[r], z3.Not(a(r)))
            claims = [z3.ForAll([r], z3.Implies(cond, new[r] == old[r]))]
        if claims:
            eng.run.oblige(f'loop-frame:{name}/{tag}', 'frame', z3.And(claims) if len(claims) > 1 else claims[0], line)


def _note_loop_effects(eng, tag, n_eff, declared=()):
    if declared:
        return
    if len(eng.effects) > n_eff:
        if not hasattr(eng.run, 'loop_emits'):
            eng.run.loop_emits = {}
        eng.run.loop_emits.setdefault(tag, set()).update(nme for nme, _ in eng.effects[n_eff:])


def _record_loop_effects(eng, loop_key, eff_mark):
    """(kept for callers) names of the effects one arbitrary iteration emitted: see _note_loop_effects"""


def note_effect_query(eng, names):
    """(kept for callers) effect predicates after loops are handled by bi_no_effect / _effects_known"""


def check_effect_queries(runner):
    return None


def symbolic_for(eng, s, fr, it):
    spec, k_ord, con = find_spec(eng, fr, s)
    if spec is None or 'inv' not in spec:
        raise Unsupported(f'for-loop #{k_ord} over a symbolic collection at line {s.lineno} of {fr.fi.qualname if fr.fi else "?"} '
                          f'needs an invariant (loop{k_ord}_inv)')
    if eng.mode != EXEC:
        raise Unsupported('loop outside exec mode')
    check_literal_mutation(eng, s, fr)
    tag = f'loop{k_ord}/{eng.cur_fn}'
    loop_key = f'loop{k_ord}@{fr.fi.qualname}'
    prepare_locals(eng, fr, con, s.body)
    entry_heap = eng.heap.snapshot()
    entry_vars = dict(fr.vars)
    loop_old = OldNS(entry_vars, entry_heap)
    is_list = isinstance(it, (ListV, ZipV))
    if isinstance(it, DictV):
        it = ValuesView(it, 'keys')
    if is_list and (isinstance(s.iter, ast.ListComp) or (isinstance(s.iter, ast.Call) and isinstance(s.iter.func, ast.Name)
                                                          and s.iter.func.id in ('list', 'sorted', 'sum'))):
        # the iterated list is an anonymous temporary built by the loop header: nothing else can reference it, so it is
        # read in the heap of the loop entry whatever the body (or the callees it calls) writes
        it = eng.pin(it, entry_heap)
    if is_list:
        n = eng.seq_len_term(it)
        ghost0 = {'k': 0, 'loop_old': loop_old, 'seq': it, 'loop_items': it}
    else:
        ety = eng.elem_type(it) if not (isinstance(it, ValuesView) and it.what == 'items') else it.d.kty
        so = sort_of(it.d.kty if isinstance(it, ValuesView) else ety)
        keyty = it.d.kty if isinstance(it, ValuesView) else ety
        ghost0 = {'seen': SymSet(z3.K(so, z3.BoolVal(False)), keyty), 'loop_old': loop_old}
    # 1. initiation
    eng.run.oblige(f'loop-init:{tag}', 'inv', _clause(eng, con, spec['inv'], fr, ghost0), s.lineno)
    # 2. arbitrary iteration: havoc what the body may change
    mods = _loop_mods(eng, con, spec, fr, ghost0)
    eng.heap.havoc(eng.allowed_fn(mods))
    head_heap, mark = eng.heap.snapshot(), _log_mark(eng)
    havoc_locals(eng, fr, assigned_names(s.body) | assigned_names([s.target]), con)
    mark_loop_effects(eng, con, k_ord)
    fx_start = len(eng.effects)
    if is_list:
        k = eng.run.fresh('k', I)
        eng.run.assume(z3.And(0 <= k, k <= n))
        ghost = {'k': SV(k, INT), 'loop_old': loop_old, 'seq': it, 'loop_items': it}
        eng.run.assume(_clause(eng, con, spec['inv'], fr, ghost))
        more = k < n
    else:
        coll_chi = eng.set_chi(it if not isinstance(it, ValuesView) else it.d)
        # the collection iterated is the one at loop entry
        if isinstance(it, (SetV, DictV)) or isinstance(it, ValuesView):
            base = it.d if isinstance(it, ValuesView) else it
            pinned = eng.pin(base, entry_heap)
            coll_chi = eng.set_chi(pinned)
        seen = eng.run.fresh('seen', arr(so, B))
        x = z3.Const('x!loop', so)
        eng.run.assume(z3.ForAll([x], z3.Implies(seen[x], coll_chi[x])))
        ghost = {'seen': SymSet(seen, keyty), 'loop_old': loop_old}
        eng.run.assume(_clause(eng, con, spec['inv'], fr, ghost))
        more = z3.Exists([x], z3.And(coll_chi[x], z3.Not(seen[x])))
    if eng.run.decide(more):
        if is_list:
            elem = eng.pin(eng.seq_get(it, k), None)     # the element itself lives in the current heap
            ghost_next = {'k': SV(k + 1, INT), 'loop_old': loop_old, 'seq': it, 'loop_items': it}
        else:
            e = eng.run.fresh('elem', so)
            eng.run.assume(z3.And(coll_chi[e], z3.Not(seen[e])))
            kv = eng.wrap(e, keyty)
            if isinstance(it, ValuesView) and it.what in ('values', 'items'):
                d = eng.pin(it.d, entry_heap)
                vv = eng.assume_domain(eng.wrap(eng.dict_val(d)[1][d.ref][e], d.vty))
                elem = vv if it.what == 'values' else (kv, vv)
            else:
                elem = kv
            ghost_next = {'seen': SymSet(z3.Store(seen, e, True), keyty), 'loop_old': loop_old}
        eng.bind_target(s.target, elem, fr, s.lineno)
        # per-iteration clause loop<K>_iter: proved at the end of one arbitrary iteration started under the invariant;
        # iter_old = locals/heap at the start of that iteration, effect vocabulary relative to that iteration
        iter_old = OldNS(dict(fr.vars), eng.heap.snapshot())
        iter_mark = _log_mark(eng)
        n_eff = len(eng.effects)
        eff_mark = n_eff
        try:
            try:
                eng.exec_block(s.body, fr)
            finally:
                check_loop_effects(eng, con, k_ord, fx_start, tag, s.lineno)
        except BreakEx:
            _note_loop_effects(eng, tag, n_eff, declared_effects(con, k_ord))
            return     # leaves the loop from an arbitrary iteration satisfying the invariant
        except ContinueEx:
            pass
        _note_loop_effects(eng, tag, n_eff, declared_effects(con, k_ord))
        # the loop rule reads the iterated list as a fixed sequence; Python iterates by index over the LIVE list: an
        # iteration that changes the list it iterates (and goes on iterating) skips or repeats elements, so every "for
        # each element" clause would be about another loop.  Proved here, quantifier-free: at the end of an iteration
        # that continues, the iterated heap list is the one the iteration started with (a copy made by the header -
        # list(x), sorted(x), x + y - is a temporary nobody else references and is not concerned)
        if is_list and isinstance(it, ListV) and it.heap is None and _body_mutates_iterable(s):
            same = []
            for nme in sorted(eng.heap.sorts):
                if nme == 'L.len' or nme.startswith('L.data:'):
                    # only for the writes this iteration made itself (stores of the body and of inlined callees): the
                    # havoc of a modular callee's frame is the imprecision of a contract, not a change made by the loop
                    evs = eng.heap.log.get(nme, [])[iter_mark.get(nme, 0):]
                    ws, seen_w = [], set()
                    for e in evs:
                        if e[0] == 'store' and e[1].get_id() not in seen_w:
                            seen_w.add(e[1].get_id())
                            ws.append(e[1])
                    if ws:
                        new_a, old_a = eng.heap.get(nme), iter_old.heap.get(nme, eng.heap.sorts[nme])
                        same.append(z3.Implies(z3.Or([w == it.ref for w in ws]), new_a[it.ref] == old_a[it.ref]))
            if same:
                eng.run.oblige(f'safe:list-changed-while-iterated@{eng.cur_fn}:{s.lineno}', 'safe',
                               z3.And(same) if len(same) > 1 else same[0], s.lineno,
                               detail='an iteration that goes on changes the list the loop iterates (Python iterates the live list '
                                      'by index: elements are skipped or repeated)')
        # per-iteration postconditions, effect predicates relative to the start of this iteration:
        #   loop<K>_iter        sees k = number of elements done INCLUDING this one (element = seq[k - 1])
        #   loop<K>_iter_<name> sees k = index of this element (element = loop_items[k])
        iter_clauses = [(spec[w], ghost_next if w == 'iter' else ghost) for w in sorted(spec) if w == 'iter' or w.startswith('iter_')]
        if iter_clauses:
            saved_base = eng.effects_base
            eng.effects_base = eng.effects[:n_eff]
            try:
                for cl, gh in iter_clauses:
                    it_ghost = dict(gh)
                    it_ghost['iter_old'] = iter_old
                    eng.run.oblige(f'loop-iter:{cl.name}/{tag}' if cl.name.split('_', 1)[1] != 'iter' else f'loop-iter:{tag}', 'inv',
                                   _clause(eng, con, cl, fr, it_ghost), s.lineno)
            finally:
                eng.effects_base = saved_base
        eng.run.oblige(f'loop-preserve:{tag}', 'inv', _clause(eng, con, spec['inv'], fr, ghost_next), s.lineno)
        _body_frame(eng, mods, head_heap, mark, tag, s.lineno)
        raise PathEnd()
    # 3. exit: invariant with everything processed.  The python-level effect log of this path does not contain what
    # the iterations emitted (the iteration paths of a loop are explored before its exit path: depth-first, `more`
    # branch first): later effect queries about these effect names are unknown / refused (see bi_no_effect)
    if tag in getattr(eng.run, 'loop_emits', {}):
        eng.effects_unknown = tag
        eng.effects_unknown_names = getattr(eng, 'effects_unknown_names', set()) | eng.run.loop_emits[tag]
    if not is_list:
        eng.run.assume(z3.ForAll([x], seen[x] == coll_chi[x]))
    # the loop variable keeps the last element (or its previous binding when the collection is empty)
    if isinstance(s.target, ast.Name):
        nonempty = (n > 0) if is_list else z3.Exists([x], coll_chi[x])
        if eng.run.decide(nonempty):
            if is_list:
                last = eng.list_get(it, n - 1)
            else:
                e = eng.run.fresh('last', so)
                eng.run.assume(coll_chi[e])
                kv = eng.wrap(e, keyty)
                if isinstance(it, ValuesView) and it.what in ('values', 'items'):
                    d = eng.pin(it.d, entry_heap)
                    vv = eng.assume_domain(eng.wrap(eng.dict_val(d)[1][d.ref][e], d.vty))
                    last = vv if it.what == 'values' else (kv, vv)
                else:
                    last = kv
            fr.vars[s.target.id] = last
        elif s.target.id in entry_vars:
            fr.vars[s.target.id] = entry_vars[s.target.id]
        else:
            fr.vars.pop(s.target.id, None)
    eng.exec_block(s.orelse, fr)


def symbolic_while(eng, s, fr):
    spec, k_ord, con = find_spec(eng, fr, s)
    if spec is None or 'inv' not in spec:
        # no invariant: unroll while the condition is decided, bounded
        for _ in range(12):
            c = eng.truthy(eng.ev(s.test, fr))
            if not isinstance(c, bool):
                c = eng.run.decide(c)
            if not c:
                eng.exec_block(s.orelse, fr)
                return
            try:
                eng.exec_block(s.body, fr)
            except BreakEx:
                return
            except ContinueEx:
                continue
        raise Unsupported(f'while-loop #{k_ord} at line {s.lineno} needs an invariant (loop{k_ord}_inv): not finished after 12 '
                          f'unrollings')
    tag = f'loop{k_ord}/{eng.cur_fn}'
    prepare_locals(eng, fr, con, s.body)
    loop_old = OldNS(dict(fr.vars), eng.heap.snapshot())
    ghost = {'loop_old': loop_old}
    eng.run.oblige(f'loop-init:{tag}', 'inv', _clause(eng, con, spec['inv'], fr, ghost), s.lineno)
    mods = _loop_mods(eng, con, spec, fr, ghost)
    eng.heap.havoc(eng.allowed_fn(mods))
    head_heap, mark = eng.heap.snapshot(), _log_mark(eng)
    havoc_locals(eng, fr, assigned_names(s.body), con)
    mark_loop_effects(eng, con, k_ord)
    fx_start = len(eng.effects)
    eng.run.assume(_clause(eng, con, spec['inv'], fr, ghost))
    measure0 = None
    if 'decreases' in spec:
        measure0 = eng.eval_term(con, spec['decreases'], fr, ghost)
    c = eng.truthy(eng.ev(s.test, fr))
    if not isinstance(c, bool):
        c = eng.run.decide(c)
    loop_key = f'loop{k_ord}@{fr.fi.qualname}'
    if c:
        eff_mark = len(eng.effects)
        try:
            try:
                eng.exec_block(s.body, fr)
            finally:
                check_loop_effects(eng, con, k_ord, fx_start, tag, s.lineno)
        except BreakEx:
            _record_loop_effects(eng, loop_key, eff_mark)
            eng.loops_passed.append((loop_key, eff_mark))
            return
        except ContinueEx:
            pass
        _record_loop_effects(eng, loop_key, eff_mark)
        eng.run.oblige(f'loop-preserve:{tag}', 'inv', _clause(eng, con, spec['inv'], fr, ghost), s.lineno)
        if measure0 is not None:
            m1 = eng.eval_term(con, spec['decreases'], fr, ghost)
            eng.run.oblige(f'term:{tag}', 'term', z3.And(measure0 >= 0, m1 < measure0), s.lineno)
        _body_frame(eng, mods, head_heap, mark, tag, s.lineno)
        raise PathEnd()
    eng.loops_passed.append((loop_key, len(eng.effects)))
    eng.exec_block(s.orelse, fr)


COMP_NODES = (ast.ListComp, ast.SetComp, ast.DictComp, ast.GeneratorExp)


def comp_spec(eng, fr, node):
    """sidecar invariant `comp<K>_inv` of a comprehension (K = ordinal among the comprehensions of the function, source
    order) -> (spec, label, contract) or None"""
    fi = fr.fi
    if fi is None:
        return None
    con = eng.reg.contracts.get(fi.qualname)
    cur = getattr(eng.reg, 'current', None)
    if cur is not None and cur.target == fi.qualname:
        con = cur
    if con is None or not con.comps:
        con = eng.reg.loop_contracts.get(fi.qualname)
    if con is None or not con.comps:
        return None
    comps = [n for n in ast.walk(fi.node) if isinstance(n, COMP_NODES)]
    comps.sort(key=lambda n: (n.lineno, n.col_offset))
    if node not in comps:
        return None
    k = comps.index(node)
    if k not in con.comps or 'inv' not in con.comps[k]:
        return None
    return con.comps[k], f'comp{k}', con


def comp_as_loop(eng, n, fr, ps):
    """A set / list comprehension whose guard or element calls functions with effects cannot be summarised by a
    quantifier.  With a sidecar invariant it is executed as the loop it abbreviates:
        comp_acc = set() | []
        for <target> in comp_items: if <ifs>: comp_acc.add|append(<elt>)
    (same initiation / preservation / exit obligations as any loop; the invariant names the accumulator `comp_acc`,
    the iterated collection `comp_items` and the ghosts k / seen / loop_old)."""
    if eng.mode != EXEC:
        raise Unsupported('comprehension with invariant outside exec mode')
    if len(n.generators) != 1 or n.generators[0].is_async:
        raise Unsupported('comprehension with invariant: exactly one generator is supported')
    g = n.generators[0]
    coll = eng.ev(g.iter, fr)
    if eng.iter_const(coll) is not None:
        return None     # known length: the ordinary explicit evaluation forks as python would
    spec, label, con = ps
    decl = con.attrs.get(f'{label}_type')
    if decl is not None:
        # element type declared in the sidecar (comp<K>_type = 'Set[str]') when the element is a computed value
        ety = eng.ts.ann_to_type(ast.parse(decl, mode='eval').body, fr.module, fr.defcls)
    elif not (isinstance(n.elt, ast.Name) and isinstance(g.target, ast.Name) and n.elt.id == g.target.id):
        raise Unsupported(f'comprehension with invariant: declare the element type ({label}_type = \'...\') when the '
                          f'element is not the loop variable itself')
    elif isinstance(coll, ValuesView) and coll.what == 'values':
        ety = coll.d.vty
    elif isinstance(coll, ValuesView) and coll.what == 'items':
        raise Unsupported('comprehension with invariant over dict.items(): declare the element type')
    else:
        ety = eng.elem_type(coll)
    is_set = isinstance(n, ast.SetComp)
    sub = Frame(fr.fi, fr.module, dict(fr.vars), fr.selfv, fr.defcls)
    for name in ('comp_acc', 'comp_items'):
        if name in sub.vars:
            raise Unsupported(f'comprehension with invariant: the function already has a local named {name}')
    sub.vars['comp_acc'] = eng.new_set([], ety) if is_set else eng.new_list([], ety)
    sub.vars['comp_items'] = coll
    add = ast.Expr(ast.Call(func=ast.Attribute(value=ast.Name(id='comp_acc', ctx=ast.Load()),
                                               attr='add' if is_set else 'append', ctx=ast.Load()),
                            args=[n.elt], keywords=[]))
    if g.ifs:
        test = g.ifs[0] if len(g.ifs) == 1 else ast.BoolOp(op=ast.And(), values=list(g.ifs))
        body = [ast.If(test=test, body=[add], orelse=[])]
    else:
        body = [add]
    loop = ast.For(target=g.target, iter=ast.Name(id='comp_items', ctx=ast.Load()), body=body, orelse=[])
    ast.copy_location(loop, n)
    ast.fix_missing_locations(loop)
    loop.pyvc_spec = ps
    symbolic_for(eng, loop, sub, coll)
    return sub.vars['comp_acc']
