"""Bounded stand-in used ONLY when the engine cannot execute a function symbolically (code outside its subset, e.g.
after an edit): pre-states are *generated from the contract's precondition* with the finite-universe model search,
rebuilt as real objects, the REAL function is run on them and every postcondition is evaluated natively.
A failing input is a genuine, replayed violation; passing inputs prove nothing (labelled `bounded`, never counted as
discharged, the engine error stays an engine error)."""
import time
import z3
from .core import *


def _probe_terms(pc, limit=40):
    """ground select-applications / constants of Int, Bool, Str sort met in the path condition: used to diversify"""
    out, seen, stack = {}, set(), list(pc)
    while stack and len(out) < limit:
        t = stack.pop()
        i = t.get_id()
        if i in seen:
            continue
        seen.add(i)
        if z3.is_quantifier(t):
            continue
        if z3.is_app(t):
            k = t.decl().kind()
            if (k == z3.Z3_OP_SELECT or (t.num_args() == 0 and k == z3.Z3_OP_UNINTERPRETED)) and \
                    t.sort() in (z3.IntSort(), z3.BoolSort(), z3.RealSort(), Str):
                out[i] = t
            stack.extend(t.children())
    return list(out.values())


def generate(world, con, variant, fi, n_models=40, seconds=90):
    from .verify import Engine, _bindings
    from . import finite, concrete
    from .interp import Frame
    runner = PathRunner()
    runner.start_path([])
    eng = Engine(world.ct, world.ts, runner, world.reg)
    eng.cur_fn = con.target.split(':')[1]
    vars_ = _bindings(eng, fi, con, variant)
    for cl in con.pre:
        eng.run.assume(eng.eval_clause(cl, con.module, dict(vars_)))
    eng.run.assume(eng.str_axioms(), silent=True)
    eng.old_heap = eng.heap.snapshot()
    eng.entry_vars = dict(vars_)
    scenarios, blocks = [], []
    t0 = time.time()
    sizes = [(1, 4), (2, 6), (3, 8)]
    k = 0
    import os
    import random
    rnd = random.Random(int(os.environ.get('VERIF_SEED', '0')))
    terms0 = _probe_terms(runner.pc, 60)
    nums = [t for t in terms0 if t.sort() in (z3.IntSort(), z3.RealSort())]
    conts = [v for v in vars_.values() if isinstance(v, (DictV, ListV, SetV))]

    def at_least(v, n, tag):
        """the container parameter holds at least n (distinct) elements / keys"""
        if n == 0:
            return z3.BoolVal(True)
        if isinstance(v, ListV):
            return eng.list_len(v) >= n
        chi = (eng.dict_has(v)[1] if isinstance(v, DictV) else eng.set_chi(v))
        chi = chi[v.ref] if isinstance(v, DictV) else chi
        ks = [z3.Const(f'gen!{tag}!{i}', chi.sort().domain()) for i in range(n)]
        cs = [chi[x] for x in ks] + ([z3.Distinct(*ks)] if n > 1 else [])
        if chi.sort().domain() == Str:
            cs += [x != STR_NONE for x in ks]
        if isinstance(v, DictV) and v.vty in (INT, REAL):
            # numeric values: positive and pairwise different (all-zero entries hide every accounting mistake)
            val = eng.dict_val(v)[1][v.ref]
            cs += [val[x] == 10 * (i + 1) for i, x in enumerate(ks)]
        return z3.And(cs)

    while len(scenarios) < n_models and time.time() - t0 < seconds and k < 3 * n_models:
        es, er = sizes[k % len(sizes)]
        k += 1
        goal = z3.And(blocks) if blocks else z3.BoolVal(True)
        # container parameters are asked to hold 0, 1, 2, 3 elements in turn (the unconstrained models are all empty)
        for ci, v in enumerate(conts):
            try:
                goal = z3.And(goal, at_least(v, (k + ci) % 4, f'{k}_{ci}'))
            except Exception:
                pass
        want = max([(k + ci) % 4 for ci in range(len(conts))] or [0])
        if want:
            # every element drags its objects along (an identifier known to the mapper = an entry, an id object, a view)
            es, er = es + want, er + 5 * want
        # boundary bias: half of the models are asked to make two numeric terms of the pre-state equal, a quarter to make
        # two integer terms (collection sizes, loads, counters) at least 2 (several elements in a container, several
        # entries hitting one key) and two string / reference probes equal (entries that collide)
        if k % 4 in (1, 2) and len(nums) >= 2:
            a, b = rnd.sample(nums, 2)
            if a.sort() == b.sort():
                goal = z3.And(goal, a == b)
        elif k % 4 == 3:
            ints = [t for t in nums if t.sort() == z3.IntSort()]
            for a in rnd.sample(ints, min(2, len(ints))):
                goal = z3.And(goal, a >= 2)
            strs = [t for t in terms0 if t.sort() == Str]
            if len(strs) >= 2:
                a, b = rnd.sample(strs, 2)
                goal = z3.And(goal, a == b)
        r, m, _ = finite.refute(runner.pc, goal, es, er, 4000 if not want else 8000, runner.str_consts)
        if r != z3.sat:
            continue
        try:
            scenarios.append(concrete.extract_scenario(eng, m, vars_))
        except Exception:
            pass
        terms = _probe_terms(runner.pc)
        if not terms:
            break
        try:
            blocks.append(z3.Not(z3.And([t == m.eval(t, model_completion=True) for t in terms])))
        except z3.Z3Exception:
            break
    return scenarios


def _export_head():
    """the committed version of the package (git HEAD of /repo) in a scratch directory, None when it cannot be had"""
    import subprocess
    import tempfile
    d = tempfile.mkdtemp(prefix='pyvc_ref_')
    try:
        p = subprocess.run('git -C /repo archive HEAD supvisors | tar -x -C ' + d, shell=True, capture_output=True, text=True,
                           timeout=120)
        if p.returncode != 0 or not __import__('os').path.isdir(__import__('os').path.join(d, 'supvisors')):
            raise RuntimeError(p.stderr[-200:])
        return d
    except Exception:
        import shutil
        shutil.rmtree(d, ignore_errors=True)
        return None


def run(world, con, variant, fi):
    """-> list of obligation-like dicts (kind 'bounded')"""
    import os
    from . import concrete
    out = []
    try:
        scenarios = generate(world, con, variant, fi)
    except Exception as e:
        return [], f'bounded fallback could not generate inputs: {type(e).__name__}: {e}'
    cfile = os.path.relpath(world.ct.modules[con.module].path, concrete.VERIF)
    fails = {}
    ran = 0
    doc = {'function': con.target, 'variant': variant, 'obligation': 'all:', 'scenarios': scenarios, 'contract_file': cfile,
           'contract_class': con.name, 'raises': list(con.raises)}
    reps = concrete.run_subprocess(doc)
    for scn, rep in zip(scenarios, reps if isinstance(reps, list) else []):
        if rep.get('reproduced') is None and not rep.get('failed'):
            continue
        ran += 1
        for name in rep.get('failed', []):
            fails.setdefault(name, (scn, rep))
    # Generated pre-states may be junk the precondition does not exclude (a None key in a Dict[str, int], ...): a failing
    # input only counts when the COMMITTED version of the repository (git HEAD of /repo, exported to a scratch directory
    # and removed) passes the same clause on the same input - a differential filter.  When the working tree is the
    # committed tree the filter lets nothing through: the fallback then finds nothing, it never raises a false alarm.
    if fails:
        ref_dir = _export_head()
        try:
            if ref_dir is None:
                fails = {}
            else:
                for name in list(fails):
                    scn, rep = fails[name]
                    ref = concrete.run_subprocess(dict(doc, scenarios=[scn]), repo=ref_dir)
                    ref0 = ref[0] if isinstance(ref, list) and ref else {}
                    if ref0.get('reproduced') is None and not ref0.get('failed') or name in ref0.get('failed', []):
                        del fails[name]      # the reference fails too (junk input) or could not be run: not counted
        finally:
            if ref_dir:
                import shutil
                shutil.rmtree(ref_dir, ignore_errors=True)
    fn = con.target.split(':')[1]
    for name, (scn, rep) in fails.items():
        o = Obligation(f'bounded:{name}/{fn}', 'bounded', 'refuted', 0.0, f'native run on {ran} inputs generated from the precondition',
                       detail=rep.get('detail', ''), model=scn)
        out.append(o)
    return out, f'bounded fallback: {ran} generated pre-states executed natively on the real function, {len(fails)} failing clause(s)'
