"""Bounded stand-in used ONLY when the engine cannot execute a function symbolically (code outside its subset, e.g.
after an edit): pre-states are *generated from the contract's precondition* with the finite-universe model search,
rebuilt as real objects, the REAL function is run on them and every postcondition is evaluated natively.
A failing input is a genuine, replayed violation; passing inputs prove nothing (labelled `bounded`, never counted as
discharged, the engine error stays an engine error)."""
import time
import z3
from .core import *


def _probe_terms(pc, limit=40):
    """ground select-applications / constants of Int, Bool, Str sort met in the path condition: used to diversify"""
    out, seen, stack = {}, set(), list(pc)
    while stack and len(out) < limit:
        t = stack.pop()
        i = t.get_id()
        if i in seen:
            continue
        seen.add(i)
        if z3.is_quantifier(t):
            continue
        if z3.is_app(t):
            k = t.decl().kind()
            if (k == z3.Z3_OP_SELECT or (t.num_args() == 0 and k == z3.Z3_OP_UNINTERPRETED)) and \
                    t.sort() in (z3.IntSort(), z3.BoolSort(), z3.RealSort(), Str):
                out[i] = t
            stack.extend(t.children())
    return list(out.values())


def generate(world, con, variant, fi, n_models=40, seconds=90):
    from .verify import Engine, _bindings
    from . import finite, concrete
    from .interp import Frame
    runner = PathRunner()
    runner.start_path([])
    eng = Engine(world.ct, world.ts, runner, world.reg)
    eng.cur_fn = con.target.split(':')[1]
    vars_ = _bindings(eng, fi, con, variant)
    for cl in con.pre:
        eng.run.assume(eng.eval_clause(cl, con.module, dict(vars_)))
    eng.run.assume(eng.str_axioms(), silent=True)
    eng.old_heap = eng.heap.snapshot()
    eng.entry_vars = dict(vars_)
    scenarios, blocks = [], []
    t0 = time.time()
    sizes = [(1, 4), (2, 6), (3, 8)]
    k = 0
    import os
    import random
    rnd = random.Random(int(os.environ.get('VERIF_SEED', '0')))
    terms0 = _probe_terms(runner.pc, 60)
    nums = [t for t in terms0 if t.sort() in (z3.IntSort(), z3.RealSort())]
    while len(scenarios) < n_models and time.time() - t0 < seconds and k < 3 * n_models:
        es, er = sizes[k % len(sizes)]
        k += 1
        goal = z3.And(blocks) if blocks else z3.BoolVal(True)
        # boundary bias: two out of three models are asked to make two numeric terms of the pre-state equal
        if k % 3 and len(nums) >= 2:
            a, b = rnd.sample(nums, 2)
            if a.sort() == b.sort():
                goal = z3.And(goal, a == b)
        r, m, _ = finite.refute(runner.pc, goal, es, er, 4000, runner.str_consts)
        if r != z3.sat:
            continue
        try:
            scenarios.append(concrete.extract_scenario(eng, m, vars_))
        except Exception:
            pass
        terms = _probe_terms(runner.pc)
        if not terms:
            break
        try:
            blocks.append(z3.Not(z3.And([t == m.eval(t, model_completion=True) for t in terms])))
        except z3.Z3Exception:
            break
    return scenarios


def run(world, con, variant, fi):
    """-> list of obligation-like dicts (kind 'bounded')"""
    import os
    from . import concrete
    out = []
    try:
        scenarios = generate(world, con, variant, fi)
    except Exception as e:
        return [], f'bounded fallback could not generate inputs: {type(e).__name__}: {e}'
    cfile = os.path.relpath(world.ct.modules[con.module].path, concrete.VERIF)
    fails = {}
    ran = 0
    doc = {'function': con.target, 'variant': variant, 'obligation': 'all:', 'scenarios': scenarios, 'contract_file': cfile,
           'contract_class': con.name, 'raises': list(con.raises)}
    reps = concrete.run_subprocess(doc)
    for scn, rep in zip(scenarios, reps if isinstance(reps, list) else []):
        if rep.get('reproduced') is None and not rep.get('failed'):
            continue
        ran += 1
        for name in rep.get('failed', []):
            fails.setdefault(name, (scn, rep))
    fn = con.target.split(':')[1]
    for name, (scn, rep) in fails.items():
        o = Obligation(f'bounded:{name}/{fn}', 'bounded', 'refuted', 0.0, f'native run on {ran} inputs generated from the precondition',
                       detail=rep.get('detail', ''), model=scn)
        out.append(o)
    return out, f'bounded fallback: {ran} generated pre-states executed natively on the real function, {len(fails)} failing clause(s)'
