"""Structural obligations of C02 (and of the C08 / C09 clauses that lean on them), recomputed from the AST of the
current /repo tree on every run:
  1. single writer of the local FSM state (scan of every assignment to an attribute named `state` in the package);
  2. FiniteStateMachine._Transitions is inside the documented graph G, FINAL is terminal, every state has a row;
  3. _StateInstances is the bijection the contracts use (own_state / STATE_CLASSES of contracts/c02.py);
  4. every state class resolves next / enter / exit to a method that is under contract (so that the base contracts used
     for `self.instance.<m>()` in set_state are refined by verified overrides);
  5. set_state is only called by FiniteStateMachine.next / on_restart / on_shutdown;
  6. the report fields of the state objects (lost_instances / lost_processes) are only assigned by
     _SupvisorsBaseState.__init__ / _check_instances (no setattr with a computed name is accepted by 1.): justifies that
     the frames of the call-outs (contracts/c02.py VIEW_PROT) protect them.
"""
import ast
from .props import obligation

S = ('OFF', 'SYNCHRONIZATION', 'ELECTION', 'DISTRIBUTION', 'OPERATION', 'CONCILIATION', 'RESTARTING', 'SHUTTING_DOWN',
     'FINAL')


def documented_graph():
    """transcribed from the statement of C02: 'OFF, SYNCHRONIZATION, ELECTION, DISTRIBUTION, OPERATION and CONCILIATION
    with their documented returns to OFF, SYNCHRONIZATION and ELECTION, and the exits RESTARTING / SHUTTING_DOWN leading
    only to FINAL, which is terminal' (exits from the states that have a Master election behind them)"""
    six = S[:6]
    g = {(six[i], six[i + 1]) for i in range(5)} | {('CONCILIATION', 'OPERATION')}
    for i, s in enumerate(six):
        for back in ('OFF', 'SYNCHRONIZATION', 'ELECTION'):
            if six.index(back) < i:
                g.add((s, back))
    for s in ('ELECTION', 'DISTRIBUTION', 'OPERATION', 'CONCILIATION'):
        g |= {(s, 'RESTARTING'), (s, 'SHUTTING_DOWN')}
    g |= {('RESTARTING', 'FINAL'), ('SHUTTING_DOWN', 'FINAL')}
    return g


def _member(node):
    if isinstance(node, ast.Attribute) and isinstance(node.value, ast.Name) and node.value.id == 'SupvisorsStates':
        return node.attr
    return None


def _class_table(world, name):
    ci = world.ct.classes['FiniteStateMachine']
    node = ci.class_assigns.get(name)
    if node is None and name in ci.class_ann:
        node = ci.class_ann[name][1]
    return node


def _enclosing(mod):
    """map id(node) -> (class name or None, function name or None)"""
    out = {}

    def walk(node, cls, fn):
        for ch in ast.iter_child_nodes(node):
            c, f = cls, fn
            if isinstance(ch, ast.ClassDef):
                c, f = ch.name, None
            elif isinstance(ch, (ast.FunctionDef, ast.AsyncFunctionDef)):
                f = ch.name if fn is None else fn
            out[id(ch)] = (c, f)
            walk(ch, c, f)
    walk(mod.tree, None, None)
    return out


# receivers whose `state` attribute is another class's property (SupvisorsInstanceStatus.state, ProcessStatus.state)
# (module, enclosing class, receiver text): SupvisorsInstanceStatus.state, ProcessStatus.state, ApplicationStatus.state and
# Supervisor's own subprocess objects.  Anything not listed here fails the obligation.
OTHER_STATE_OWNERS = {('process', 'ProcessStatus', 'self'), ('context', 'Context', 'status'),
                      ('context', 'Context', 'self.local_status'), ('context', 'Context', 'application'),
                      ('application', 'ApplicationStatus', 'self'), ('instancestatus', 'SupvisorsInstanceStatus', 'self'),
                      ('supervisordata', 'SupervisorData', 'process')}
# setattr() receivers that are rules objects / the Faults enumeration of Supervisor, never a StateModes
SETATTR_RECEIVERS = {('plugin', 'Faults'), ('sparser', 'rules')}


def run(world, tier, out):
    obls = out['obligations']
    ct = world.ct
    # ---------------------------------------------------------------- 1. single writer
    bad, sites = [], []
    for mname, mod in ct.modules.items():
        if getattr(mod, 'external', False) or mname.startswith('contracts'):
            continue
        enc = _enclosing(mod)
        for node in ast.walk(mod.tree):
            tgts = []
            if isinstance(node, ast.Assign):
                tgts = node.targets
            elif isinstance(node, (ast.AugAssign, ast.AnnAssign)):
                tgts = [node.target]
            elif isinstance(node, ast.Call) and isinstance(node.func, ast.Name) and node.func.id == 'setattr':
                a = node.args[1] if len(node.args) > 1 else None
                recv = ast.unparse(node.args[0]) if node.args else '?'
                if not (isinstance(a, ast.Constant) and a.value != 'state') and (mname, recv) not in SETATTR_RECEIVERS:
                    bad.append(f'{mname}:{node.lineno} setattr with a name that may be "state"')
                continue
            for t in tgts:
                for tt in (t.elts if isinstance(t, (ast.Tuple, ast.List)) else [t]):
                    if not (isinstance(tt, ast.Attribute) and tt.attr == 'state'):
                        continue
                    cls, fn = enc.get(id(node), (None, None))
                    recv = ast.unparse(tt.value)
                    where = f'{mname}:{cls}.{fn}:{node.lineno} `{recv}.state = ...`'
                    if recv.endswith('state_modes') and 'local_state_modes' not in recv and 'instance_state_modes' not in recv:
                        # goes through the SupvisorsStateModes.state setter
                        ok = (mname, cls, fn) == ('statemachine', 'FiniteStateMachine', 'set_state')
                    elif 'state_modes' in recv:
                        # direct write of a StateModes entry
                        ok = (mname, cls, fn) == ('statemodes', 'SupvisorsStateModes', 'state') and recv == 'self.local_state_modes'
                    elif (mname, cls) == ('statemodes', 'StateModes') and recv == 'self':
                        ok = fn in ('__init__', 'update')
                    else:
                        ok = (mname, cls, recv) in OTHER_STATE_OWNERS
                    sites.append(where)
                    if not ok:
                        bad.append(where)
    obls.append(obligation('struct:single-writer-of-fsm-state', not bad,
                           f'{len(sites)} assignments to an attribute `state` in the package; not whitelisted: {bad}'))
    # StateModes.update (the writer of remote entries) is only called by on_instance_state_event
    callers = []
    for mname, mod in ct.modules.items():
        if getattr(mod, 'external', False) or mname.startswith('contracts'):
            continue
        enc = _enclosing(mod)
        for node in ast.walk(mod.tree):
            if isinstance(node, ast.Call) and isinstance(node.func, ast.Attribute) and node.func.attr == 'update' \
                    and 'state_modes' in ast.unparse(node.func.value):
                callers.append((mname,) + enc.get(id(node), (None, None)))
    obls.append(obligation('struct:remote-entries-written-only-on-state-event',
                           callers == [('statemodes', 'SupvisorsStateModes', 'on_instance_state_event')], f'callers: {callers}'))
    # ---------------------------------------------------------------- 2. table inside the documented graph
    tnode = _class_table(world, '_Transitions')
    table, malformed = {}, []
    if isinstance(tnode, ast.Dict):
        for k, v in zip(tnode.keys, tnode.values):
            km = _member(k)
            if km is None or not isinstance(v, ast.List) or any(_member(e) is None for e in v.elts):
                malformed.append(ast.unparse(k) if k is not None else '**')
                continue
            table[km] = [_member(e) for e in v.elts]
    else:
        malformed.append('_Transitions is not a dict literal')
    obls.append(obligation('struct:transitions-table-literal', not malformed, f'malformed rows: {malformed}'))
    g = documented_graph()
    outside = [(a, b) for a, row in table.items() for b in row if (a, b) not in g]
    obls.append(obligation('struct:transitions-inside-documented-graph', not outside and not malformed,
                           f'transitions of the table that the documented graph does not have: {outside}'))
    obls.append(obligation('struct:final-is-terminal', table.get('FINAL') == [], f"_Transitions[FINAL] = {table.get('FINAL')}"))
    obls.append(obligation('struct:every-state-has-a-row', sorted(table) == sorted(S), f'rows: {sorted(table)}'))
    obls.append(obligation('struct:no-self-loop-in-table', all(a not in row for a, row in table.items()), ''))
    obls.append(obligation('struct:ending-states-lead-only-to-final',
                           table.get('RESTARTING') == ['FINAL'] and table.get('SHUTTING_DOWN') == ['FINAL'], ''))
    # ---------------------------------------------------------------- 3. state classes
    inode = _class_table(world, '_StateInstances')
    inst = {}
    if isinstance(inode, ast.Dict):
        for k, v in zip(inode.keys, inode.values):
            if _member(k) and isinstance(v, ast.Name):
                inst[_member(k)] = v.id
    expected = dict(zip(S, ('OffState', 'SynchronizationState', 'ElectionState', 'DistributionState', 'OperationState',
                            'ConciliationState', 'RestartingState', 'ShuttingDownState', 'FinalState')))
    obls.append(obligation('struct:state-instances-bijection', inst == expected, f'_StateInstances = {inst}'))
    # ---------------------------------------------------------------- 4. overrides under contract
    missing = []
    for cname in expected.values():
        if cname not in ct.classes:
            missing.append(cname)
            continue
        for m in ('next', 'enter', 'exit'):
            fi = ct.find_method(cname, m)
            con = world.reg.contracts.get(fi.qualname) if fi else None
            if con is None or con.assumed or (con.variants and cname not in con.variants) \
                    or (not con.variants and fi.cls != cname and len([c for c in expected.values()
                                                                        if ct.find_method(c, m) is fi]) > 1):
                missing.append(f'{cname}.{m} -> {fi.qualname if fi else None}')
    obls.append(obligation('struct:state-class-methods-under-contract', not missing, f'not covered: {missing}'))
    # ---------------------------------------------------------------- 5. callers of set_state
    callers = []
    for mname, mod in ct.modules.items():
        if getattr(mod, 'external', False) or mname.startswith('contracts'):
            continue
        enc = _enclosing(mod)
        for node in ast.walk(mod.tree):
            if isinstance(node, ast.Call) and isinstance(node.func, ast.Attribute) and node.func.attr == 'set_state':
                callers.append((mname,) + enc.get(id(node), (None, None)))
    ok = sorted(set(callers)) == [('statemachine', 'FiniteStateMachine', 'next'), ('statemachine', 'FiniteStateMachine', 'on_restart'),
                                  ('statemachine', 'FiniteStateMachine', 'on_shutdown')]
    obls.append(obligation('struct:callers-of-set_state', ok, f'callers: {sorted(set(callers))}'))
    # ---------------------------------------------------------------- 6. writers of the lost_instances / lost_processes report
    bad, sites = [], []
    for mname, mod in ct.modules.items():
        if getattr(mod, 'external', False) or mname.startswith('contracts'):
            continue
        enc = _enclosing(mod)
        for node in ast.walk(mod.tree):
            tgts = []
            if isinstance(node, ast.Assign):
                tgts = node.targets
            elif isinstance(node, (ast.AugAssign, ast.AnnAssign)):
                tgts = [node.target]
            elif isinstance(node, ast.Delete):
                tgts = node.targets
            for t in tgts:
                for tt in (t.elts if isinstance(t, (ast.Tuple, ast.List)) else [t]):
                    if isinstance(tt, ast.Attribute) and tt.attr in ('lost_instances', 'lost_processes'):
                        cls, fn = enc.get(id(node), (None, None))
                        where = f'{mname}:{cls}.{fn}:{node.lineno} `{ast.unparse(tt)} = ...`'
                        sites.append(where)
                        if not ((mname, cls) == ('statemachine', '_SupvisorsBaseState') and fn in ('__init__', '_check_instances')
                                and ast.unparse(tt.value) == 'self'):
                            bad.append(where)
    obls.append(obligation('struct:writers-of-lost-report', not bad and len(sites) >= 2,
                           f'{len(sites)} assignments to lost_instances / lost_processes; not whitelisted: {bad}'))
    out['structural'].append({'documented_graph': sorted(g), 'table': table})
