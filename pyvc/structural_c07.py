"""Structural obligations of C07 (AST scans of the current /repo tree, no solver): single writer of the instance state,
transition table = documented graph, where each target state may be assigned, and the call chain that makes the
detection run on every local tick (on_tick -> on_local_tick_event -> fsm.on_timer_event -> context.on_timer_event ->
fsm.next -> state.next -> _check_instances -> invalidate_failed)."""
import ast
from .props import obligation

# statement: 'The state reported for a peer only changes along STOPPED, CHECKING, CHECKED, RUNNING, FAILED and back to
# STOPPED or to ISOLATED as documented; ... ISOLATED is final'
DOCUMENTED_GRAPH = {
    'STOPPED': {'CHECKING'},
    'CHECKING': {'STOPPED', 'CHECKED', 'FAILED', 'ISOLATED'},
    'CHECKED': {'RUNNING', 'FAILED'},
    'RUNNING': {'FAILED'},
    'FAILED': {'STOPPED', 'ISOLATED'},
    'ISOLATED': set(),
}

# where a target state of a Supvisors instance may be assigned (function -> targets); statement: a peer 'whose ticks
# keep arriving ... and whose XML-RPCs succeed is never declared FAILED, STOPPED or ISOLATED': FAILED only behind
# is_inactive() or an XML-RPC failure notification, STOPPED / ISOLATED only in invalidate (from FAILED or a refused
# handshake) and where the handshake XML-RPC failed.
STATE_WRITERS = {
    ('context', 'Context', 'activate_checked'): {'RUNNING'},
    ('context', 'Context', 'invalidate'): {'STOPPED', 'ISOLATED'},
    ('context', 'Context', 'load_processes'): {'STOPPED'},
    ('context', 'Context', 'on_authorization'): {'STOPPED', 'CHECKED'},
    ('context', 'Context', 'on_local_tick_event'): {'CHECKING'},
    ('context', 'Context', 'on_tick_event'): {'CHECKING'},
    ('context', 'Context', 'on_timer_event'): {'FAILED'},
    ('context', 'Context', 'on_instance_failure'): {'FAILED'},
}
# non-self stores to an attribute named _state that concern ProcessStatus objects (StarterModel copies, C19)
FOREIGN_STATE_STORES = {('commander', 'StarterModel'), ('commander', 'ProcessStartCommandModel')}
# setattr with a computed name: receivers are rules objects / the Faults enum holder, never an instance status
SETATTR_RECEIVERS = {'rules', 'Faults'}


def _functions(world):
    """(module, class or None, function name, FunctionDef) of every function of the repo modules"""
    for mname, mod in world.ct.modules.items():
        if getattr(mod, 'external', False) or mname.startswith('contracts'):
            continue
        for node in mod.tree.body:
            if isinstance(node, ast.FunctionDef):
                yield mname, None, node.name, node
            elif isinstance(node, ast.ClassDef):
                for item in node.body:
                    if isinstance(item, ast.FunctionDef):
                        yield mname, node.name, item.name, item


def _stores(fn):
    for n in ast.walk(fn):
        tgts = []
        if isinstance(n, ast.Assign):
            tgts = n.targets
        elif isinstance(n, (ast.AugAssign, ast.AnnAssign)):
            tgts = [n.target]
        for t in tgts:
            for tt in (t.elts if isinstance(t, (ast.Tuple, ast.List)) else [t]):
                if isinstance(tt, ast.Attribute):
                    yield tt, n


def _is_setter(fn):
    return any(isinstance(d, ast.Attribute) and d.attr == 'setter' for d in fn.decorator_list)


def _calls(fn):
    """dotted texts of the calls of a function, in source order"""
    out = []
    for n in ast.walk(fn):
        if isinstance(n, ast.Call):
            out.append((n.lineno, n.col_offset, ast.unparse(n.func)))
    return [c for _, _, c in sorted(out)]


def _method(world, module, cls, name):
    ci = world.ct.modules[module].classes.get(cls)
    if ci is None:
        return None
    for item in ci.node.body:
        if isinstance(item, ast.FunctionDef) and item.name == name and not _is_setter(item) \
                and not any(isinstance(d, ast.Name) and d.id == 'property' for d in item.decorator_list):
            return item
    return None


def run(world, tier, out):
    obs = out['obligations']
    # ------------------------------------------------------------------ 1. single writer of _state
    bad, writers = [], []
    for mname, cls, fname, fn in _functions(world):
        for tgt, stmt in _stores(fn):
            if tgt.attr != '_state':
                continue
            recv_self = isinstance(tgt.value, ast.Name) and tgt.value.id == 'self'
            if cls == 'SupvisorsInstanceStatus':
                ok = recv_self and (fname == '__init__' or (fname == 'state' and _is_setter(fn)))
                writers.append(f'{mname}:{cls}.{fname}@{stmt.lineno}')
                if not ok:
                    bad.append(f'{mname}:{cls}.{fname}@{stmt.lineno}')
            elif not recv_self and (mname, cls) not in FOREIGN_STATE_STORES:
                bad.append(f'{mname}:{cls}.{fname}@{stmt.lineno} (store through {ast.unparse(tgt.value)})')
        for n in ast.walk(fn):
            if isinstance(n, ast.Call) and isinstance(n.func, ast.Name) and n.func.id == 'setattr' and len(n.args) >= 2 \
                    and not (isinstance(n.args[1], ast.Constant) and n.args[1].value != '_state') \
                    and not (isinstance(n.args[0], ast.Name) and n.args[0].id in SETATTR_RECEIVERS):
                bad.append(f'{mname}:{cls}.{fname}@{n.lineno} setattr with a name that may be _state')
            if isinstance(n, ast.Attribute) and n.attr == '__dict__' and mname in ('instancestatus', 'context'):
                bad.append(f'{mname}:{cls}.{fname}@{n.lineno} __dict__ access')
    obs.append(obligation('struct:single-writer-of-instance-_state', not bad and len(writers) == 2,
                          f'writers of SupvisorsInstanceStatus._state: {writers}; offending: {bad}',
                          function='instancestatus:SupvisorsInstanceStatus.state[setter]'))
    # ------------------------------------------------------------------ 2. transition table = documented graph
    ci = world.ct.classes.get('SupvisorsInstanceStatus')
    table, detail = None, ''
    node = ci.class_assigns.get('_Transitions') if ci else None
    if isinstance(node, ast.Dict):
        table = {}
        try:
            for k, v in zip(node.keys, node.values):
                assert isinstance(k, ast.Attribute) and ast.unparse(k.value) == 'SupvisorsInstanceStates'
                assert isinstance(v, ast.Tuple)
                targets = set()
                for e in v.elts:
                    assert isinstance(e, ast.Attribute) and ast.unparse(e.value) == 'SupvisorsInstanceStates'
                    targets.add(e.attr)
                assert k.attr not in table
                table[k.attr] = targets
        except AssertionError:
            table, detail = None, 'table is not a literal dict of SupvisorsInstanceStates tuples'
    ok = table == DOCUMENTED_GRAPH
    if table is not None and not ok:
        detail = '; '.join(f'{s}: code {sorted(table.get(s, []))} / documented {sorted(DOCUMENTED_GRAPH.get(s, []))}'
                           for s in sorted(set(table) | set(DOCUMENTED_GRAPH)) if table.get(s) != DOCUMENTED_GRAPH.get(s))
    obs.append(obligation('struct:_Transitions-equals-documented-graph', ok, detail or 'identical, ISOLATED row empty',
                          function='instancestatus:SupvisorsInstanceStatus._Transitions'))
    members = world.ts.enum_info('SupvisorsInstanceStates')['members']
    names = {m[0] for m in members}
    obs.append(obligation('struct:instance-states-are-the-six-of-the-statement', names == set(DOCUMENTED_GRAPH),
                          f'enum members {sorted(names)}', function='ttypes:SupvisorsInstanceStates'))
    # ------------------------------------------------------------------ 3. where each target state is assigned
    found, bad = {}, []
    for mname, cls, fname, fn in _functions(world):
        for tgt, stmt in _stores(fn):
            if tgt.attr != 'state' or not isinstance(stmt, ast.Assign):
                continue
            val = stmt.value
            is_inst_state = (isinstance(val, ast.Attribute) and ast.unparse(val.value) == 'SupvisorsInstanceStates')
            if not is_inst_state:
                # a computed value stored into the .state of something that may be an instance status
                if mname in ('context', 'instancestatus') and not (isinstance(tgt.value, ast.Name) and tgt.value.id in ('application',)):
                    bad.append(f'{mname}:{cls}.{fname}@{stmt.lineno} stores a computed value into .state')
                continue
            key = (mname, cls, fname)
            found.setdefault(key, set()).add(val.attr)
            if val.attr not in STATE_WRITERS.get(key, set()):
                bad.append(f'{mname}:{cls}.{fname}@{stmt.lineno} assigns {val.attr}')
    obs.append(obligation('struct:instance-state-writers-whitelist', not bad and found == STATE_WRITERS,
                          f'offending: {bad}; found: ' + ', '.join(f'{k[2]}->{sorted(v)}' for k, v in sorted(found.items())),
                          function='context:Context'))
    # 'the local instance is never ISOLATED': the only ISOLATED assignment is in the branch of invalidate taken when
    # status.identifier != self.local_identifier
    inv = _method(world, 'context', 'Context', 'invalidate')
    ok, detail = False, 'Context.invalidate not found'
    if inv is not None:
        top_ifs = [s for s in inv.body if isinstance(s, ast.If)]
        iso = [n for n in ast.walk(inv) if isinstance(n, ast.Assign) and isinstance(n.value, ast.Attribute)
               and n.value.attr == 'ISOLATED']
        if len(top_ifs) == 1 and len(iso) == 1:
            first = top_ifs[0]
            test_ok = ast.unparse(first.test) == 'status.identifier == self.local_identifier'
            in_then = any(iso[0] is n for s in first.body for n in ast.walk(s))
            in_else = any(iso[0] is n for s in first.orelse for n in ast.walk(s))
            ok = test_ok and in_else and not in_then
            detail = f'test "{ast.unparse(first.test)}", ISOLATED assigned in else-branch: {in_else}, in then-branch: {in_then}'
        else:
            detail = f'{len(top_ifs)} top-level ifs, {len(iso)} ISOLATED assignments'
    obs.append(obligation('struct:ISOLATED-only-for-non-local-in-invalidate', ok, detail, function='context:Context.invalidate'))
    # ------------------------------------------------------------------ 4. the detection runs on every local tick
    def ordered(calls, *names):
        pos = []
        for n in names:
            idx = [i for i, c in enumerate(calls) if c == n]
            if not idx:
                return False
            pos.append(idx[0])
        return pos == sorted(pos)

    on_tick = _method(world, 'listener', 'SupervisorListener', 'on_tick')
    ok = on_tick is not None and ordered(_calls(on_tick), 'self.supvisors.context.on_local_tick_event',
                                         'self.fsm.on_timer_event', 'self.rpc_handler.send_tick_event')
    obs.append(obligation('struct:on_tick-checks-before-publishing', ok,
                          'SupervisorListener.on_tick: context.on_local_tick_event, fsm.on_timer_event, then send_tick_event',
                          function='listener:SupervisorListener.on_tick'))
    fsm_timer = _method(world, 'statemachine', 'FiniteStateMachine', 'on_timer_event')
    ok = fsm_timer is not None and ordered(_calls(fsm_timer), 'self.context.on_timer_event', 'self.next')
    obs.append(obligation('struct:fsm-timer-runs-inactivity-check-then-next', ok,
                          'FiniteStateMachine.on_timer_event: context.on_timer_event(event) then self.next()',
                          function='statemachine:FiniteStateMachine.on_timer_event'))
    fsm_next = _method(world, 'statemachine', 'FiniteStateMachine', 'next')
    ok = fsm_next is not None and 'self.instance.next' in _calls(fsm_next)
    obs.append(obligation('struct:fsm-next-calls-state-next', ok, 'FiniteStateMachine.next calls self.instance.next()',
                          function='statemachine:FiniteStateMachine.next'))
    # every state class: next() is the base one or starts with super().next(); the base calls _check_instances first;
    # _check_instances is defined once and calls context.invalidate_failed()
    sm = world.ct.modules['statemachine']
    state_classes = [c for c in sm.classes if '_SupvisorsBaseState' in world.ct.mro(c)]
    bad = []
    for c in state_classes:
        ci = sm.classes[c]
        if '_check_instances' in ci.methods and c != '_SupvisorsBaseState':
            bad.append(f'{c} overrides _check_instances')
        if 'next' in ci.methods and c != '_SupvisorsBaseState':
            body = [s for s in ci.methods['next'].node.body
                    if not (isinstance(s, ast.Expr) and isinstance(s.value, ast.Constant))]
            first = body[0] if body else None
            val = first.value if isinstance(first, (ast.Assign, ast.AnnAssign)) else None
            if val is None or ast.unparse(val) != 'super().next()':
                bad.append(f'{c}.next does not start with super().next()')
    base_next = _method(world, 'statemachine', '_SupvisorsBaseState', 'next')
    calls = _calls(base_next) if base_next is not None else []
    if not calls or calls[0] != 'self._check_instances':
        bad.append('_SupvisorsBaseState.next does not start with _check_instances()')
    chk = _method(world, 'statemachine', '_SupvisorsBaseState', '_check_instances')
    if chk is None or 'self.context.invalidate_failed' not in _calls(chk):
        bad.append('_check_instances does not call context.invalidate_failed()')
    obs.append(obligation('struct:every-state-next-invalidates-failed-instances', not bad and len(state_classes) >= 10,
                          f'{len(state_classes)} state classes; offending: {bad}',
                          function='statemachine:_SupvisorsBaseState.next'))
    out['structural'].append('C07: AST scans over every function of /repo/supvisors (single writer, table, whitelist, call chain)')
