"""Conservative call graph of the repository from the class table (name-based resolution through attribute chains):
used by C16 to list which handler-reachable functions are under contract and which are not."""
import ast


def functions(ct):
    out = {}
    for mn, mod in ct.modules.items():
        if getattr(mod, 'external', False) or mn.startswith('contracts'):
            continue
        for f in mod.functions.values():
            out[f.qualname] = f
        for ci in mod.classes.values():
            for tbl in (ci.methods, ci.getters, ci.setters):
                for f in tbl.values():
                    out[f.qualname] = f
    return out


def build(ct):
    """edges by callee *name*: a call `x.m(...)` / attribute access `x.p` may reach every method/property named m/p of
    any repo class (over-approximation), a call `f(...)` reaches the module-level function f or the constructor"""
    funcs = functions(ct)
    by_name = {}
    for q, f in funcs.items():
        by_name.setdefault(f.name, []).append(q)
    inits = {f.cls: q for q, f in funcs.items() if f.name == '__init__' and f.cls}
    edges = {}
    for q, f in funcs.items():
        callees = set()
        for n in ast.walk(f.node):
            if isinstance(n, ast.Call):
                fn = n.func
                if isinstance(fn, ast.Attribute):
                    callees.update(by_name.get(fn.attr, []))
                elif isinstance(fn, ast.Name):
                    callees.update(x for x in by_name.get(fn.id, []) if '.' not in x.split(':')[1])
                    if fn.id in inits:
                        callees.add(inits[fn.id])
            elif isinstance(n, ast.Attribute):
                for x in by_name.get(n.attr, []):
                    if x.endswith('[getter]') or x.endswith('[setter]'):
                        callees.add(x)
        edges[q] = callees
    return funcs, edges


def reachable(edges, roots):
    seen, stack = set(), list(roots)
    while stack:
        q = stack.pop()
        if q in seen:
            continue
        seen.add(q)
        stack.extend(edges.get(q, ()))
    return seen


def handler_roots(funcs):
    roots = []
    for q, f in funcs.items():
        if f.module == 'listener' and f.cls == 'SupervisorListener' and (f.name.startswith('on_') or f.name in (
                'read_publication', 'read_notification', 'force_process_state')):
            roots.append(q)
        if f.module == 'rpcinterface' and f.cls == 'RPCInterface' and not f.name.startswith('_') and f.kind == 'plain':
            roots.append(q)
    return roots
