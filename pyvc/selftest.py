"""Mutation self-test of the contracts (thorough tier, and `python -m pyvc.selftest CNN`).

mutants/CNN.txt lines:  <file under supvisors/>|<sed expression>|<targets separated by space>|killed-by:<obligation glob>
                        <file>|<sed>|<targets>|harmless
A breaking mutant must be REFUTED on an obligation matching the glob; a harmless refactor must verify completely.
Each mutant is applied to a scratch copy of /repo/supvisors outside /repo and /verif, removed right afterwards.
A mismatch is a self-test failure of the machinery (exit 3 in the check), never a VIOLATION of the property.
"""
import fnmatch
import json
import multiprocessing as mp
import os
import shutil
import subprocess
import sys
import tempfile

VERIF = os.path.dirname(os.path.dirname(os.path.abspath(__file__)))
REPO = os.environ.get('VERIF_REPO', '/repo')


def read_mutants(prop):
    p = os.path.join(VERIF, 'mutants', f'{prop}.txt')
    out = []
    if not os.path.exists(p):
        return out
    for ln in open(p):
        ln = ln.rstrip('\n')
        if not ln.strip() or ln.startswith('#'):
            continue
        parts = ln.split('|')
        if len(parts) < 4:
            continue
        f, sed = parts[0].strip(), '|'.join(parts[1:-2]).strip()
        targets, expect = parts[-2].split(), parts[-1].strip()
        out.append({'file': f, 'sed': sed, 'targets': targets, 'expect': expect, 'line': ln})
    return out


def _qual_nodes(text):
    """[(qualified name, first line incl. decorators, last line)] of every function / method (nested ones included)"""
    import ast
    out = []

    def walk(node, prefix):
        for ch in ast.iter_child_nodes(node):
            if isinstance(ch, (ast.FunctionDef, ast.AsyncFunctionDef, ast.ClassDef)):
                qn = f'{prefix}.{ch.name}' if prefix else ch.name
                lo = min([ch.lineno] + [x.lineno for x in ch.decorator_list])
                if not isinstance(ch, ast.ClassDef):
                    out.append((qn, lo, ch.end_lineno))
                walk(ch, qn)
    walk(ast.parse(text), '')
    return out


def enclosing(text, line):
    """qualified name of the innermost function holding `line` ('<module>' outside any function)"""
    best = None
    for qn, lo, hi in _qual_nodes(text):
        if lo <= line <= hi and (best is None or hi - lo < best[2] - best[1]):
            best = (qn, lo, hi)
    return best[0] if best else '<module>'


def func_lines(text, qn):
    """line numbers of the function(s) of that qualified name (a property getter and its setter share one)"""
    if qn == '<module>':
        return list(range(1, len(text.splitlines()) + 1))
    out = []
    for q, lo, hi in _qual_nodes(text):
        if q == qn:
            out.extend(range(lo, hi + 1))
    return sorted(set(out))


def resolve_anchor(text, spec):
    """'AT <qualname> :: <line text>[ #k][ ;; <last line text>[ #k]] :: <sed cmd>' -> '<N>[,<M>]<cmd>' in `text`, or None"""
    import re as _re
    try:
        _, rest = spec.split('AT ', 1)
        qn, anchors, cmd = rest.split(' :: ', 2)
    except ValueError:
        return None
    span = func_lines(text, qn.strip())
    if not span:
        return None
    lines = text.splitlines()
    nums = []
    for a in anchors.split(' ;; '):
        k = 0
        mk = _re.search(r' #(\d+)$', a)
        if mk:
            k, a = int(mk.group(1)), a[:mk.start()]
        same = [i for i in span if lines[i - 1].strip() == a.strip()]
        if len(same) <= k:
            return None
        nums.append(same[k])
    return ','.join(str(n) for n in nums) + cmd


def _run_one(m):
    d = tempfile.mkdtemp(prefix='pyvc_mut_')
    try:
        shutil.copytree(os.path.join(REPO, 'supvisors'), os.path.join(d, 'supvisors'),
                        ignore=shutil.ignore_patterns('__pycache__', 'tests', 'web', 'client', 'ui', 'test'))
        target_file = os.path.join(d, 'supvisors', m['file'])
        before = open(target_file).read()
        sed = m['sed']
        if sed.startswith('AT '):
            sed = resolve_anchor(before, sed)
            if sed is None:
                return dict(m, status='not-applied', detail='anchor (function / line text) not found in the current source')
        subprocess.run(['sed', '-i', sed, target_file], check=True)
        if open(target_file).read() == before:
            return dict(m, status='not-applied', detail='sed expression changed nothing (source moved?)')
        env = dict(os.environ, VERIF_REPO=d)
        code = ("import sys, json; sys.path.insert(0, %r)\n"
                "from pyvc.verify import World, verify_function, verify_lemma\n"
                "w = World()\n"
                "out = []\n"
                "for t in %r:\n"
                "    if t.startswith('STRUCT:') or t.startswith('check:'):\n"
                "        from pyvc import props\n"
                "        ex = props.run_extra(t.split(':')[1][:3], w, 'quick')\n"
                "        out.append({'target': t, 'error': '; '.join(str(e) for e in ex.get('errors', [])), 'bad': [[o['name'], o['verdict']] for o in ex['obligations'] if o['verdict'] != 'discharged']})\n"
                "        continue\n"
                "    for con in [c for c in w.reg.facets[t] if not c.assumed]:\n"
                "      for v in (con.all_variants() if hasattr(con, 'all_variants') else (con.variants or [None])):\n"
                "        r = verify_function(w, con, v)\n"
                "        out.append({'target': t, 'error': r.error, 'bad': [[o.name, o.verdict] for o in r.obligations if o.verdict != 'discharged']})\n"
                "print('RESULT' + json.dumps(out))\n") % (VERIF, m['targets'])
        for _attempt in range(3):
            p = subprocess.run([sys.executable, '-c', code], env=env, capture_output=True, text=True,
                               timeout=int(os.environ.get('VERIF_MUT_TIMEOUT', '1500')))
            if p.returncode >= 0:       # killed by a signal (libz3 segfault seen under the watchdog's interrupt): again
                break
        res = None
        for line in p.stdout.splitlines():
            if line.startswith('RESULT'):
                res = json.loads(line[6:])
        if res is None:
            return dict(m, status='error', detail=(p.stderr or p.stdout)[-300:])
        # obligations recorded as known findings are refuted on the unchanged tree as well: not the mutant's doing
        from pyvc.driver import load_findings
        kf = load_findings()['findings']

        def known(target, name):
            return any(f.get('function') in (None, target) and fnmatch.fnmatchcase(name, f['obligation']) for f in kf)
        for r in res:
            r['bad'] = [[n, v] for n, v in r['bad'] if not known(r['target'], n)]
        refuted = [n for r in res for n, v in r['bad'] if v == 'refuted']
        errors = [r['error'].splitlines()[0] for r in res if r['error']]
        if m['expect'].startswith('killed-by:'):
            pat = m['expect'][len('killed-by:'):].strip()
            hit = [n for n in refuted if fnmatch.fnmatchcase(n, pat) or pat in n]
            if hit:
                return dict(m, status='killed', detail=hit[0])
            if refuted:
                return dict(m, status='killed-other', detail=refuted[0])
            if errors and 'engine-error' in m['expect']:
                return dict(m, status='undecided-as-recorded', detail='engine error (exit 3): ' + errors[0][:120])
            undec = [n for r in res for n, v in r['bad'] if v != 'refuted']
            if undec and 'undecided' in m['expect'].lower():
                # recorded as such by the contract's author: the mutant is no longer proved (./check exits 2), no
                # counter-model is found - weaker than a kill, and said so in the evidence
                return dict(m, status='undecided-as-recorded', detail=undec[0])
            return dict(m, status='SURVIVED', detail='; '.join(errors) or ('not refuted; undecided: ' + ', '.join(undec[:2]) if undec
                                                                          else 'all obligations discharged'))
        bad = [n for r in res for n, v in r['bad']]
        if m['expect'].startswith(('undecided', 'not-discharged', 'not verified')):
            # recorded when the best the check could say about this breaking mutant was "no longer proved" (exit 2):
            # as expected as long as it does not verify (a refutation is better than expected)
            if bad or errors:
                return dict(m, status='killed' if refuted else 'killed-other', detail=(refuted or bad or errors)[0])
            return dict(m, status='SURVIVED', detail='all obligations discharged')
        if not bad and not errors:
            return dict(m, status='passes', detail='')
        return dict(m, status='FALSE-ALARM', detail='; '.join(bad[:2] + errors[:1]))
    except subprocess.TimeoutExpired:
        return dict(m, status='timeout', detail='')
    except Exception as e:
        return dict(m, status='error', detail=f'{type(e).__name__}: {e}')
    finally:
        shutil.rmtree(d, ignore_errors=True)


def run(prop, jobs=8):
    ms = read_mutants(prop)
    if not ms:
        return {'mutants': 0, 'results': []}
    with mp.Pool(min(jobs, len(ms))) as pool:
        results = pool.map(_run_one, ms, chunksize=1)
    ok = [r for r in results if r['status'] in ('killed', 'killed-other', 'passes', 'undecided-as-recorded')]
    # a mutant whose anchor no longer exists (the source under it was edited) cannot be evaluated: reported as stale,
    # not as a failure of the machinery (on the unchanged tree every mutant applies: checked when the file is committed)
    stale = [r for r in results if r['status'] in ('not-applied', 'timeout')]    # no verdict on the mutant: reported, not a failure
    return {'mutants': len(ms), 'as_expected': len(ok), 'stale': [r['status'] + ': ' + r['line'][:160] for r in stale],
            'only_undecided(as recorded)': sum(1 for r in results if r['status'] == 'undecided-as-recorded'),
            'failures': [{'line': r['line'], 'status': r['status'], 'detail': r['detail']} for r in results
                         if r not in ok and r not in stale],
            'results': [{'mutant': f"{r['file']}: {r['sed']}", 'expect': r['expect'], 'status': r['status'],
                         'detail': r['detail']} for r in results]}


if __name__ == '__main__':
    out = run(sys.argv[1], int(os.environ.get('VERIF_JOBS', '8')))
    print(json.dumps(out, indent=1))
    sys.exit(0 if not out.get('failures') else 3)
