"""Mutation self-test of the contracts (thorough tier, and `python -m pyvc.selftest CNN`).

mutants/CNN.txt lines:  <file under supvisors/>|<sed expression>|<targets separated by space>|killed-by:<obligation glob>
                        <file>|<sed>|<targets>|harmless
A breaking mutant must be REFUTED on an obligation matching the glob; a harmless refactor must verify completely.
Each mutant is applied to a scratch copy of /repo/supvisors outside /repo and /verif, removed right afterwards.
A mismatch is a self-test failure of the machinery (exit 3 in the check), never a VIOLATION of the property.
"""
import fnmatch
import json
import multiprocessing as mp
import os
import shutil
import subprocess
import sys
import tempfile

VERIF = os.path.dirname(os.path.dirname(os.path.abspath(__file__)))
REPO = os.environ.get('VERIF_REPO', '/repo')


def read_mutants(prop):
    p = os.path.join(VERIF, 'mutants', f'{prop}.txt')
    out = []
    if not os.path.exists(p):
        return out
    for ln in open(p):
        ln = ln.rstrip('\n')
        if not ln.strip() or ln.startswith('#'):
            continue
        parts = ln.split('|')
        if len(parts) < 4:
            continue
        f, sed = parts[0].strip(), '|'.join(parts[1:-2]).strip()
        targets, expect = parts[-2].split(), parts[-1].strip()
        out.append({'file': f, 'sed': sed, 'targets': targets, 'expect': expect, 'line': ln})
    return out


def _run_one(m):
    d = tempfile.mkdtemp(prefix='pyvc_mut_')
    try:
        shutil.copytree(os.path.join(REPO, 'supvisors'), os.path.join(d, 'supvisors'),
                        ignore=shutil.ignore_patterns('__pycache__', 'tests', 'web', 'client', 'ui', 'test'))
        target_file = os.path.join(d, 'supvisors', m['file'])
        before = open(target_file).read()
        subprocess.run(['sed', '-i', m['sed'], target_file], check=True)
        if open(target_file).read() == before:
            return dict(m, status='not-applied', detail='sed expression changed nothing (source moved?)')
        env = dict(os.environ, VERIF_REPO=d)
        code = ("import sys, json; sys.path.insert(0, %r)\n"
                "from pyvc.verify import World, verify_function, verify_lemma\n"
                "w = World()\n"
                "out = []\n"
                "for t in %r:\n"
                "    for con in [c for c in w.reg.facets[t] if not c.assumed]:\n"
                "      for v in (con.all_variants() if hasattr(con, 'all_variants') else (con.variants or [None])):\n"
                "        r = verify_function(w, con, v)\n"
                "        out.append({'target': t, 'error': r.error, 'bad': [[o.name, o.verdict] for o in r.obligations if o.verdict != 'discharged']})\n"
                "print('RESULT' + json.dumps(out))\n") % (VERIF, m['targets'])
        p = subprocess.run([sys.executable, '-c', code], env=env, capture_output=True, text=True,
                           timeout=int(os.environ.get('VERIF_MUT_TIMEOUT', '900')))
        res = None
        for line in p.stdout.splitlines():
            if line.startswith('RESULT'):
                res = json.loads(line[6:])
        if res is None:
            return dict(m, status='error', detail=(p.stderr or p.stdout)[-300:])
        refuted = [n for r in res for n, v in r['bad'] if v == 'refuted']
        errors = [r['error'].splitlines()[0] for r in res if r['error']]
        if m['expect'].startswith('killed-by:'):
            pat = m['expect'][len('killed-by:'):].strip()
            hit = [n for n in refuted if fnmatch.fnmatchcase(n, pat) or pat in n]
            if hit:
                return dict(m, status='killed', detail=hit[0])
            if refuted:
                return dict(m, status='killed-other', detail=refuted[0])
            return dict(m, status='SURVIVED', detail='; '.join(errors) or 'all obligations discharged')
        bad = [n for r in res for n, v in r['bad']]
        if not bad and not errors:
            return dict(m, status='passes', detail='')
        return dict(m, status='FALSE-ALARM', detail='; '.join(bad[:2] + errors[:1]))
    except subprocess.TimeoutExpired:
        return dict(m, status='timeout', detail='')
    except Exception as e:
        return dict(m, status='error', detail=f'{type(e).__name__}: {e}')
    finally:
        shutil.rmtree(d, ignore_errors=True)


def run(prop, jobs=8):
    ms = read_mutants(prop)
    if not ms:
        return {'mutants': 0, 'results': []}
    with mp.Pool(min(jobs, len(ms))) as pool:
        results = pool.map(_run_one, ms, chunksize=1)
    ok = [r for r in results if r['status'] in ('killed', 'killed-other', 'passes')]
    return {'mutants': len(ms), 'as_expected': len(ok),
            'failures': [{'line': r['line'], 'status': r['status'], 'detail': r['detail']} for r in results if r not in ok],
            'results': [{'mutant': f"{r['file']}: {r['sed']}", 'expect': r['expect'], 'status': r['status'],
                         'detail': r['detail']} for r in results]}


if __name__ == '__main__':
    out = run(sys.argv[1], int(os.environ.get('VERIF_JOBS', '8')))
    print(json.dumps(out, indent=1))
    sys.exit(0 if not out.get('failures') else 3)
