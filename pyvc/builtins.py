"""pyvc builtins: python builtins, collection methods, specification vocabulary."""
import ast
import math
from .core import *
from .interp import EXEC, GENERIC, SPEC, SPECULATE, I, B, R, arr, Frame


class InterpBuiltins:
    def call_builtin(self, f, args, kwargs, line, node=None, fr=None):
        name = f.name
        if name == 'noop':
            return None
        if name.startswith('logger.'):
            return None
        if name.startswith('m:'):
            return self.call_builtin_method(f.selfv, name[2:], args, kwargs, line)
        if name.startswith('ext:'):
            if f.selfv is not None:     # method of an external class: the receiver is the first argument
                args = [f.selfv] + list(args)
            return self.reg.call_external(self, name[4:], args, kwargs, line)
        m = getattr(self, 'bi_' + name, None)
        if m is None:
            raise Unsupported(f'builtin {name} at line {line}')
        return m(args, kwargs, line)

    # ------------------------------------------------------------------ python builtins
    def bi_len(self, args, kw, line):
        v = args[0]
        if isinstance(v, SV) and isinstance(v.ty, TOpt):
            self.partial(self.neg(self.opt_is_none(v)), 'TypeError', line)
            v = self.narrow_opt(v)
        if v is None:
            self.partial(False, 'TypeError', line)
        items = self.iter_const(v)
        if items is not None:
            return len(items)
        if isinstance(v, ListV):
            return SV(self.list_len(v), INT)
        if isinstance(v, (SetV, SymSet, DictV)) or (isinstance(v, ValuesView)):
            chi = self.set_chi(v if not isinstance(v, ValuesView) else v.d)
            return SV(self.card(as_array(chi)), INT)
        if isinstance(v, SV) and v.ty == STR:
            f = z3.Function('str_len', Str, I)
            t = f(v.t)
            self.run.assume(t >= 0, silent=True)
            self.run.assume((t == 0) == (v.t == STR_EMPTY), silent=True)
            return SV(t, INT)
        raise Unsupported(f'len of {type(v).__name__} at line {line}')

    def bi_isinstance(self, args, kw, line):
        v, c = args
        cs = list(c) if isinstance(c, tuple) else [c]
        names = [x.name if isinstance(x, ClassV) else getattr(x, 'name', None) for x in cs]
        res = []
        for x in cs:
            if isinstance(x, Builtin):   # int, str, bool, float, list, dict ...
                fam = self.family(v)
                res.append({'int': fam in ('num', 'bool') and self._is_int(v), 'str': fam == 'str', 'bool': fam == 'bool',
                            'float': fam == 'num' and not self._is_int(v), 'list': fam == 'list', 'dict': fam == 'dict',
                            'tuple': fam == 'tuple', 'set': fam == 'set'}.get(x.name, False))
            elif isinstance(x, ClassV):
                if isinstance(v, ObjV):
                    if self.ct.is_subclass(v.cls, x.name):
                        res.append(True)
                    elif self.is_exact(v) or not self.ct.is_subclass(x.name, v.cls):
                        res.append(False)
                    else:
                        ids = [self.ts.class_id(s) for s in [x.name] + self.ct.subclasses(x.name)]
                        res.append(z3.Or([class_of(v.ref) == i for i in ids]))
                elif isinstance(v, ExcV):
                    res.append(self.exc_isinstance(v.cls, x.name))
                elif isinstance(v, EnumMember):
                    res.append(v.cls == x.name or x.name == 'Enum')
                elif isinstance(v, SV) and isinstance(v.ty, TEnum):
                    res.append(v.ty.name == x.name or x.name == 'Enum')
                else:
                    res.append(False)
            else:
                raise Unsupported('isinstance against non-class')
        return self.bool_value(self.disj(res))

    def _is_int(self, v):
        if isinstance(v, bool):
            return True
        if isinstance(v, int):
            return True
        if isinstance(v, float):
            return False
        return isinstance(v, SV) and (v.ty in (INT, BOOL) or isinstance(v.ty, TEnum))

    def bi_type(self, args, kw, line):
        v = args[0]
        fam = self.family(v)
        if fam == 'bool':
            return Builtin('bool')
        if fam == 'num':
            return Builtin('int' if self._is_int(v) else 'float')
        if fam == 'str':
            return Builtin('str')
        if fam in ('list', 'dict', 'tuple', 'set'):
            return Builtin(fam)
        if isinstance(v, ObjV) and self.is_exact(v):
            return ClassV(v.cls)
        if isinstance(v, EnumMember):
            return ClassV(v.cls)
        if v is None:
            return Builtin('NoneType')
        if isinstance(v, ObjV) or (isinstance(v, SV) and isinstance(v.ty, TOpt)):
            return TypeOfV(v)     # symbolic dynamic type: only comparable with classes
        raise Unsupported(f'type() of {type(v).__name__}')

    def bi_bool(self, args, kw, line):
        return self.bool_value(self.truthy(args[0])) if args else False

    def bi_int(self, args, kw, line):
        if not args:
            return 0
        v = args[0]
        if isinstance(v, (int, float)) and not isinstance(v, bool):
            return int(v)
        if isinstance(v, bool):
            return int(v)
        if isinstance(v, SV) and v.ty in (INT, BOOL):
            return SV(self.num_term(v, line), INT)
        if isinstance(v, SV) and v.ty == REAL:
            # int() truncates toward zero
            t = v.t
            return SV(z3.If(t >= 0, z3.ToInt(t), -z3.ToInt(-t)), INT)
        return self.reg.call_external(self, 'builtins.int', args, kw, line)

    def bi_float(self, args, kw, line):
        v = args[0] if args else 0.0
        if isinstance(v, (int, float)):
            return float(v)
        if isinstance(v, SV) and v.ty in (INT, REAL, BOOL):
            t = self.num_term(v, line)
            return SV(z3.ToReal(t) if t.sort() == I else t, REAL)
        return self.reg.call_external(self, 'builtins.float', args, kw, line)

    def bi_str(self, args, kw, line):
        if not args:
            return ''
        v = args[0]
        if isinstance(v, str):
            return v
        if isinstance(v, int) and not isinstance(v, bool):
            return str(v)
        if isinstance(v, SV) and v.ty == STR:
            return v
        return self.opaque_str()

    def bi_repr(self, args, kw, line):
        return self.opaque_str()

    def bi_print(self, args, kw, line):
        return None

    def bi_id(self, args, kw, line):
        return SV(self.run.fresh('id', I), INT)

    def bi_abs(self, args, kw, line):
        v = args[0]
        if isinstance(v, (int, float)):
            return abs(v)
        t = self.num_term(v, line)
        return SV(z3.If(t >= 0, t, -t), REAL if t.sort() == R else INT)

    def bi_round(self, args, kw, line):
        return self.reg.call_external(self, 'builtins.round', args, kw, line)

    def bi_range(self, args, kw, line):
        if all(isinstance(a, int) for a in args):
            return ConstSeq(list(range(*args)), 'range')
        return self.reg.symbolic_range(self, args, line)

    def bi_tuple(self, args, kw, line):
        if not args:
            return ()
        items = self.iter_const(self.force_gen(args[0]))
        if items is None:
            raise Unsupported('tuple() of symbolic collection')
        return tuple(items)

    def bi_iter(self, args, kw, line):
        return args[0]

    def bi_reversed(self, args, kw, line):
        items = self.iter_const(args[0])
        if items is None:
            raise Unsupported('reversed() of symbolic collection')
        return ConstSeq(list(reversed(items)))

    def bi_enumerate(self, args, kw, line):
        items = self.iter_const(args[0])
        if items is None:
            raise Unsupported('enumerate() of symbolic collection')
        start = args[1] if len(args) > 1 else kw.get('start', 0)
        return ConstSeq([(i + start, x) for i, x in enumerate(items)])

    def bi_zip(self, args, kw, line):
        its = [self.iter_const(a) for a in args]
        if any(i is None for i in its):
            return self.reg.symbolic_zip(self, args, line)
        return ConstSeq([tuple(x) for x in zip(*its)])

    def bi_getattr(self, args, kw, line):
        obj, name = args[0], args[1]
        if not isinstance(name, str):
            raise Unsupported('getattr with symbolic name')
        try:
            return self.getattr(obj, name, line)
        except Unsupported:
            if len(args) > 2:
                return args[2]
            raise

    def bi_setattr(self, args, kw, line):
        obj, name, val = args
        if not isinstance(name, str):
            raise Unsupported('setattr with symbolic name')
        self.setattr(obj, name, val, line)

    def bi_hasattr(self, args, kw, line):
        obj, name = args
        if isinstance(obj, ObjV) and isinstance(name, str):
            return (self.ct.is_field(obj.cls, name) or self.ct.find_method(obj.cls, name) is not None
                    or self.ct.find_getter(obj.cls, name) is not None)
        raise Unsupported('hasattr')

    def bi_callable(self, args, kw, line):
        return isinstance(args[0], (Builtin, BoundMethod, FuncV, LambdaV, ClassV))

    def force_gen(self, v):
        """generator over a constant sequence -> ConstSeq of its values"""
        if isinstance(v, GenV):
            q = self.quantified_gen(v, 'elems') if self.iter_const_of_gen(v) is None else None
            items = self.iter_const_of_gen(v)
            if items is not None:
                return ConstSeq(items)
        return v

    def iter_const_of_gen(self, gen):
        node, fr = gen.node, gen.frame
        if len(node.generators) != 1:
            return None
        g = node.generators[0]
        coll = self.ev(g.iter, fr)
        items = self.iter_const(coll)
        if items is None:
            return None
        return self.eval_gen_const(items, g, node, fr)

    def bi_list(self, args, kw, line):
        if not args:
            return ConstSeq([], 'list')
        v = args[0]
        if isinstance(v, GenV):
            items = self.iter_const_of_gen(v)
            if items is not None:
                return ConstSeq(items)
            return self.reg.listcomp(self, ast.ListComp(elt=v.node.elt, generators=v.node.generators), v.frame)
        items = self.iter_const(v)
        if items is not None:
            return ConstSeq(list(items))
        return self.reg.list_of(self, v, line)

    def bi_set(self, args, kw, line):
        if not args:
            # fresh empty heap set; its element type (hence its SMT sort) is fixed by the first add()
            return SetV(self.alloc('set'), ANY)
        v = args[0]
        if isinstance(v, GenV):
            return self.ev_SetComp(ast.SetComp(elt=v.node.elt, generators=v.node.generators), v.frame)
        items = self.iter_const(v)
        if items is not None:
            if not items:
                return SymSet(None, ANY)
            ety = self.value_type(items[0])
            x = self.run.fresh('x!set', sort_of(ety))
            return SymSet(FnChi(self, x, z3.Or([x == self.coerce_term(i, ety) for i in items])), ety)
        if isinstance(v, (SetV, SymSet)):
            return SymSet(self.set_chi(v), v.ety)
        ety = self.elem_type(v)
        x = self.run.fresh('x!set', sort_of(ety))
        return SymSet(FnChi(self, x, self.member_term(v, x)), ety)

    bi_frozenset = bi_set

    def bi_dict(self, args, kw, line):
        if not args and not kw:
            return ConstDict([])
        if not args:
            return ConstDict(list(kw.items()))
        return self.reg.dict_of(self, args[0], kw, line)

    def bi_super(self, args, kw, line):
        raise Unsupported('super(cls, self) form')

    def bi_any(self, args, kw, line):
        return self._anyall(args[0], True, line)

    def bi_all(self, args, kw, line):
        return self._anyall(args[0], False, line)

    def _anyall(self, v, is_any, line):
        if isinstance(v, GenV):
            q = self.quantified_gen(v, 'elems')
            if q[0] == 'const':
                _, items, g, node, gfr = q
                # python evaluates lazily and short-circuits: fork like python in exec mode
                sub = Frame(gfr.fi, gfr.module, dict(gfr.vars), gfr.selfv, gfr.defcls)
                terms = []
                for it in items:
                    self.bind_target(g.target, it, sub)
                    conds = [self.as_bool(self.truthy(self.ev(c, sub))) for c in g.ifs]
                    t = self.as_bool(self.truthy(self.ev(node.elt, sub)))
                    terms.append(z3.And(conds + [t]) if is_any else z3.Implies(z3.And(conds), t) if conds else t)
                return self.bool_value(self.simp(z3.Or(terms) if is_any else z3.And(terms))) if terms else (not is_any)
            _, vars_, guard, elt, coll = q
            t = self.as_bool(self.truthy(elt))
            if is_any:
                return self.bool_value(z3.Exists(vars_, z3.And(guard, t)))
            return self.bool_value(z3.ForAll(vars_, z3.Implies(guard, t)))
        items = self.iter_const(v)
        if items is not None:
            ts = [self.as_bool(self.truthy(x)) for x in items]
            if not ts:
                return not is_any
            return self.bool_value(self.simp(z3.Or(ts) if is_any else z3.And(ts)))
        vars_, guard, val = self.generic_iter(v)
        t = self.as_bool(self.truthy(val))
        return self.bool_value(z3.Exists(vars_, z3.And(guard, t)) if is_any else z3.ForAll(vars_, z3.Implies(guard, t)))

    def bi_next(self, args, kw, line):
        v = args[0]
        has_default = len(args) > 1
        default = args[1] if has_default else None
        if isinstance(v, GenV):
            q = self.quantified_gen(v, 'elems', ordered=True)
            if q[0] == 'const':
                _, items, g, node, gfr = q
                sub = Frame(gfr.fi, gfr.module, dict(gfr.vars), gfr.selfv, gfr.defcls)
                if self.mode == EXEC:
                    for it in items:
                        self.bind_target(g.target, it, sub)
                        ok = True
                        for c in g.ifs:
                            t = self.truthy(self.ev(c, sub))
                            ok = t if isinstance(t, bool) else self.run.decide(t)
                            if not ok:
                                break
                        if ok:
                            return self.ev(node.elt, sub)
                    if not has_default:
                        self.partial(False, 'StopIteration', line)
                    return default
                pairs = []
                for it in items:
                    self.bind_target(g.target, it, sub)
                    conds = [self.as_bool(self.truthy(self.ev(c, sub))) for c in g.ifs]
                    pairs.append((z3.And(conds) if conds else True, self.ev(node.elt, sub)))
                pairs.append((True, default))
                return self.ite_chain(pairs)
            return self.reg.next_symbolic(self, q, has_default, default, line)
        return self.reg.next_symbolic(self, ('plain', v), has_default, default, line)

    def _minmax(self, args, kw, line, is_min):
        key = kw.get('key')
        default = kw.get('default', NotImplemented)
        if len(args) > 1:
            src = ConstSeq(list(args))
        else:
            src = args[0]
        if isinstance(src, GenV):
            items = self.iter_const_of_gen(src)
            if items is None:
                return self.reg.minmax_symbolic(self, src, key, default, is_min, line)
            src = ConstSeq(items)
        items = self.iter_const(src)
        kf = (lambda x: self.call_value(key, [x], {}, line)) if key is not None else (lambda x: x)
        if items is not None:
            if not items:
                if default is not NotImplemented:
                    return default
                self.partial(False, 'ValueError', line)
            best = items[0]
            bk = kf(best)
            pairs = []
            # first minimal element wins (python semantics)
            for i, it in enumerate(items):
                ki = kf(it)
                conds = []
                for j, other in enumerate(items):
                    if j == i:
                        continue
                    kj = kf(other)
                    op = (ast.Lt() if j < i else ast.LtE()) if is_min else (ast.Gt() if j < i else ast.GtE())
                    conds.append(self.order(op, ki, kj, line))
                pairs.append((self.conj(conds), it))
            if all(c is True or c is False for c, _ in pairs):
                return next(v for c, v in pairs if c is True)
            return self.ite_chain(pairs)
        return self.reg.minmax_symbolic(self, src, key, default, is_min, line)

    def bi_min(self, args, kw, line):
        return self._minmax(args, kw, line, True)

    def bi_max(self, args, kw, line):
        return self._minmax(args, kw, line, False)

    def bi_sum(self, args, kw, line):
        v = args[0]
        start = args[1] if len(args) > 1 else kw.get('start', 0)
        if isinstance(v, GenV):
            items = self.iter_const_of_gen(v)
            if items is None:
                return self.reg.sum_symbolic(self, v, start, line)
        else:
            items = self.iter_const(v)
            if items is None:
                return self.reg.sum_symbolic(self, v, start, line)
        acc = start
        for it in items:
            acc = self.binop(ast.Add(), acc, it, line)
        return acc

    def bi_sorted(self, args, kw, line):
        return self.reg.sorted_symbolic(self, args, kw, line)

    def bi_filter(self, args, kw, line):
        return self.reg.filter_symbolic(self, args, kw, line)

    def bi_map(self, args, kw, line):
        f, src = args
        items = self.iter_const(src)
        if items is None:
            raise Unsupported('map over symbolic collection')
        return ConstSeq([self.call_value(f, [x], {}, line) for x in items])

    def bi_divmod(self, args, kw, line):
        return (self.binop(ast.FloorDiv(), args[0], args[1], line), self.binop(ast.Mod(), args[0], args[1], line))

    # ------------------------------------------------------------------ methods of builtin containers
    def call_builtin_method(self, base, name, args, kw, line):
        if isinstance(base, RecV):
            return self.rec_method(base, name, args, kw, line)
        if isinstance(base, DictV):
            return self.dict_method(base, name, args, kw, line)
        if isinstance(base, SetV):
            return self.set_method(base, name, args, kw, line)
        if isinstance(base, ListV):
            return self.list_method(base, name, args, kw, line)
        if isinstance(base, ConstDict):
            if name == 'items':
                return ConstSeq([(k, v) for k, v in base.items])
            if name == 'keys':
                return ConstSeq([k for k, _ in base.items])
            if name == 'values':
                return ConstSeq([v for _, v in base.items])
            if name == 'get':
                for k, v in base.items:
                    e = self.eq(k, args[0])
                    if e is True:
                        return v
                    if e is not False:
                        return self.ite_chain([(self.eq(k2, args[0]), v2) for k2, v2 in base.items] + [(True, args[1] if len(args) > 1 else None)])
                return args[1] if len(args) > 1 else None
            if name == 'copy':
                return ConstDict(list(base.items))
        if isinstance(base, (ConstSeq, tuple)):
            items = base.items if isinstance(base, ConstSeq) else list(base)
            if name == 'index':
                for i, it in enumerate(items):
                    if self.eq(it, args[0]) is True:
                        return i
                raise Unsupported('index() in constant sequence with symbolic comparison')
            if name == 'copy':
                return ConstSeq(list(items))
            if name == 'count':
                return sum(1 for it in items if self.eq(it, args[0]) is True)
            if name in ('append', 'extend', 'remove', 'pop', 'insert', 'sort', 'clear') and isinstance(base, ConstSeq):
                return self.constseq_mutate(base, name, args, kw, line)
        if isinstance(base, SymSet):
            if name == 'copy':
                return base
            if name in ('issubset', 'issuperset', 'union', 'intersection', 'difference', 'isdisjoint'):
                return self.set_method(base, name, args, kw, line)
        if isinstance(base, str) or (isinstance(base, SV) and base.ty == STR):
            return self.reg.str_method(self, base, name, args, kw, line)
        raise Unsupported(f'method {name} of {type(base).__name__} at line {line}')

    def constseq_mutate(self, base, name, args, kw, line):
        """list literals bound to locals are mutable python lists of values (known length)"""
        if name == 'append':
            base.items.append(args[0])
        elif name == 'extend':
            more = self.iter_const(args[0])
            if more is None:
                raise Unsupported('extend of a literal list by a symbolic collection')
            base.items.extend(more)
        elif name == 'insert':
            base.items.insert(args[0], args[1])
        elif name == 'clear':
            base.items.clear()
        elif name == 'pop':
            if not base.items:
                self.partial(False, 'IndexError', line)
            return base.items.pop(*args)
        elif name == 'remove':
            for i, it in enumerate(base.items):
                e = self.eq(it, args[0])
                if e is True:
                    del base.items[i]
                    return None
                if e is not False:
                    raise Unsupported('remove() from a literal list with symbolic comparison')
            self.partial(False, 'ValueError', line)
        else:
            raise Unsupported(f'{name} on literal list')
        return None

    def rec_method(self, r, name, args, kw, line):
        if name == 'get':
            key = args[0]
            if not isinstance(key, str):
                raise Unsupported('payload.get with symbolic key')
            default = args[1] if len(args) > 1 else None
            has = self.rec_contains(r, key)
            if self.mode == EXEC:
                try:
                    return self.ite_chain([(has, self.rec_load(r, key)), (True, default)])
                except Unsupported:
                    pass
                if self.run.decide(has):
                    return self.rec_load(r, key)
                return default
            return self.ite_chain([(has, self.rec_load(r, key)), (True, default)])
        if name == 'update':
            src = args[0] if args else ConstDict(list(kw.items()))
            if isinstance(src, ConstDict):
                for k, v in src.items:
                    self.rec_store(r, k, v)
                return None
            if isinstance(src, RecV):
                # copy every declared key that is present in the source
                for key in getattr(self.ts.shapes, 'REC_KEYS', {}):
                    sh = self.rec_has(key, self.H(src))[0][src.ref]
                    a_src, _, ty = self.rec_field(key, self.H(src))
                    a, nme, _ = self.rec_field(key)
                    self.heap.set(nme, z3.Store(a, r.ref, z3.If(sh, a_src[src.ref], a[r.ref])))
                    h, hn = self.rec_has(key)
                    self.heap.set(hn, z3.Store(h, r.ref, z3.Or(sh, h[r.ref])))
                return None
        if name == 'copy':
            nr = self.alloc('rec')
            for key in getattr(self.ts.shapes, 'REC_KEYS', {}):
                a, nme, _ = self.rec_field(key)
                self.heap.set(nme, z3.Store(a, nr, a[r.ref]))
                h, hn = self.rec_has(key)
                self.heap.set(hn, z3.Store(h, nr, h[r.ref]))
            return RecV(nr)
        if name == 'pop':
            key = args[0]
            has = self.rec_contains(r, key)
            if len(args) > 1:
                v = self.ite_chain([(has, self.rec_load(r, key)), (True, args[1])]) if self.mode != EXEC else None
                if self.mode == EXEC:
                    v = self.rec_load(r, key) if self.run.decide(has) else args[1]
            else:
                self.partial(has, 'KeyError', line)
                v = self.rec_load(r, key)
            h, hn = self.rec_has(key)
            self.heap.set(hn, z3.Store(h, r.ref, False))
            return v
        raise Unsupported(f'payload method {name} at line {line}')

    def dict_method(self, d, name, args, kw, line):
        if name in ('values', 'keys', 'items'):
            return ValuesView(d, name)
        if name == 'get':
            has = self.dict_contains(d, args[0])
            default = args[1] if len(args) > 1 else None
            if default is None and is_ref_type(d.vty) and not isinstance(d.vty, TOpt):
                # Optional reference result: null when absent
                _, va = self.dict_val(d)
                t = z3.If(has, va[d.ref][self.coerce_term(args[0], d.kty)], NULL)
                v = self.wrap(t, TOpt(d.vty), d.heap)
                al = self.H(d).get('alloc', arr(Ref, B))
                self.run.assume(z3.Implies(has, z3.And(t != NULL, al[t])), silent=True)
                return v
            if self.mode == EXEC:
                return self.dict_load(d, args[0]) if self.run.decide(has) else default
            return self.ite_chain([(has, self.dict_load(d, args[0])), (True, default)])
        if name == 'pop':
            has = self.dict_contains(d, args[0])
            if len(args) > 1:
                if self.mode != EXEC:
                    raise Unsupported('dict.pop with default outside exec mode')
                if not self.run.decide(has):
                    return args[1]
            else:
                self.partial(has, 'KeyError', line)
            v = self.dict_load(d, args[0])
            self.dict_delete(d, args[0])
            return v
        if name == 'setdefault':
            has = self.dict_contains(d, args[0])
            if self.mode != EXEC:
                raise Unsupported('setdefault outside exec mode')
            if not self.run.decide(has):
                self.dict_store(d, args[0], args[1] if len(args) > 1 else None)
            return self.dict_load(d, args[0])
        if name == 'clear':
            hn, ha = self.dict_has(d)
            self.heap.set(hn, z3.Store(ha, d.ref, z3.K(sort_of(d.kty), z3.BoolVal(False))))
            self._dict_order_reset(d)
            return None
        if name == 'copy':
            nd = self.new_dict(d.kty, d.vty)
            hn, ha = self.dict_has(nd)
            self.heap.set(hn, z3.Store(ha, nd.ref, self.dict_has(d)[1][d.ref]))
            vn, va = self.dict_val(nd)
            self.heap.set(vn, z3.Store(va, nd.ref, self.dict_val(d)[1][d.ref]))
            _, oa, _, la = self.dict_order(d)
            self.dict_order_set(nd, oa[d.ref], la[d.ref])
            return nd
        if name == 'update':
            return self.reg.dict_update(self, d, args, kw, line)
        raise Unsupported(f'dict method {name} at line {line}')

    def set_method(self, s, name, args, kw, line):
        if isinstance(s, SetV) and s.ety == ANY:
            if name in ('add', 'update'):
                if name == 'add':
                    s.ety = self.value_type(args[0])
                else:
                    items = self.iter_const(args[0])
                    s.ety = self.value_type(items[0]) if items else self.elem_type(args[0])
                if isinstance(s.ety, TOpt) or s.ety in (NONE, ANY):
                    raise Unsupported('set of None / unknown element type')
                nme, a = self.set_arr(s)
                self.heap.set(nme, z3.Store(a, s.ref, z3.K(sort_of(s.ety), z3.BoolVal(False))))
            elif name in ('discard', 'clear'):
                return None
            elif name == 'copy':
                return SetV(self.alloc('set'), ANY)
            else:
                raise Unsupported(f'set method {name} on an empty set of unknown element type')
        if name == 'add':
            self.set_update(s, args[0], True)
            return None
        if name == 'discard':
            self.set_update(s, args[0], False)
            return None
        if name == 'remove':
            self.partial(self.contains(s, args[0]), 'KeyError', line)
            self.set_update(s, args[0], False)
            return None
        if name == 'clear':
            nme, a = self.set_arr(s)
            self.heap.set(nme, z3.Store(a, s.ref, z3.K(sort_of(s.ety), z3.BoolVal(False))))
            return None
        if name == 'copy':
            return self.materialize(SymSet(self.set_chi(s), s.ety), TSet(s.ety))
        if name == 'update':
            other = args[0]
            nme, a = self.set_arr(s)
            x = z3.Const('x!su', sort_of(s.ety))
            items = self.iter_const(other)
            if items is not None:
                row = a[s.ref]
                for it in items:
                    row = z3.Store(row, self.coerce_term(it, s.ety), True)
            else:
                row = self.def_array([x], z3.Or(a[s.ref][x], self.member_term(other, x)))
            self.heap.set(nme, z3.Store(a, s.ref, row))
            return None
        if name in ('issubset', 'issuperset', 'isdisjoint'):
            other = args[0]
            x = z3.Const('x!ss', sort_of(s.ety))
            mo = self.contains(other, SV(x, s.ety)) if self.iter_const(other) is not None else self.member_term(other, x)
            ms = self.set_chi(s)[x]
            body = {'issubset': z3.Implies(ms, self.as_bool(mo)), 'issuperset': z3.Implies(self.as_bool(mo), ms),
                    'isdisjoint': z3.Not(z3.And(ms, self.as_bool(mo)))}[name]
            return self.bool_value(z3.ForAll([x], body))
        if name in ('union', 'intersection', 'difference'):
            other = args[0]
            if not isinstance(other, (SetV, SymSet)):
                other = self.bi_set([other], {}, line)
            op = {'union': ast.BitOr(), 'intersection': ast.BitAnd(), 'difference': ast.Sub()}[name]
            return self.set_binop(op, s, other)
        if name == 'pop':
            return self.reg.set_pop(self, s, line)
        raise Unsupported(f'set method {name} at line {line}')

    def list_method(self, l, name, args, kw, line):
        if name == 'append':
            self.list_append(l, args[0])
            return None
        if name == 'copy':
            return self.reg.list_of(self, l, line)
        if name == 'clear':
            ln = self.heap.get('L.len', arr(Ref, I))
            self.heap.set('L.len', z3.Store(ln, l.ref, z3.IntVal(0)))
            return None
        return self.reg.list_method(self, l, name, args, kw, line)

    # ------------------------------------------------------------------ specification vocabulary (SPEC mode)
    def _quant(self, args, is_forall, line):
        *doms, lam = args
        if not isinstance(lam, LambdaV):
            raise Unsupported('forall/exists expects a lambda')
        names = [a.arg for a in lam.node.args.args]
        if len(doms) == 1 and len(names) > 1:
            doms = doms * len(names)
        consts, guards, vals = [], [], []
        self.qdepth = getattr(self, 'qdepth', 0) + 1
        for nme, d in zip(names, doms):
            c, g, v = self.quant_domain(f'{self.qdepth}{nme}', d)
            consts.extend(c)
            if g is not None:
                guards.append(g)
            vals.append(v)
        saved = self.mode
        self.mode = SPEC
        try:
            body = self.as_bool(self.truthy(self.call_lambda(lam, vals)))
        finally:
            self.mode = saved
            self.qdepth -= 1
        if guards:
            g = z3.And(guards) if len(guards) > 1 else guards[0]
            body = z3.Implies(g, body) if is_forall else z3.And(g, body)
        return self.bool_value(z3.ForAll(consts, body) if is_forall else z3.Exists(consts, body))

    def quant_domain(self, name, d):
        """domain designator -> (bound consts, guard or None, value)"""
        if isinstance(d, Builtin) and d.name in ('str', 'int', 'float', 'bool'):
            ty = {'str': STR, 'int': INT, 'float': REAL, 'bool': BOOL}[d.name]
            c = z3.Const('q' + name, sort_of(ty))
            return [c], None, SV(c, ty)
        if isinstance(d, ClassV):
            if self.ts.is_enum_class(d.name):
                c = z3.Const('q' + name, I)
                return [c], self.ts.enum_domain(c, d.name), SV(c, TEnum(d.name))
            c = z3.Const('q' + name, Ref)
            g = z3.And(c != NULL, self.heap.get('alloc', arr(Ref, B))[c])
            return [c], g, ObjV(c, d.name)
        if isinstance(d, (ListV, SetV, SymSet, DictV, ValuesView)):
            vars_, guard, val = self.generic_iter(d)
            return vars_, guard, val
        if isinstance(d, str):
            # 'List[T]' : quantifies over the allocated list objects (any list reference, viewed as a list of T)
            ty = self.ts.ann_to_type(ast.parse(d, mode='eval').body, 'commander')
            if isinstance(ty, TList):
                c = z3.Const('q' + name, Ref)
                g = z3.And(c != NULL, self.heap.get('alloc', arr(Ref, B))[c], kind_of(c) == KINDS['list'])
                return [c], g, ListV(c, ty.t)
        if isinstance(d, (ConstSeq, tuple)):
            raise Unsupported('quantifier over a constant sequence: use all(...)')
        raise Unsupported(f'quantifier domain {d!r:.40}')

    def bi_forall(self, args, kw, line):
        return self._quant(args, True, line)

    def bi_exists(self, args, kw, line):
        return self._quant(args, False, line)

    def bi_implies(self, args, kw, line):
        a, b = (self.as_bool(self.truthy(x)) for x in args)
        return self.bool_value(self.simp(z3.Implies(a, b)))

    def bi_iff(self, args, kw, line):
        a, b = (self.as_bool(self.truthy(x)) for x in args)
        return self.bool_value(self.simp(a == b))

    def bi_ite(self, args, kw, line):
        c = self.truthy(args[0])
        if isinstance(c, bool):
            return args[1] if c else args[2]
        return self.ite_chain([(c, args[1]), (True, args[2])])

    def bi_rank(self, args, kw, line):
        return SV(str_rank(self.lift(args[0])), INT)

    def bi_card(self, args, kw, line):
        return self.bi_len(args, kw, line)

    def bi_keys(self, args, kw, line):
        return ValuesView(args[0], 'keys')

    def bi_gmap(self, args, kw, line):
        """spec: gmap(coll, 'name', key) -> int.  Ghost integer map attached to a collection object (an abstract quantity
        derived from its contents that the engine does not compute, e.g. a sum).  It lives in the heap next to the
        contents of the collection (same frame rules: it is havocked whenever the contents may be modified)."""
        coll, name, key = args
        prefix = {ListV: 'L.', SetV: 'S.', DictV: 'D.'}.get(type(coll))
        if prefix is None or not isinstance(name, str):
            raise Unsupported('gmap(collection, literal name, key)')
        kt = self.lift(key)
        a = self.H(coll).get(f'{prefix}g.{name}:{kt.sort()}', arr(Ref, arr(kt.sort(), I)))
        return SV(a[coll.ref][kt], INT)

    def bi_setsum(self, args, kw, line):
        """spec: setsum(S, lambda x: w) -> int.  Sum of the integer weight w(x) over the members x of the finite set-like
        value S (a set, a dict = its keys, a SymSet such as the loop ghost `seen`).  The sum is an UNINTERPRETED function
        of the characteristic array of S and of the parameters of the weight (lambda lifting: the maximal subterms of w
        that do not depend on x become arguments, the remaining skeleton names the function symbol); nothing is ever
        assumed about that symbol.  What the engine knows is the recursive definition of a finite sum, applied by
        unfolding the syntactic shape of S:
            setsum({}, w) = 0          setsum(S0 + {e}, w) = setsum(S0, w) + (0 if e in S0 else w(e))
        (identities of finite sums; every Python collection, hence every subset of one, is finite).  Two sums are equal
        when their sets and weight parameters are (congruence, array extensionality): no induction is available."""
        s, lam = args
        if not isinstance(lam, LambdaV) or len(lam.node.args.args) != 1:
            raise Unsupported(f'setsum(set, lambda x: weight) (line {line})')
        if isinstance(s, ValuesView) and s.what == 'keys':
            s = s.d
        ety = s.kty if isinstance(s, DictV) else getattr(s, 'ety', None)
        if not isinstance(s, (SymSet, SetV, DictV)) or ety is None or ety == ANY:
            raise Unsupported(f'setsum over {type(s).__name__} (line {line})')
        chi = as_array(self.set_chi(s))
        if isinstance(chi, EmptyChi):
            return 0
        so = sort_of(ety)
        self.ssdepth = getattr(self, 'ssdepth', 0) + 1
        saved = self.mode
        self.mode = SPEC
        try:
            x = z3.Const(f'x!ss{self.ssdepth}', so)
            wt = self.lift(self.call_lambda(lam, [self.wrap(x, ety)]))
        finally:
            self.mode = saved
            self.ssdepth -= 1
        if wt.sort() != I:
            raise Unsupported(f'setsum: the weight must be an int (line {line})')
        # lambda lifting of the weight
        dep, params, holes = {}, [], {}

        def depends(t):
            i = t.get_id()
            if i not in dep:
                if z3.is_quantifier(t):
                    raise Unsupported(f'setsum: quantifier inside the weight (line {line})')
                dep[i] = z3.eq(t, x) or any(depends(c) for c in t.children())
            return dep[i]

        def skeleton(t):
            if z3.eq(t, x) or z3.is_int_value(t) or z3.is_true(t) or z3.is_false(t):
                return t
            if not depends(t):
                i = t.get_id()
                if i not in holes:
                    holes[i] = z3.Const(f'p!{len(params)}', t.sort())
                    params.append(t)
                return holes[i]
            return t.decl()(*[skeleton(c) for c in t.children()])
        import hashlib
        sk = skeleton(wt)
        key = hashlib.md5((sk.sexpr() + '|' + ','.join(str(p_.sort()) for p_ in params)).encode()).hexdigest()[:10]
        f = z3.Function(f'setsum_{key}', chi.sort(), *[p_.sort() for p_ in params], I)

        def unfold(c, fuel):
            if z3.is_K(c) and z3.is_false(c.arg(0)):
                return z3.IntVal(0)
            if fuel and z3.is_store(c) and z3.is_true(c.arg(2)):
                s0, e = c.arg(0), c.arg(1)
                return unfold(s0, fuel - 1) + z3.If(s0[e], z3.IntVal(0), z3.substitute(wt, (x, e)))
            return f(c, *params)
        return SV(unfold(chi, 8), INT)
    def bi_duplicate_free(self, args, kw, line):
        """spec: duplicate_free(l) - the heap list l holds no element twice (forall a < b < len(l): l[a] != l[b]).
        The pairwise formula costs a quadratic number of instantiations (one per pair of index terms of the row); it is
        therefore DEFINED through a fresh Bool P with, for fresh symbols idx / a0 / b0,
            P      => forall j in range: idx(l[j]) == j        (an index function exists: one instance per index term)
            not P  => 0 <= a0 < b0 < len(l) and l[a0] == l[b0] (a witness pair)
        which fixes P <=> pairwise (conservative extension: idx, a0, b0 occur nowhere else).  Not available under a
        binder (the fresh symbols would have to depend on the bound variables)."""
        l = args[0]
        if not isinstance(l, ListV) or l.ref is None:
            raise Unsupported('duplicate_free(heap list)')
        if getattr(self, 'qdepth', 0) or self.generic_scopes:
            raise Unsupported('duplicate_free under a quantifier / comprehension binder')
        n = self.list_len(l)
        row = self.list_data(l)[1][l.ref]
        self.run.fresh_n += 1
        tag = self.run.fresh_n
        p = z3.Const(f'dupfree!{tag}', B)
        idx = z3.Function(f'dfidx!{tag}', sort_of(l.ety), I)
        a0, b0, j = z3.Const(f'dfa!{tag}', I), z3.Const(f'dfb!{tag}', I), z3.Const('j!df', I)
        self.run.assume(z3.Implies(p, z3.ForAll([j], z3.Implies(z3.And(0 <= j, j < n), idx(row[j]) == j),
                                                patterns=[row[j]])), silent=True)
        self.run.assume(z3.Or(p, z3.And(0 <= a0, a0 < b0, b0 < n, row[a0] == row[b0])), silent=True)
        return self.bool_value(p)

    def bi_order_len(self, args, kw, line):
        """spec: number of positions of the insertion order of dict d (= number of keys)"""
        d = args[0]
        self.dict_ordered_iter(d)    # assumes that the order ghost enumerates the keys
        return SV(self.dict_order(d)[3][d.ref], INT)

    def bi_key_at(self, args, kw, line):
        """spec: key_at(d, j) = the j-th key of dict d in insertion order (meaningful for 0 <= j < order_len(d))"""
        d, j = args
        self.dict_ordered_iter(d)
        return self.wrap(self.dict_order(d)[1][d.ref][self.lift(j)], d.kty, d.heap)

    def bi_is_alloc(self, args, kw, line):
        v = args[0]
        return self.bool_value(self.H(v).get('alloc', arr(Ref, B))[v.ref])

    def bi_was_fresh(self, args, kw, line):
        """object did not exist in the pre-state of the function under proof"""
        v = args[0]
        if isinstance(v, SymSet):
            return True     # a set value built by a comprehension / set(...) of this execution: not a pre-state object
        return self.bool_value(z3.Not(self.old_heap.get('alloc', arr(Ref, B))[v.ref]))

    def _effects_guard(self):
        if getattr(self, 'callee_clause', 0):
            raise EffectsInCalleeClause()

    def bi_effects(self, args, kw, line):
        self._effects_guard()
        return ConstSeq([ConstSeq([nme] + list(a), 'tuple') for nme, a in self.effects])

    def _loop_markers(self, names):
        from .loops import LoopEffects
        return [a for nme, a in self.effects[len(self.effects_base):]
                if isinstance(a, LoopEffects) and (not names or nme in names)]

    def bi_no_effect(self, args, kw, line):
        """no_effect() : the ghost effect log is empty;  no_effect('send_start_process', ...) : none of these.
        Effects declared for the other iterations of a symbolic loop (loop<K>_effects) count as 'possibly emitted';
        after a loop whose iterations emit UNDECLARED effects the answer is unknown."""
        if getattr(self, 'callee_clause', 0):
            # clause of a CALLEE assumed at a call site: its effect predicates are relative to the callee's own log; an
            # unconstrained Bool keeps the other conjuncts of the clause (sound: the proved clause holds for the real value)
            return SV(self.run.fresh('callee_no_effect', B), BOOL)
        unk = getattr(self, 'effects_unknown_names', set())
        if unk and (not args or unk & set(args)):
            # iterations of an earlier loop emitted such effects, which this path's log does not contain: unknown
            return SV(self.run.fresh('no_effect_unknown', B), BOOL)
        from .loops import LoopEffects
        mine = [(nme, a) for nme, a in self.effects[len(self.effects_base):] if not args or nme in args]
        if any(not isinstance(a, LoopEffects) for _, a in mine):
            return False
        if mine:
            return self.bool_value(self.conj([z3.Not(a.some) for _, a in mine]))
        return True

    def _effects_known(self, names=None):
        tag = getattr(self, 'effects_unknown', None)
        unk = getattr(self, 'effects_unknown_names', set())
        if tag and (names is None or unk & set(names)):
            raise Unsupported(f'effect query after {tag}, whose iterations emit effects: the effect log of this path does '
                              f'not contain them (state the per-iteration effects in loop<K>_iter)')

    def bi_count_effects(self, args, kw, line):
        self._effects_guard()
        self._effects_known(args)
        if self._loop_markers(args):
            raise Unsupported('count_effects of an effect emitted inside a loop over a symbolic collection')
        return sum(1 for nme, _ in self.effects[len(self.effects_base):] if nme in args)

    def bi_effect_at(self, args, kw, line):
        self._effects_guard()
        self._effects_known((args[0],))
        nme, k = args[0], args[1] if len(args) > 1 else 0
        if self._loop_markers((nme,)):
            raise Unsupported('effect_at of an effect emitted inside a loop over a symbolic collection')
        sel = [a for n2, a in self.effects[len(self.effects_base):] if n2 == nme]
        return tuple(sel[k]) if k < len(sel) else None

    def bi_effect_pre(self, args, kw, line):
        """effect_pre(name, k): view (like `old`) of the heap just BEFORE the k-th call that emitted effect `name` in this
        execution, for at(): `at(effect_pre('add_default_job', 0), p).forced_state` is what the callee could read,
        whatever that call and the later ones wrote.  Only for effects of callees under contract."""
        self._effects_guard()
        self._effects_known((args[0],))
        nme, k = args[0], args[1] if len(args) > 1 else 0
        if self._loop_markers((nme,)):
            raise Unsupported('effect_pre of an effect emitted inside a loop over a symbolic collection')
        sel = [e for e in self.effects[len(self.effects_base):] if e[0] == nme]
        heap = next((h for e, h in getattr(self, 'effect_heaps', []) if k < len(sel) and e is sel[k]), None)
        if heap is None:
            raise Unsupported(f'effect_pre({nme!r}, {k}): no such effect of a callee under contract on this path')
        return OldNS({}, heap)

    def bi_typed(self, args, kw, line):
        return args[0]

    def bi_at(self, args, kw, line):
        """at(old, v) / at(loop_old, v): the value v (object, collection, record) viewed in that earlier heap - for
        values that are not parameters, e.g. the bound variable of a quantifier over objects"""
        ns, v = args
        if not isinstance(ns, OldNS):
            raise Unsupported(f'at(): first argument must be old or loop_old (line {line})')
        return self.pin(v, ns.heap)

    def bi_now(self, args, kw, line):
        """now(v): the value v (object, collection, record) viewed in the CURRENT heap - for an element taken from a
        collection pinned to an earlier heap (the `seq` ghost of a loop over list(...), members of old.x), whose fields
        would otherwise be read in that earlier heap"""
        return self.pin(args[0], None)

    def bi_assume(self, args, kw, line):
        """assume(e): only inside a @lemma body - restricts the universally quantified parameters of the lemma"""
        if not getattr(self, 'in_lemma', False):
            raise Unsupported(f'assume() outside a @lemma body (line {line})')
        self.run.assume(self.as_bool(self.truthy(args[0])))
        return None
    def bi_narrow(self, args, kw, line):
        """narrow(obj, Class): the same object viewed with a more precise static class (specifications only; the clause
        guards it with `type(obj) is Class` / isinstance)"""
        obj, c = args
        if not isinstance(obj, ObjV) or not isinstance(c, ClassV):
            raise Unsupported('narrow(object, Class)')
        return ObjV(obj.ref, c.name, obj.heap)

    def _ghost(self, args, rng, ty):
        """ghost_bool('name', x, ...) / ghost_int('name', x, ...): uninterpreted (specification-only) function of its
        arguments; contracts give it a meaning through defining clauses"""
        name, vals = args[0], args[1:]
        if not isinstance(name, str):
            raise Unsupported('ghost function name must be a literal')
        ts = [self.lift(v) for v in vals]
        f = z3.Function('ghost:' + name, *[t.sort() for t in ts], rng)
        return SV(f(*ts), ty)

    def bi_ghost_bool(self, args, kw, line):
        return self._ghost(args, B, BOOL)

    def bi_ghost_int(self, args, kw, line):
        return self._ghost(args, I, INT)
    def type_designator(self, d):
        """str / int / bool / float, an enum or repo class, or an annotation string -> type"""
        if isinstance(d, Builtin) and d.name in ('str', 'int', 'float', 'bool'):
            return {'str': STR, 'int': INT, 'float': REAL, 'bool': BOOL}[d.name]
        if isinstance(d, ClassV):
            return TEnum(d.name) if self.ts.is_enum_class(d.name) else TObj(d.name)
        if isinstance(d, str):
            return self.ts.ann_to_type(ast.parse(d, mode='eval').body, 'ttypes')
        raise Unsupported(f'type designator {d!r:.40}')

    def bi_uf(self, args, kw, line):
        """uf('name', type, *args): application of an uninterpreted function symbol; used by assumed external
        contracts to say that a result is a (deterministic) function of the arguments, and by specifications to name
        that value"""
        name, d, *xs = args
        if not isinstance(name, str):
            raise Unsupported('uf() needs a literal name')
        ty = self.type_designator(d)
        terms = [self.lift(x) for x in xs]
        f = z3.Function('uf_' + name, *([t.sort() for t in terms] + [sort_of(ty)]))
        t = f(*terms)
        if is_ref_type(ty):
            self.run.assume(self.ref_valid_term(t, ty, self.heap), silent=True)
        v = self.wrap(t, ty)
        if isinstance(v, SV):
            self.assume_domain(v)
        return v

    def bi_same(self, args, kw, line):
        """same(a, b): a and b are the same scalar value (for fp64: bitwise the same datum, so same(nan, nan) holds while
        nan == nan does not) or the same object (containers, instances)"""
        a, b = args
        if self.is_fp(a) or self.is_fp(b):
            ta, tb = self.fp_terms(a, b)
            return self.bool_value(ta == tb)
        if isinstance(a, HeapVal) and isinstance(b, HeapVal):
            return self.bool_value(a.ref == b.ref)      # the same object
        if isinstance(a, tuple) and isinstance(b, tuple) and len(a) == len(b):
            return self.bool_value(self.conj([self.as_bool(self.truthy(self.bi_same([x, y], {}, line))) for x, y in zip(a, b)]))
        return self.bool_value(self.eq(a, b))

    def bi_old_heap(self, args, kw, line):
        """old_heap(v): the heap value v viewed in the pre-state of the function under proof"""
        return self.pin(args[0], self.old_heap)
