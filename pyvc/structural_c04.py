"""C04 structural obligations (AST scans over the current /repo tree):
  * single emission site: rpc_handler.send_start_process is called only from ProcessStartCommand.start, and .start() of a
    start command only from ApplicationStartJobs.process_job;
  * single writer of mapper.nodes: SupvisorsMapper.identify (the invariant of get_nodes_load is proved over it)."""
import ast
from .props import obligation


def _enclosing(mod):
    """yield (qualified function name, call/attribute node) for every node of the module"""
    for top in mod.tree.body:
        if isinstance(top, ast.ClassDef):
            for item in top.body:
                if isinstance(item, ast.FunctionDef):
                    for n in ast.walk(item):
                        yield f'{top.name}.{item.name}', n
        elif isinstance(top, ast.FunctionDef):
            for n in ast.walk(top):
                yield top.name, n


def run(world, tier, out):
    senders, starters, node_writers = set(), set(), set()
    for mname, mod in world.ct.modules.items():
        if getattr(mod, 'external', False) or mname.startswith('contracts'):
            continue
        for fn, n in _enclosing(mod):
            if isinstance(n, ast.Call) and isinstance(n.func, ast.Attribute):
                if n.func.attr == 'send_start_process':
                    senders.add(f'{mname}:{fn}')
                if n.func.attr == 'start' and not n.args and isinstance(n.func.value, ast.Name) and n.func.value.id == 'command':
                    starters.add(f'{mname}:{fn}')
                # writes through mapper.nodes: .setdefault / .append / .pop / .clear / .update on an expression over `.nodes`
                if n.func.attr in ('setdefault', 'pop', 'clear', 'update', '__setitem__') and 'nodes' in ast.unparse(n.func.value).split('.')[-1:]:
                    node_writers.add(f'{mname}:{fn}')
            if isinstance(n, (ast.Assign, ast.AugAssign, ast.Delete)):
                tgts = n.targets if isinstance(n, (ast.Assign, ast.Delete)) else [n.target]
                for t in tgts:
                    if isinstance(t, ast.Subscript) and ast.unparse(t.value).endswith('.nodes'):
                        node_writers.add(f'{mname}:{fn}')
                    if isinstance(t, ast.Attribute) and t.attr == 'nodes' and fn.split('.')[-1] != '__init__':
                        node_writers.add(f'{mname}:{fn}')
    senders.discard('internal_com.rpchandler:RpcHandler.send_start_process')
    ok1 = senders == {'commander:ProcessStartCommand.start'}
    out['obligations'].append(obligation('struct:send_start_process-single-call-site', ok1, f'callers: {sorted(senders)}'))
    ok2 = starters == {'commander:ApplicationStartJobs.process_job'}
    out['obligations'].append(obligation('struct:start-command-only-from-process_job', ok2, f'callers: {sorted(starters)}'))
    ok3 = node_writers == {'internal_com.mapper:SupvisorsMapper.identify'}
    out['obligations'].append(obligation('struct:mapper.nodes-single-writer', ok3, f'writers: {sorted(node_writers)}'))
    # the cap must count ALL the starts already requested (statement: 'plus the starts already requested there'): the
    # request map passed to get_supvisors_instance by process_job has to come from the Starter (all application jobs),
    # not from this application job alone
    src = None
    fi = world.ct.function('commander:ApplicationStartJobs.process_job')
    assigned = {}
    for n in ast.walk(fi.node):
        if isinstance(n, ast.Assign) and len(n.targets) == 1 and isinstance(n.targets[0], ast.Name):
            assigned[n.targets[0].id] = ast.unparse(n.value)
    for n in ast.walk(fi.node):
        if isinstance(n, ast.Call) and isinstance(n.func, ast.Name) and n.func.id == 'get_supvisors_instance' and len(n.args) >= 5:
            a = n.args[4]
            src = assigned.get(a.id, a.id) if isinstance(a, ast.Name) else ast.unparse(a)
    ok4 = src is not None and 'starter.get_load_requests()' in src
    out['obligations'].append(obligation('struct:process_job-counts-all-pending-requests', ok4,
                                         f'load_request_map passed to get_supvisors_instance = {src}',
                                         function='commander:ApplicationStartJobs.process_job'))
    out['structural'].extend(['process_job request map source', 'send_start_process single call site', 'command.start() single call site',
                              'mapper.nodes single writer'])
