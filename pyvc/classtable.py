"""Class table extracted mechanically from the *current* /repo working tree with ast.parse.

Nothing of the code under proof is imported: classes, functions, module constants, field annotations, MROs are
all read from the source text on every run.  Evidence carries file, line span and sha256 of every function that
is executed symbolically.
"""
import ast
import hashlib
import os

REPO = os.environ.get('VERIF_REPO', '/repo')
SUPERVISOR_DIR = None  # resolved lazily


def _supervisor_dir():
    global SUPERVISOR_DIR
    if SUPERVISOR_DIR is None:
        for cand in ('/venv/lib/python3.12/site-packages/supervisor',):
            if os.path.isdir(cand):
                SUPERVISOR_DIR = cand
        if SUPERVISOR_DIR is None:
            import supervisor
            SUPERVISOR_DIR = os.path.dirname(supervisor.__file__)
    return SUPERVISOR_DIR


class FuncInfo:
    def __init__(self, node, module, cls=None, kind='plain'):
        self.node, self.module, self.cls, self.kind = node, module, cls, kind
        self.name = node.name

    @property
    def qualname(self):
        return f'{self.module}:{self.cls + "." if self.cls else ""}{self.name}' + (
            '' if self.kind in ('plain', 'static', 'classmethod') else f'[{self.kind}]')

    def span(self):
        return self.node.lineno, self.node.end_lineno

    def __repr__(self):
        return f'<Func {self.qualname}>'


class ClassInfo:
    def __init__(self, name, module, node):
        self.name, self.module, self.node = name, module, node
        self.bases = []
        for b in node.bases:
            if isinstance(b, ast.Name):
                self.bases.append(b.id)
            elif isinstance(b, ast.Attribute):
                self.bases.append(b.attr)
        self.methods = {}      # name -> FuncInfo (plain/static/classmethod)
        self.getters = {}      # name -> FuncInfo
        self.setters = {}
        self.class_assigns = {}   # name -> value AST (unannotated class-level assignment)
        self.class_ann = {}       # name -> (annotation AST, value AST or None)
        self.self_ann = {}        # name -> annotation AST found in `self.x: T = ...`
        self.self_assigned = set()  # names assigned through self.x = ... in any method
        self.defines_eq = False
        self.is_enum = 'Enum' in self.bases

    def __repr__(self):
        return f'<Class {self.module}:{self.name}>'


class Module:
    def __init__(self, name, path, tree, src):
        self.name, self.path, self.tree, self.src = name, path, tree, src
        self.imports = {}     # local name -> ('module', modname) | ('from', modname, origname)
        self.assigns = {}     # name -> value AST
        self.functions = {}   # name -> FuncInfo
        self.classes = {}     # name -> ClassInfo
        self.lines = src.splitlines()
        self.star_imports = []


class ClassTable:
    def __init__(self, repo=None):
        self.repo = repo or REPO
        self.modules = {}
        self.classes = {}
        self.duplicates = []
        self._load_repo()
        self._load_external()

    # ---------------------------------------------------------------- loading
    def _load_repo(self):
        base = os.path.join(self.repo, 'supvisors')
        for sub, prefix in (('', ''), ('internal_com', 'internal_com.'), ('external_com', 'external_com.')):
            d = os.path.join(base, sub)
            for fn in sorted(os.listdir(d)):
                if fn.endswith('.py') and fn not in ('__init__.py', 'supvisorsctl.py'):
                    self._load(prefix + fn[:-3], os.path.join(d, fn))

    def _load_external(self):
        sd = _supervisor_dir()
        for m in ('states', 'xmlrpc'):
            p = os.path.join(sd, m + '.py')
            if os.path.exists(p):
                self._load('supervisor.' + m, p, external=True)

    def _load(self, name, path, external=False):
        src = open(path, encoding='utf-8').read()
        tree = ast.parse(src, filename=path)
        mod = Module(name, path, tree, src)
        mod.external = external
        self.modules[name] = mod
        for node in tree.body:
            self._top(mod, node)

    def _top(self, mod, node):
        if isinstance(node, ast.Import):
            for a in node.names:
                mod.imports[a.asname or a.name.split('.')[0]] = ('module', a.name if a.asname else a.name.split('.')[0])
        elif isinstance(node, ast.ImportFrom):
            src = node.module or ''
            if node.level:   # relative import inside supvisors
                pkg = mod.name.rsplit('.', 1)[0] + '.' if ('.' in mod.name and node.level == 1) else ''
                src = pkg + src if node.level == 1 else src
            for a in node.names:
                if a.name == '*':
                    mod.star_imports.append(src[len('supvisors.'):] if src.startswith('supvisors.') else src)
                else:
                    mod.imports[a.asname or a.name] = ('from', src, a.name)
        elif isinstance(node, ast.Assign):
            for t in node.targets:
                if isinstance(t, ast.Name):
                    mod.assigns[t.id] = node.value
        elif isinstance(node, ast.AnnAssign) and isinstance(node.target, ast.Name) and node.value is not None:
            mod.assigns[node.target.id] = node.value
        elif isinstance(node, ast.FunctionDef):
            mod.functions[node.name] = FuncInfo(node, mod.name)
        elif isinstance(node, ast.ClassDef):
            ci = self._class(mod, node)
            mod.classes[node.name] = ci
            if node.name in self.classes and not mod.external:
                self.duplicates.append(node.name)
            if node.name not in self.classes or not mod.external:
                self.classes[node.name] = ci
        elif isinstance(node, (ast.If, ast.Try)):
            for sub in getattr(node, 'body', []):
                self._top(mod, sub)

    def _class(self, mod, node):
        ci = ClassInfo(node.name, mod.name, node)
        for item in node.body:
            if isinstance(item, ast.FunctionDef):
                decos = [ast.unparse(d) for d in item.decorator_list]
                if 'property' in decos:
                    ci.getters[item.name] = FuncInfo(item, mod.name, node.name, 'getter')
                elif any(d.endswith('.setter') for d in decos):
                    ci.setters[item.name] = FuncInfo(item, mod.name, node.name, 'setter')
                elif 'staticmethod' in decos:
                    ci.methods[item.name] = FuncInfo(item, mod.name, node.name, 'static')
                elif 'classmethod' in decos:
                    ci.methods[item.name] = FuncInfo(item, mod.name, node.name, 'classmethod')
                else:
                    ci.methods[item.name] = FuncInfo(item, mod.name, node.name, 'plain')
                if item.name in ('__eq__', '__hash__'):
                    ci.defines_eq = True
                for sub in ast.walk(item):
                    tgt = None
                    if isinstance(sub, ast.AnnAssign):
                        tgt = sub.target
                        if (isinstance(tgt, ast.Attribute) and isinstance(tgt.value, ast.Name)
                                and tgt.value.id == 'self'):
                            ci.self_ann.setdefault(tgt.attr, sub.annotation)
                            ci.self_assigned.add(tgt.attr)
                    elif isinstance(sub, (ast.Assign, ast.AugAssign)):
                        tgts = sub.targets if isinstance(sub, ast.Assign) else [sub.target]
                        for t in tgts:
                            for tt in (t.elts if isinstance(t, ast.Tuple) else [t]):
                                if (isinstance(tt, ast.Attribute) and isinstance(tt.value, ast.Name)
                                        and tt.value.id == 'self'):
                                    ci.self_assigned.add(tt.attr)
            elif isinstance(item, ast.Assign):
                for t in item.targets:
                    if isinstance(t, ast.Name):
                        ci.class_assigns[t.id] = item.value
                    elif isinstance(t, ast.Tuple):   # A, B, C = range(3)  (enums)
                        ci.class_assigns[tuple(e.id for e in t.elts)] = item.value
            elif isinstance(item, ast.AnnAssign) and isinstance(item.target, ast.Name):
                ci.class_ann[item.target.id] = (item.annotation, item.value)
        return ci

    # ---------------------------------------------------------------- queries
    def mro(self, cname):
        out, seen = [], set()

        def rec(n):
            if n in seen or n not in self.classes:
                return
            seen.add(n)
            out.append(n)
            for b in self.classes[n].bases:
                rec(b)
        rec(cname)
        return out

    def is_subclass(self, c, base):
        return base in self.mro(c) or (c == base)

    def subclasses(self, base):
        return [c for c in self.classes if base in self.mro(c)]

    def find_method(self, cname, mname, after=None):
        """Resolve mname in the MRO of cname; with after=<class>, start after that class (super())."""
        mro = self.mro(cname)
        if after is not None:
            mro = mro[mro.index(after) + 1:] if after in mro else []
        for c in mro:
            ci = self.classes[c]
            if mname in ci.methods:
                return ci.methods[mname]
        return None

    def find_getter(self, cname, name):
        for c in self.mro(cname):
            if name in self.classes[c].getters:
                return self.classes[c].getters[name]
        return None

    def find_setter(self, cname, name):
        for c in self.mro(cname):
            if name in self.classes[c].setters:
                return self.classes[c].setters[name]
        return None

    def find_class_const(self, cname, name):
        """Unannotated class-level assignment (class constant), resolved through the MRO.
        Returns (defining class, value AST) or None."""
        for c in self.mro(cname):
            ci = self.classes[c]
            if name in ci.class_assigns:
                return c, ci.class_assigns[name]
            for k, v in ci.class_assigns.items():
                if isinstance(k, tuple) and name in k:
                    return c, ('tuple_member', k.index(name), v)
        return None

    def field_annotation(self, cname, fname):
        """annotation AST of a field (self.x: T / class-level x: T), with the module where it is written."""
        for c in self.mro(cname):
            ci = self.classes[c]
            if fname in ci.self_ann:
                return ci.self_ann[fname], ci.module
            if fname in ci.class_ann:
                return ci.class_ann[fname][0], ci.module
        return None

    def is_field(self, cname, fname):
        for c in self.mro(cname):
            ci = self.classes[c]
            if fname in ci.self_ann or fname in ci.class_ann or fname in ci.self_assigned:
                return True
        # assigned in a subclass through self.x (e.g. pickup_logic set in __init__ of a subclass)
        return False

    def is_instance_assigned(self, cname, fname):
        """fname is written through self.<fname> somewhere in the hierarchy of cname (above or below)"""
        for c in set(self.mro(cname)) | set(self.subclasses(cname)):
            ci = self.classes[c]
            if fname in ci.self_ann or fname in ci.self_assigned:
                return True
        return False

    def class_default(self, cname, fname):
        for c in self.mro(cname):
            ci = self.classes[c]
            if fname in ci.class_ann and ci.class_ann[fname][1] is not None:
                return ci.class_ann[fname][1], ci.module
            if fname in ci.class_assigns:
                return ci.class_assigns[fname], ci.module
        return None

    def function(self, qualname):
        """'module:Class.method', 'module:Class.prop[getter]', 'module:func'."""
        modname, rest = qualname.split(':')
        kind = 'plain'
        if rest.endswith(']'):
            rest, kind = rest[:-1].split('[')
        mod = self.modules[modname]
        if '.' in rest:
            cname, fname = rest.split('.')
            ci = mod.classes[cname]
            table = {'plain': ci.methods, 'getter': ci.getters, 'setter': ci.setters}[kind]
            return table[fname]
        return mod.functions[rest]

    def source_info(self, fi):
        mod = self.modules[fi.module]
        a, b = fi.span()
        seg = '\n'.join(mod.lines[a - 1:b])
        return {'function': fi.qualname, 'file': mod.path, 'lines': [a, b],
                'sha256': hashlib.sha256(seg.encode()).hexdigest()}

    def resolve_import(self, modname, name):
        """follow `from x import name` chains to (module, name) where it is defined, if that module is loaded."""
        seen = set()
        while (modname, name) not in seen:
            seen.add((modname, name))
            mod = self.modules.get(modname)
            if mod is None:
                return modname, name
            if name in mod.classes or name in mod.functions or name in mod.assigns:
                return modname, name
            imp = mod.imports.get(name)
            if imp is None:
                for sm in mod.star_imports:
                    m2 = self.modules.get(sm)
                    if m2 is not None and (name in m2.classes or name in m2.functions or name in m2.assigns):
                        return sm, name
            if imp and imp[0] == 'from':
                src = imp[1]
                if src.startswith('supvisors.'):
                    src = src[len('supvisors.'):]
                modname, name = src, imp[2]
            else:
                return modname, name
        return modname, name
