"""pyvc core: types, symbolic values, heap, path runner (decisions, assumptions, obligations)."""
import time
import z3

# ------------------------------------------------------------------------------------------------ sorts
Ref = z3.DeclareSort('Ref')
Str = z3.DeclareSort('Str')
NULL = z3.Const('null', Ref)
STR_NONE = z3.Const('str_none', Str)      # representation of None inside Optional[str]
STR_EMPTY = z3.Const('str_empty', Str)        # the literal ''
str_rank = z3.Function('str_rank', Str, z3.IntSort())   # injective rank giving the lexicographic order of str
class_of = z3.Function('class_of', Ref, z3.IntSort())   # dynamic class id of an object reference
kind_of = z3.Function('kind_of', Ref, z3.IntSort())    # 1 object, 2 list, 3 set, 4 dict, 5 payload record
KINDS = {'obj': 1, 'list': 2, 'set': 3, 'dict': 4, 'rec': 5}

_OPT_SORTS = {}


def opt_sort(base):
    key = str(base)
    if key not in _OPT_SORTS:
        d = z3.Datatype('Opt_' + key)
        d.declare('none')
        d.declare('some', ('v', base))
        _OPT_SORTS[key] = d.create()
    return _OPT_SORTS[key]


_TUP_SORTS = {}


def tup_sort(sorts):
    key = ','.join(str(s) for s in sorts)
    if key not in _TUP_SORTS:
        d = z3.Datatype('Tup_' + key.replace(',', '_').replace(' ', ''))
        d.declare('mk', *[(f'f{i}', s) for i, s in enumerate(sorts)])
        _TUP_SORTS[key] = d.create()
    return _TUP_SORTS[key]


# ------------------------------------------------------------------------------------------------ types
class Ty:
    kind = '?'

    def __eq__(self, o):
        return type(self) is type(o) and self.key() == o.key()

    def __hash__(self):
        return hash((type(self).__name__, self.key()))

    def key(self):
        return ()

    def __repr__(self):
        k = self.key()
        return type(self).__name__ + (repr(k) if k else '')


class TPrim(Ty):
    def __init__(self, name):
        self.name = name

    def key(self):
        return self.name

    def __repr__(self):
        return self.name


INT, BOOL, REAL, STR, NONE, ANY = (TPrim(n) for n in ('int', 'bool', 'float', 'str', 'None', 'Any'))
# IEEE-754 binary64 value (NaN and infinities exist, comparisons follow IEEE): only for values parsed by float() whose
# range is then checked by comparisons (option conversion); no arithmetic
FP64 = TPrim('fp64')


class TEnum(Ty):
    """Python Enum subclass (index in member order) or a plain class of int constants (value itself)."""

    def __init__(self, name):
        self.name = name

    def key(self):
        return self.name


class TObj(Ty):
    def __init__(self, cls):
        self.cls = cls

    def key(self):
        return self.cls


class TOpt(Ty):
    def __init__(self, t):
        self.t = t

    def key(self):
        return self.t


class TList(Ty):
    def __init__(self, t):
        self.t = t

    def key(self):
        return self.t


class TSet(Ty):
    def __init__(self, t):
        self.t = t

    def key(self):
        return self.t


class TDict(Ty):
    def __init__(self, k, v):
        self.k, self.v = k, v

    def key(self):
        return (self.k, self.v)


class TTuple(Ty):
    def __init__(self, ts):
        self.ts = tuple(ts)

    def key(self):
        return self.ts


class TRec(Ty):
    """str-keyed payload dict with literal keys (one heap field per key + presence flag)."""

    def key(self):
        return 'Payload'


class TFun(Ty):
    pass


REC = TRec()


def is_ref_type(ty):
    return isinstance(ty, (TObj, TList, TSet, TDict, TRec)) or (isinstance(ty, TOpt) and is_ref_type(ty.t))


def sort_of(ty):
    if ty == INT or isinstance(ty, TEnum):
        return z3.IntSort()
    if ty == BOOL:
        return z3.BoolSort()
    if ty == REAL:
        return z3.RealSort()
    if ty == FP64:
        return z3.Float64()
    if ty == STR:
        return Str
    if isinstance(ty, (TObj, TList, TSet, TDict, TRec)):
        return Ref
    if isinstance(ty, TOpt):
        if is_ref_type(ty.t):
            return Ref
        if ty.t == STR:
            return Str
        if isinstance(ty.t, TOpt):
            return sort_of(ty.t)
        return opt_sort(sort_of(ty.t))
    if isinstance(ty, TTuple):
        return tup_sort([sort_of(t) for t in ty.ts])
    raise Unsupported(f'no SMT sort for type {ty}')


class Unsupported(Exception):
    """The engine met something outside its subset: reported as an engine error for that function, never skipped."""


class SpeculationFailed(Exception):
    """non-forking evaluation attempt had to be abandoned (would fork, write the heap, or is not provably safe)"""


class EffectsInCalleeClause(Exception):
    """a clause of a callee's contract reads the ghost effect log while being assumed at a call site"""


class Infeasible(Exception):
    """Current path condition is unsatisfiable: path abandoned."""


# ------------------------------------------------------------------------------------------------ values
class SV:
    """Symbolic scalar value: z3 term + type (INT, BOOL, REAL, STR, TEnum, TOpt(scalar), TTuple)."""
    __slots__ = ('t', 'ty', 'heap')

    def __init__(self, t, ty):
        self.t, self.ty = t, ty
        self.heap = None    # Optional[reference] values: the heap view (old / loop_old) they were read from

    def __repr__(self):
        return f'SV({self.t}:{self.ty})'


class EnumMember:
    __slots__ = ('cls', 'name', 'index', 'value')

    def __init__(self, cls, name, index, value):
        self.cls, self.name, self.index, self.value = cls, name, index, value

    def __repr__(self):
        return f'{self.cls}.{self.name}'

    def __eq__(self, o):
        return isinstance(o, EnumMember) and o.cls == self.cls and o.name == self.name

    def __hash__(self):
        return hash((self.cls, self.name))


class HeapVal:
    """Reference-typed value; `heap` (if set) pins reads to a heap snapshot (old-state views in specs)."""
    __slots__ = ('ref', 'heap')


class ObjV(HeapVal):
    __slots__ = ('cls',)

    def __init__(self, ref, cls, heap=None):
        self.ref, self.cls, self.heap = ref, cls, heap

    def __repr__(self):
        return f'Obj<{self.cls}>({self.ref})'


class ListV(HeapVal):
    __slots__ = ('ety', 'known')

    def __init__(self, ref, ety, heap=None, known=None):
        self.ref, self.ety, self.heap, self.known = ref, ety, heap, known

    def __repr__(self):
        return f'List[{self.ety}]({self.ref})'


class SetV(HeapVal):
    __slots__ = ('ety',)

    def __init__(self, ref, ety, heap=None):
        self.ref, self.ety, self.heap = ref, ety, heap

    def __repr__(self):
        return f'Set[{self.ety}]({self.ref})'


class DictV(HeapVal):
    __slots__ = ('kty', 'vty')

    def __init__(self, ref, kty, vty, heap=None):
        self.ref, self.kty, self.vty, self.heap = ref, kty, vty, heap

    def __repr__(self):
        return f'Dict[{self.kty},{self.vty}]({self.ref})'


class RecV(HeapVal):
    def __init__(self, ref, heap=None):
        self.ref, self.heap = ref, heap

    def __repr__(self):
        return f'Rec({self.ref})'


class ConstDict:
    """dict literal with concrete (hashable) keys, e.g. class-level transition tables; immutable use only."""

    def __init__(self, items):
        self.items = items   # list of (key value, value)


class ConstSeq:
    """Immutable python-level sequence of values of known length (list literal / tuple / range / list(const))."""

    def __init__(self, items, kind='list'):
        self.items, self.kind = list(items), kind

    def __repr__(self):
        return f'ConstSeq{self.items}'


class ZipV:
    """zip(l1, ..., ln) of heap lists, not yet consumed: a sequence of length min(len li) whose element i is the tuple
    (l1[i], ..., ln[i]); only iterated (for-loop with invariant, comprehension, quantifier), read in the current heap"""

    def __init__(self, lists):
        self.lists = list(lists)


class CompV:
    """list / dict comprehension over a symbolic collection whose element is a *literal of fresh lists* (`[[] for _ in xs]`,
    `{k: ([], [[], []]) for k in d}`, `[[x] for x in xs]`): kept python-level until the declared type of its destination
    is known (materialize), then allocated in bulk: one Skolem function per literal list (seqs.bulk_materialize)"""

    def __init__(self, kind, var, guard, elt, coll):
        self.kind, self.var, self.guard, self.elt, self.coll = kind, var, guard, elt, coll


class ValuesView:
    def __init__(self, d, what):
        self.d, self.what = d, what   # what in values/keys/items


class OrdIter:
    """marker: a dict (view) being enumerated by position in its insertion order (bound variable = position)"""

    def __init__(self, coll):
        self.coll = coll


class SymSet:
    """functional (non-heap) set given by its characteristic array; result of set comprehensions."""

    def __init__(self, arr, ety):
        self.arr, self.ety = arr, ety


class FnChi:
    """characteristic function of a set given by a defining formula over a z3 variable (no array, no axiom);
    indexing substitutes; to_array() materialises it when an array term is really needed"""

    def __init__(self, eng, var, body):
        self.eng, self.var, self.body = eng, var, body
        self._arr = None

    def __getitem__(self, x):
        if self._arr is not None:
            return self._arr[x]
        return z3.substitute(self.body, (self.var, x))

    def to_array(self):
        if self._arr is None:
            self._arr = self.eng.def_array([self.var], self.body)
        return self._arr


class EmptyChi:
    def __getitem__(self, x):
        return z3.BoolVal(False)


def as_array(chi):
    return chi.to_array() if isinstance(chi, FnChi) else chi


class GenV:
    def __init__(self, node, frame):
        self.node, self.frame = node, frame


class LambdaV:
    def __init__(self, node, frame):
        self.node, self.frame = node, frame


class BoundMethod:
    def __init__(self, selfv, fi, via_super=False):
        self.selfv, self.fi = selfv, fi


class FuncV:
    def __init__(self, fi):
        self.fi = fi


class ClassV:
    def __init__(self, name):
        self.name = name

    def __repr__(self):
        return f'<class {self.name}>'

    def __eq__(self, o):
        return isinstance(o, ClassV) and o.name == self.name

    def __hash__(self):
        return hash(('ClassV', self.name))


class ModuleV:
    def __init__(self, name):
        self.name = name


class TypeOfV:
    """type(v) where the dynamic type of v is not known statically (object reference that is not exact, Optional
    scalar): only compared (`is` / `==`) against classes, which yields a term over class_of / the None test"""

    def __init__(self, v):
        self.v = v

    def __repr__(self):
        return f'type({self.v!r})'


class Builtin:
    def __init__(self, name, selfv=None):
        self.name, self.selfv = name, selfv

    def __repr__(self):
        return f'<builtin {self.name}>'


class LoggerV:
    pass


class ExcV:
    """exception instance (class name + args)"""

    def __init__(self, cls, args=()):
        self.cls, self.args = cls, args

    def __repr__(self):
        return f'{self.cls}{self.args}'


class SuperV:
    def __init__(self, selfv, after):
        self.selfv, self.after = selfv, after


class OldNS:
    """`old` namespace in postconditions: old.<param> is the parameter viewed in the pre-state heap."""

    def __init__(self, frame_vars, heap):
        self.vars, self.heap = frame_vars, heap


# control flow
class ReturnEx(Exception):
    def __init__(self, value):
        self.value = value


class BreakEx(Exception):
    pass


class ContinueEx(Exception):
    pass


class PyRaise(Exception):
    def __init__(self, exc, lineno=0, implicit=False):
        self.exc, self.lineno, self.implicit = exc, lineno, implicit


# ------------------------------------------------------------------------------------------------ heap
class Heap:
    """name -> z3 array term. Arrays are created lazily; a havoc (modular call) starts a new epoch and relates
    lazily created arrays of the new epoch to the previous one outside the callee's modifies set."""

    def __init__(self, runner):
        self.runner = runner
        self.arr = {}
        self.sorts = {}
        self.epochs = []     # list of (epoch index, alloc array before, allowed(name) -> None|'all'|pred)
        self.base = {}       # name -> list of per-epoch base terms
        self.log = {}        # name -> list of write events since the log was last reset: ('store', ref) |
        #                      ('havoc', allowed result for that array) | ('unknown',)

    def snapshot(self):
        h = Heap.__new__(Heap)
        h.runner, h.arr, h.sorts, h.epochs, h.base = self.runner, dict(self.arr), self.sorts, list(self.epochs), self.base
        h.log = {}
        return h

    def _initial(self, name, sort, upto):
        """base term of array `name` after `upto` havoc epochs"""
        chain = self.base.setdefault(name, [])
        if not chain:
            chain.append(z3.Const(f'{name}@0', sort))
        while len(chain) <= upto:
            e = len(chain)
            idx, alloc_before, allowed = self.epochs[e - 1]
            prev = chain[e - 1]
            a = allowed(name)
            if a is None:
                chain.append(prev)
            else:
                self.log.setdefault(name, []).append(('havoc', a))
                new = z3.Const(f'{name}@{e}', sort)
                if a != 'all':
                    r = z3.Const('r!frame', Ref)
                    self.runner.assume(z3.ForAll([r], z3.Implies(z3.And(alloc_before[r], z3.Not(a(r))),
                                                               new[r] == prev[r])), silent=True)
                chain.append(new)
        return chain[upto]

    def get(self, name, sort=None):
        if name not in self.arr:
            if sort is None:
                sort = self.sorts[name]
            self.sorts[name] = sort
            self.arr[name] = self._initial(name, sort, len(self.epochs))
        return self.arr[name]

    def set(self, name, term):
        self.sorts.setdefault(name, term.sort())
        cur = self.arr.get(name)
        if cur is not None and z3.is_app(term) and term.decl().kind() == z3.Z3_OP_STORE and term.arg(0).eq(cur):
            self.log.setdefault(name, []).append(('store', term.arg(1)))
        elif cur is None or not term.eq(cur):
            self.log.setdefault(name, []).append(('unknown',))
        self.arr[name] = term

    def havoc(self, allowed):
        """new epoch: every array possibly modified by a callee is replaced (lazily) by a fresh one."""
        alloc_before = self.get('alloc', z3.ArraySort(Ref, z3.BoolSort()))
        names = list(self.arr.keys())
        cur = dict(self.arr)
        self.epochs.append((len(self.epochs), alloc_before, allowed))
        e = len(self.epochs)
        self.arr = {}
        for n in names:
            a = allowed(n)
            chain = self.base.setdefault(n, [z3.Const(f'{n}@0', self.sorts[n])])
            # pad chain so that index e exists and refers to the *current* term (cur[n]) as predecessor
            while len(chain) < e:
                chain.append(chain[-1])
            if a is None:
                new = cur[n]
            else:
                new = z3.Const(f'{n}@{e}', self.sorts[n])
                if a != 'all':
                    r = z3.Const('r!frame', Ref)
                    self.runner.assume(z3.ForAll([r], z3.Implies(z3.And(alloc_before[r], z3.Not(a(r))),
                                                               new[r] == cur[n][r])), silent=True)
            chain.append(new)
            self.arr[n] = new
            if a is not None:
                self.log.setdefault(n, []).append(('havoc', a))
        self.pending_havocs = getattr(self, 'pending_havocs', [])
        # allocation only grows
        if 'alloc' in self.arr:
            r = z3.Const('r!frame', Ref)
            self.runner.assume(z3.ForAll([r], z3.Implies(alloc_before[r], self.arr['alloc'][r])), silent=True)


# ------------------------------------------------------------------------------------------------ obligations
class Obligation:
    def __init__(self, name, kind, verdict, seconds, backend, line=0, detail='', model=None, path=None):
        self.name, self.kind, self.verdict, self.seconds, self.backend = name, kind, verdict, seconds, backend
        self.line, self.detail, self.model, self.path = line, detail, model, path

    def to_json(self):
        d = {'name': self.name, 'kind': self.kind, 'verdict': self.verdict, 'seconds': round(self.seconds, 4),
             'backend': self.backend}
        if self.detail:
            d['detail'] = self.detail
        if self.model:
            d['model'] = self.model
        if getattr(self, 'second', None):
            d['cvc5'] = self.second
        return d


def _verdict(r):
    return 'refuted' if r == z3.sat else ('discharged' if r == z3.unsat else 'undecided')


import os as _os
TRACE = bool(_os.environ.get('PYVC_TRACE'))


class Budget:
    feas_ms = 60
    obl_ms = 10000


class PathRunner:
    """Runs one function along all its paths by re-execution with a recorded list of branch decisions."""

    def __init__(self, budget=None):
        self.budget = budget or Budget()
        self.worklist = [[]]
        self.n_undecided = 0
        self.obligations = {}       # (name, prefix) -> Obligation
        self.paths = 0
        self.infeasible_paths = 0
        self.solver_seconds = 0.0
        self.queries = 0
        self.unknown_feas = 0
        self.refuted_names = set()
        self.str_consts = []

    # ---- per path
    def start_path(self, decisions):
        self.decisions = list(decisions)
        self.pos = 0
        self.solver = z3.Solver()
        self.solver.set('timeout', self.budget.feas_ms)
        self.pc = []
        self.fresh_n = 0
        self.path_notes = []
        self.scopes = []
        self.persistent = set()
        self.no_fork = 0

    def fresh(self, name, sort):
        self.fresh_n += 1
        return z3.Const(f'{name}!{self.fresh_n}', sort)

    def push(self):
        self.solver.push()
        self.scopes.append(len(self.pc))

    def pop(self):
        self.solver.pop()
        n = self.scopes.pop()
        keep = [t for t in self.pc[n:] if t.get_id() in self.persistent]
        for t in self.pc[n:]:
            self.persistent.discard(t.get_id())    # ids of collected terms are recycled by z3
        del self.pc[n:]
        for t in keep:
            if self.scopes:
                self.persistent.add(t.get_id())
            self.pc.append(t)
            self.solver.add(t)

    def assume(self, term, silent=False):
        if term is True:
            return
        if term is False:
            raise Infeasible()
        if isinstance(term, bool):
            return
        if silent and self.scopes:
            self.persistent.add(term.get_id())
        self.pc.append(term)
        self.solver.add(term)

    RLIMIT_PER_MS = 5000     # z3 resource units per millisecond on the reference machine (measured: ~4.9M / s)

    @staticmethod
    def guarded_check(s, ms, *assumptions, wall=3):
        """check() of any solver under the deterministic budget (rlimit), with the wall-clock timeout and a watchdog that
        interrupts the context as safety nets (z3 does not always honour its own limits on quantified problems: a fresh
        solver was seen to run for more than 20 minutes on a 4 s budget)"""
        import threading
        s.set('rlimit', int(ms * PathRunner.RLIMIT_PER_MS))
        s.set('timeout', int(ms * wall + 500))
        wd = threading.Timer(ms * wall / 1000.0 + 2.0, s.ctx.interrupt)
        wd.daemon = True
        wd.start()
        try:
            return s.check(*assumptions)
        except z3.Z3Exception:
            return z3.unknown
        finally:
            wd.cancel()

    def _check(self, *assumptions, timeout=None):
        """Budgets are given in milliseconds of the reference machine but enforced through z3's deterministic resource
        counter (rlimit), so that verdicts do not flip when the machine is loaded; the wall-clock timeout (6x) and the
        watchdog are only safety nets."""
        t0 = time.time()
        ms = timeout or self.budget.feas_ms
        self.solver.set('rlimit', int(ms * self.RLIMIT_PER_MS))
        self.solver.set('timeout', int(ms * 3 + 500))
        # z3 does not always honour its own limits on quantified problems: a watchdog interrupts the context
        import threading
        wd = threading.Timer(ms * 3 / 1000.0 + 2.0, self.solver.ctx.interrupt)
        wd.daemon = True
        wd.start()
        try:
            r = self.solver.check(*assumptions)
        except z3.Z3Exception:
            r = z3.unknown
        finally:
            wd.cancel()
        self.solver_seconds += time.time() - t0
        self.queries += 1
        return r

    def decide(self, cond):
        """fork on a Bool term; returns the python bool chosen for this path."""
        if isinstance(cond, bool):
            return cond
        cond = z3.simplify(cond)
        if z3.is_true(cond):
            return True
        if z3.is_false(cond):
            return False
        if self.no_fork:
            raise SpeculationFailed()
        if self.pos < len(self.decisions):
            d = self.decisions[self.pos]
            self.pos += 1
            self.assume(cond if d else z3.Not(cond))
            return d
        rt = self._check(cond)
        rf = self._check(z3.Not(cond))
        can_t, can_f = rt != z3.unsat, rf != z3.unsat
        if rt == z3.unknown or rf == z3.unknown:
            self.unknown_feas += 1
        if not can_t and not can_f:
            raise Infeasible()
        if can_t and can_f:
            self.worklist.append(self.decisions[:self.pos] + [False])
            d = True
        else:
            d = can_t
        self.decisions.append(d)
        self.pos += 1
        self.assume(cond if d else z3.Not(cond))
        return d

    def prefix(self):
        return tuple(self.decisions[:self.pos])

    def oblige(self, name, kind, claim, line=0, detail='', model_probe=None):
        """Prove `claim` under the current path condition. Deduplicated per (name, decision prefix)."""
        key = (name, self.prefix())
        if key in self.obligations:
            return self.obligations[key].verdict == 'discharged'
        if not isinstance(claim, bool) and z3.is_and(claim) and claim.num_args() > 1 and '#' not in name[-4:]:
            ok = True
            for i, ch in enumerate(claim.children()):
                ok = self.oblige(f'{name}#{i}', kind, ch, line, detail, model_probe) and ok
            return ok
        t0 = time.time()
        model = None
        if isinstance(claim, bool) and claim:
            verdict, backend = 'discharged', 'trivial'
        else:
            if isinstance(claim, bool):
                claim = z3.BoolVal(False)
            neg = z3.Not(claim)
            # staged budget: discharges normally take milliseconds; the slow cases are satisfiable queries with
            # quantifiers, for which a bounded-universe search is tried before the full budget is spent
            r = self._check(neg, timeout=min(300, self.budget.obl_ms))
            backend = 'z3'
            # function budget: once two obligations of this function run were left undecided after the whole staged
            # search (minutes each when z3 ignores its limits), the later ones only get the short stages - the run is
            # already undecided (exit 2), this only bounds its duration; deterministic (a count, not a clock)
            fast = self.n_undecided >= 2
            if r == z3.unknown:
                # quantifier instantiation is sensitive to the search order: a few short attempts with fresh solvers and
                # different seeds settle most of the provable cases the incremental solver misses
                r, backend = self._portfolio(neg, (0,) if fast else (0, 1, 2))
            if r == z3.unknown:
                r, backend, model = self._bounded_refute(neg, model_probe, ((2, 5, 3000),) if fast else ((2, 5, 3000), (4, 9, 3000)))
            if r == z3.unknown and fast:
                backend = 'z3 (function budget: two earlier obligations of this run were left undecided)'
            elif r == z3.unknown:
                if name in self.refuted_names:
                    backend = 'z3 (budget cut: same obligation already refuted on another path)'
                else:
                    r = self._check(neg, timeout=self.budget.obl_ms)
                    backend = 'z3'
                    if r == z3.unknown:
                        # functions walking long object chains (supvisors -> context -> instances -> status -> id ->
                        # view, plus the collections they build) have no counter-model with fewer than ~15-20 objects
                        r, backend, model = self._bounded_refute(neg, model_probe, ((3, 14, 10000), (3, 20, 20000)))
                    if r == z3.unknown:
                        r, backend = self._second_opinion(neg)
            verdict = _verdict(r)
            if r == z3.sat:
                self.refuted_names.add(name)
            if r == z3.unknown and not fast and 'budget cut' not in backend:
                self.n_undecided += 1
            if r == z3.sat and model_probe and backend == 'z3':
                # witness minimisation: the proof side is unbounded, only the witness search is bounded (small universe)
                m_small = None
                try:
                    from . import finite
                    for es, er in ((1, 4), (2, 6)):
                        r2, m2, _ = finite.refute(self.pc, neg, es, er, 2500, self.str_consts)
                        if r2 == z3.sat:
                            m_small = m2
                            break
                except Exception:
                    m_small = None
                try:
                    model = model_probe(m_small if m_small is not None else self.solver.model())
                except z3.Z3Exception:
                    model = None
        ob = Obligation(name, kind, verdict, time.time() - t0, backend, line, detail, model, self.prefix())
        ob.pc_size = len(self.pc)
        ob.second = None
        every = getattr(self.budget, 'second_opinion_every', 0)
        if every and verdict == 'discharged' and backend == 'z3' and not isinstance(claim, bool):
            self._n_disch = getattr(self, '_n_disch', 0) + 1
            if self._n_disch % every == 0:
                # independent re-check of a sample of discharged obligations with cvc5 on the SMT-LIB text
                from . import solvers
                ob.second = solvers.cvc5_check(self._smt2(claim), 5000)
        if verdict != 'discharged':
            ob.smt2 = self._smt2(claim)
        self.obligations[key] = ob
        if TRACE:
            print(f'[trace] path {self.paths} {verdict} {name} {backend} {ob.seconds:.2f}s', flush=True)
        return verdict == 'discharged'

    def _portfolio(self, neg, seeds=(0, 1, 2)):
        t0 = time.time()
        try:
            for seed in seeds:
                s = z3.Solver()
                ms = min(4000, self.budget.obl_ms)
                s.set('random_seed', seed)
                s.add(*self.pc)
                s.add(neg)
                r = self.guarded_check(s, ms)     # deterministic budget, wall clock only as safety net
                self.queries += 1
                if r != z3.unknown:
                    return r, f'z3(fresh, seed {seed})'
            return z3.unknown, 'z3'
        finally:
            self.solver_seconds += time.time() - t0

    def _bounded_refute(self, neg, model_probe, stages=((2, 5, 3000), (4, 9, 3000))):
        """z3 answered unknown (quantifiers on the satisfiable side): finite-universe counter-model search, see
        finite.py. sat is a genuine model of pc and not claim; anything else decides nothing."""
        from . import finite
        t0 = time.time()
        try:
            for es, er, ms in stages:
                try:
                    r, m, info = finite.refute(self.pc, neg, es, er, ms, self.str_consts)
                except z3.Z3Exception as e:
                    return z3.unknown, 'z3', None
                if r == z3.sat:
                    model = None
                    if model_probe:
                        try:
                            model = model_probe(m)
                        except z3.Z3Exception:
                            model = None
                    self.last_model = m
                    return z3.sat, f'z3 ({info})', model
            return z3.unknown, 'z3', None
        finally:
            self.solver_seconds += time.time() - t0

    def _smt2(self, claim):
        s = z3.Solver()
        s.add(*self.pc)
        if not isinstance(claim, bool):
            s.add(z3.Not(claim))
        return s.to_smt2()

    def _second_opinion(self, neg):
        """z3 said unknown: fresh z3 with a different tactic set-up, then cvc5 on the same SMT-LIB text."""
        t0 = time.time()
        try:
            s = z3.Solver()
            s.add(*self.pc)
            s.add(neg)
            r = self.guarded_check(s, self.budget.obl_ms)
            if r != z3.unknown:
                return r, 'z3(fresh)'
            from . import solvers
            r2 = solvers.cvc5_check(s.to_smt2(), self.budget.obl_ms)
            if r2 == 'unsat':
                return z3.unsat, 'cvc5'
            if r2 == 'sat':
                return z3.sat, 'cvc5'
            return z3.unknown, 'z3+cvc5'
        finally:
            self.solver_seconds += time.time() - t0

    def check_sat(self):
        """satisfiability of the current path condition (vacuity guard); z3's unknown on quantified assumptions is
        settled by exhibiting a finite model"""
        r = self._check(timeout=min(3000, self.budget.obl_ms))
        if r == z3.unknown:
            try:
                from . import finite
                for es, er in ((1, 4), (2, 7), (4, 10)):
                    r2, m, _ = finite.refute(self.pc, z3.BoolVal(True), es, er, 4000, self.str_consts)
                    if r2 == z3.sat:
                        return z3.sat
            except Exception:
                pass
        return r
