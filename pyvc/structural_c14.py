"""C14 structural obligations (AST scans over the current /repo tree) on the call sites of update_identifier in
ApplicationStartJobs.  They rest on the VERIFIED contract of ProcessStartCommand.update_identifier
(contracts/c14_distribution.py): KeyError exactly when the identifier is None / unknown to the context, TypeError
exactly when the target Supervisor does not know the program.
  * struct:target-checked-before-update/<function>: a target returned by strategy.get_supvisors_instance (None = 'no
    instance qualifies') reaches update_identifier only under a truthiness test of that very name;
  * struct:single-node-candidates-know-the-program: in distribute_to_single_node the candidates handed to
    get_supvisors_instance for ONE command depend on that command (instances of the node that know ITS program) - C04:
    'whose Supervisor knows the program';
  * struct:single-node-requests-recomputed-per-command: the request map used for one command of the loop is computed
    after the previous command got its target - C14: 'loads include starts already requested'."""
import ast
from .props import obligation

CLS = 'ApplicationStartJobs'


def _guarded_calls(fn_node):
    """(call node, set of names tested for truth by the enclosing ifs) for every X.update_identifier(name) call"""
    out = []

    def walk(stmts, tested):
        for st in stmts:
            if isinstance(st, ast.If):
                t = set(tested)
                if isinstance(st.test, ast.Name):
                    t.add(st.test.id)
                walk(st.body, t)
                walk(st.orelse, tested)
            elif isinstance(st, (ast.For, ast.While, ast.With, ast.Try)):
                for part in ('body', 'orelse', 'finalbody'):
                    walk(getattr(st, part, []), tested)
            else:
                for n in ast.walk(st):
                    if isinstance(n, ast.Call) and isinstance(n.func, ast.Attribute) and n.func.attr == 'update_identifier':
                        out.append((n, set(tested)))
    walk(fn_node.body, set())
    return out


def _assigned_from(fn_node, name, callee):
    for n in ast.walk(fn_node):
        if isinstance(n, ast.Assign) and len(n.targets) == 1 and isinstance(n.targets[0], ast.Name) and n.targets[0].id == name:
            v = n.value
            if isinstance(v, ast.Call) and isinstance(v.func, ast.Name) and v.func.id == callee:
                return True
    return False


def run(world, tier, out):
    cls = world.ct.classes[CLS]
    for mname, fi in sorted(cls.methods.items()):
        calls = _guarded_calls(fi.node)
        if not calls:
            continue
        bad = []
        for call, tested in calls:
            a = call.args[0] if call.args else None
            if isinstance(a, ast.Name) and _assigned_from(fi.node, a.id, 'get_supvisors_instance') and a.id not in tested:
                bad.append(f'line {call.lineno}: update_identifier({a.id}) without `if {a.id}:`')
        out['obligations'].append(obligation(f'struct:target-checked-before-update/{mname}', not bad,
                                             '; '.join(bad) or f'{len(calls)} call(s) guarded',
                                             function=f'commander:{CLS}.{mname}'))
    fi = cls.methods['distribute_to_single_node']
    loops = [n for n in ast.walk(fi.node) if isinstance(n, ast.For) and isinstance(n.target, ast.Name)
             and any(isinstance(c, ast.Call) and isinstance(c.func, ast.Name) and c.func.id == 'get_supvisors_instance'
                     for c in ast.walk(n))]
    ok_cand, ok_req, detail_c, detail_r = bool(loops), bool(loops), 'no per-command choice found', 'no per-command choice found'
    for lp in loops:
        var = lp.target.id
        inner_assigned = {t.id: ast.unparse(n.value) for n in ast.walk(lp) if isinstance(n, ast.Assign)
                          for t in n.targets if isinstance(t, ast.Name)}
        for c in ast.walk(lp):
            if isinstance(c, ast.Call) and isinstance(c.func, ast.Name) and c.func.id == 'get_supvisors_instance' and len(c.args) >= 5:
                cand, req = c.args[2], c.args[4]
                cand_src = inner_assigned.get(cand.id, ast.unparse(cand)) if isinstance(cand, ast.Name) else ast.unparse(cand)
                names = {n.id for n in ast.walk(ast.parse(cand_src, mode='eval'))if isinstance(n, ast.Name)}
                if var not in names:
                    ok_cand = False
                detail_c = f'candidates for one command = {cand_src} (loop variable: {var})'
                req_in_loop = isinstance(req, ast.Name) and req.id in inner_assigned and 'get_load_requests()' in inner_assigned[req.id]
                req_direct = 'get_load_requests()' in ast.unparse(req)
                if not (req_in_loop or req_direct):
                    ok_req = False
                detail_r = (f'request map = {ast.unparse(req)}, '
                            + ('computed inside the loop' if (req_in_loop or req_direct) else 'computed once before the loop'))
    out['obligations'].append(obligation('struct:single-node-candidates-know-the-program', ok_cand, detail_c,
                                         function=f'commander:{CLS}.distribute_to_single_node'))
    out['obligations'].append(obligation('struct:single-node-requests-recomputed-per-command', ok_req, detail_r,
                                         function=f'commander:{CLS}.distribute_to_single_node'))
    out['structural'].extend(['update_identifier call sites guarded', 'single-node per-command candidates',
                              'single-node per-command request map'])
