"""check driver: ./check <property> [--tier quick|thorough] [--replay file]

Runs every contract transcribed for the property against the CURRENT /repo working tree, writes
evidence/<id>.json, prints VIOLATION / KNOWN-FINDING lines.  Exit codes: 0 held, 1 violation (new refuted
obligation), 2 undecided, 3 engine error.  unknown / timeout / traceback are never mapped to a violation.
"""
import argparse
import fnmatch
import json
import multiprocessing as mp
import os
import sys
import time

VERIF = os.path.dirname(os.path.dirname(os.path.abspath(__file__)))
sys.path.insert(0, VERIF)

_WORLD = None


def world():
    global _WORLD
    if _WORLD is None:
        from pyvc.verify import World
        _WORLD = World()
    return _WORLD


def _dump_on_usr1():
    try:
        import faulthandler, signal
        faulthandler.register(signal.SIGUSR1, all_threads=True)
    except Exception:
        pass


def _task(args):
    _dump_on_usr1()
    marker = os.environ.get('PYVC_CRASH_ONCE')      # self-test of the pool's crash recovery (tools/crashtest.sh)
    if marker and not os.path.exists(marker):
        open(marker, 'w').close()
        import signal
        os.kill(os.getpid(), signal.SIGSEGV)
    target, variant, tier = args[:3]
    cid = args[3] if len(args) > 3 else None
    from pyvc.verify import verify_function, verify_lemma
    from pyvc.core import Budget
    w = world()
    b = Budget()
    if tier == 'thorough':
        b.obl_ms, b.feas_ms = 60000, 200
        b.second_opinion_every = 25
    if variant == '@lemma':
        modname, node, kw = next(x for x in w.reg.lemmas if f'{x[0]}:{x[1].name}' == target)
        r = verify_lemma(w, modname, node, kw, b)
        con, variant = None, None
    else:
        con = w.reg.by_cid(cid) if cid else w.reg.contracts[target]
        r = verify_function(w, con, variant, b)
    obls = []
    for o in r.obligations:
        d = o.to_json()
        d['function'] = target
        d['variant'] = variant
        d['line'] = o.line
        if o.verdict != 'discharged':
            d['smt2'] = getattr(o, 'smt2', None)
            d['path'] = list(o.path or [])
        obls.append(d)
    return {'target': target, 'variant': variant, 'contract': cid, 'obligations': obls, 'paths': r.paths, 'normal_paths': r.normal_paths,
            'exc_paths': r.exc_paths, 'error': r.error, 'seconds': r.seconds, 'solver_seconds': r.solver_seconds,
            'queries': r.queries, 'inlined': sorted(r.inlined), 'by_contract': sorted(r.by_contract),
            'externals': sorted(r.externals), 'source': r.source, 'vacuity': r.vacuity,
            'assumed': bool(con and con.assumed)}


def _run_tasks(tasks, jobs):
    """run the verification tasks in worker processes; a worker that dies (libz3 has been seen to segfault under the
    watchdog's interrupt) must neither hang the check nor lose its task: the unfinished tasks are re-run in a fresh
    pool, then one by one; a task that kills its worker three times is reported as an engine error (exit 3)"""
    from concurrent.futures import ProcessPoolExecutor, as_completed
    from concurrent.futures.process import BrokenProcessPool
    deadline = float(os.environ.get('VERIF_TASK_TIMEOUT', '3000'))
    done = {}
    pending = list(range(len(tasks)))
    for attempt in range(3):
        if not pending:
            break
        width = min(jobs, len(pending)) if attempt < 2 else 1
        groups = [pending] if attempt < 2 else [[i] for i in pending]
        for grp in groups:
            ex = ProcessPoolExecutor(max_workers=min(width, len(grp)))
            futs = {ex.submit(_task, tasks[i]): i for i in grp}
            try:
                for f in as_completed(futs, timeout=deadline):
                    i = futs[f]
                    try:
                        done[i] = f.result()
                    except BrokenProcessPool:
                        pass
                    except Exception as e:      # noqa
                        done[i] = _failed_task(tasks[i], f'{type(e).__name__}: {e}')
            except TimeoutError:
                for f, i in futs.items():
                    if i not in done and not f.done():
                        done[i] = _failed_task(tasks[i], f'no verdict within {deadline:.0f} s (VERIF_TASK_TIMEOUT)')
            finally:
                for pr in list(getattr(ex, '_processes', {}).values()):
                    if pr.is_alive() and any(i not in done for i in grp):
                        pr.kill()
                ex.shutdown(wait=False, cancel_futures=True)
        pending = [i for i in pending if i not in done]
    for i in pending:
        done[i] = _failed_task(tasks[i], 'the worker process died three times on this task (solver crash)')
    return [done[i] for i in range(len(tasks))]


def _failed_task(args, msg):
    return {'target': args[0], 'variant': args[1], 'contract': args[3] if len(args) > 3 else None, 'obligations': [],
            'paths': 0, 'normal_paths': 0, 'exc_paths': 0, 'error': msg, 'seconds': 0.0, 'solver_seconds': 0.0,
            'queries': 0, 'inlined': [], 'by_contract': [], 'externals': [], 'source': None, 'vacuity': None,
            'assumed': False}


def load_findings():
    p = os.path.join(VERIF, 'known_findings.json')
    out = {'findings': [], 'fixed': []}
    if os.path.exists(p):
        out = json.load(open(p))
    # per-property finding files (same entry format), merged
    fd = os.path.join(VERIF, 'findings')
    if os.path.isdir(fd):
        for fn in sorted(os.listdir(fd)):
            if fn.endswith('.json'):
                d = json.load(open(os.path.join(fd, fn)))
                out['findings'].extend(d.get('findings', []))
                out['fixed'].extend(d.get('fixed', []))
    return out


def match_finding(findings, prop, obl):
    """a finding suppresses exactly the obligations it names (function + obligation pattern)"""
    for f in findings:
        if f['property'] != prop and not (prop == 'C16' and obl.get('kind') in ('safe', 'call-pre')):
            continue
        if f.get('function') and f['function'] != obl['function']:
            continue
        if f.get('variant') and f['variant'] != obl.get('variant'):
            continue
        if fnmatch.fnmatchcase(obl['name'], f['obligation']):
            return f
    return None


def main():
    _dump_on_usr1()
    ap = argparse.ArgumentParser()
    ap.add_argument('prop')
    ap.add_argument('--tier', default=os.environ.get('VERIF_TIER', 'quick'))
    ap.add_argument('--replay')
    ap.add_argument('--jobs', type=int, default=int(os.environ.get('VERIF_JOBS', '16')))
    ap.add_argument('-v', action='store_true')
    a = ap.parse_args()
    seed = int(os.environ.get('VERIF_SEED', '0'))
    tier = a.tier if a.tier in ('quick', 'thorough') else 'quick'
    if a.replay:
        from pyvc import replay
        sys.exit(replay.main(a.prop, a.replay))
    t0 = time.time()
    w = world()
    from pyvc import props as propmod
    spec = propmod.PROPS[a.prop]
    tasks = []
    c16 = None
    if a.prop == 'C16':
        # C16 = union of the exception-freedom obligations (safe:, and the call-site preconditions that establish the
        # callees' safety) of every function under contract that is reachable from an event handler or an XML-RPC
        from pyvc import callgraph
        funcs, edges = callgraph.build(w.ct)
        roots = callgraph.handler_roots(funcs)
        reach = callgraph.reachable(edges, roots)
        c16 = {'roots': sorted(roots), 'reachable': len(reach),
               'under_contract': sorted({c.target for c in w.reg.all_contracts() if c.target in reach and not c.assumed}),
               'assumed': sorted({c.target for c in w.reg.all_contracts() if c.target in reach and c.assumed
                                  and all(x.assumed for x in w.reg.facets[c.target])}),
               'unverified_remainder': sorted(q for q in reach if q not in w.reg.contracts)}
    for con in sorted(w.reg.all_contracts(), key=lambda c: (c.target, c.cid)):
        target = con.target
        if con.assumed:
            continue
        if c16 is not None:
            if target in c16['under_contract']:
                for v in con.all_variants():
                    tasks.append((target, v, tier, con.cid))
            continue
        if a.prop in con.props:
            for v in con.all_variants():
                tasks.append((target, v, tier, con.cid))
    # lemmas (closed formulas over the contracts' vocabulary) registered for the property
    for modname, node, kw in w.reg.lemmas:
        if a.prop in kw.get('props', []):
            tasks.append((f'{modname}:{node.name}', '@lemma', tier))
    results = _run_tasks(tasks, a.jobs) if tasks else []
    # syntactic / structural obligations of the property (single-writer scans, table comparisons, ...)
    extra = propmod.run_extra(a.prop, w, tier)
    findings = load_findings()
    all_obls, errors = [], []
    for r in results:
        if c16 is not None:
            r['obligations'] = [o for o in r['obligations'] if o['kind'] in ('safe', 'vac', 'call-pre')]
        all_obls.extend(r['obligations'])
        if r['error']:
            errors.append((r['target'], r['variant'], r['error']))
    all_obls.extend(extra['obligations'])
    errors.extend(extra.get('errors', []))
    refuted = [o for o in all_obls if o['verdict'] == 'refuted']
    undecided = [o for o in all_obls if o['verdict'] == 'undecided']
    # the solver budget is cut for an obligation already refuted on another path of the same function: when that
    # refutation is a recorded finding, the cut instances belong to the same finding
    undecided = [o for o in undecided if not ('budget cut' in o.get('backend', '')
                                              and match_finding(findings['findings'], a.prop, o))]
    known, new = [], []
    for o in refuted:
        f = match_finding(findings['findings'], a.prop, o)
        (known if f else new).append((o, f))
    # an obligation of a known finding that is refuted on one path / variant may stay undecided on another one (a
    # satisfiable query with quantifiers): reported with the finding, provided the finding was really hit
    hit = {f['id'] for _, f in known}
    for o in list(undecided):
        f = match_finding(findings['findings'], a.prop, o)
        if f and f['id'] in hit:
            undecided.remove(o)
            known.append((o, f))
    os.makedirs(os.path.join(VERIF, 'replays', a.prop), exist_ok=True)
    lines = []
    seen_kf = set()
    for o, f in known:
        if f['id'] not in seen_kf:
            seen_kf.add(f['id'])
            lines.append(f"KNOWN-FINDING: property={a.prop} {f['id']}: {f['summary']}")
    viol_paths = []
    from pyvc import replay as replaymod
    by_name = {}
    for o, _ in new:
        by_name.setdefault((o['function'], o.get('variant'), o['name']), []).append(o)
    for (fn, variant, name), obs in sorted(by_name.items(), key=lambda x: str(x[0])):
        path, reproduced = replaymod.write_replay(a.prop, fn, variant, name, obs, w)
        viol_paths.append(path)
        lines.append(f'VIOLATION property={a.prop} replay={path}' + ('' if reproduced else ' no-failing-input-found'))
    wall = time.time() - t0
    level = spec['level']
    # bounded stand-ins are never counted as proved: they are reported apart (coverage.bounded_checks)
    bounded_obls = [o for o in all_obls if o['kind'] == 'bounded']
    proof_obls = [o for o in all_obls if o['kind'] != 'bounded']
    n_obl = len(proof_obls)
    n_dis = sum(1 for o in proof_obls if o['verdict'] == 'discharged')
    known_bounded = sum(1 for o, f in known if o['kind'] == 'bounded')
    exit_code = 0
    if new:
        exit_code = 1
    elif errors:
        exit_code = 3
    elif undecided:
        exit_code = 2
    if n_obl == 0 and not bounded_obls and exit_code == 0:
        errors.append(('-', None, 'zero obligations generated'))
        exit_code = 3
    backends = {}
    for o in all_obls:
        b = backends.setdefault(o['backend'], {'count': 0, 'seconds': 0.0})
        b['count'] += 1
        b['seconds'] = round(b['seconds'] + o['seconds'], 3)
    functions = [{'function': r['target'], 'variant': r['variant'], 'contract': r.get('contract'), **(r['source'] or {}), 'paths': r['paths'],
                  'normal_paths': r['normal_paths'], 'exceptional_paths': r['exc_paths'],
                  'obligations': len(r['obligations']),
                  'discharged': sum(1 for o in r['obligations'] if o['verdict'] == 'discharged'),
                  'solver_seconds': round(r['solver_seconds'], 3), 'seconds': round(r['seconds'], 3),
                  'precondition_satisfiable': r['vacuity'],
                  'callees_inlined(real code)': r['inlined'], 'callees_by_contract': r['by_contract'],
                  'externals_assumed': r['externals']} for r in results]
    externals = sorted({e for r in results for e in r['externals']})
    assumed_contracts = sorted({x.cid + ' for ' + c for r in results for c in r['by_contract'] for x in w.reg.facets.get(c, []) if x.assumed})
    samples = [{k: o[k] for k in ('name', 'kind', 'verdict', 'backend', 'seconds', 'function') if k in o}
               for o in all_obls[:6]] + [{k: o[k] for k in ('name', 'kind', 'verdict', 'backend', 'seconds', 'function', 'detail', 'model') if k in o}
                                         for o in (refuted + undecided)[:10]]
    evid_level = level if (n_dis == n_obl - len(known) and not errors and not undecided) else level
    selftest = None
    if tier == 'thorough' and not os.environ.get('VERIF_REPO'):
        from pyvc import selftest as st
        selftest = st.run(a.prop, a.jobs)
        if selftest.get('failures'):
            errors.append(('mutation-selftest', None, 'mutation self-test: ' + '; '.join(
                f"{f['status']}: {f['line'][:120]}" for f in selftest['failures'][:5])))
            if exit_code == 0:
                exit_code = 3
    seeded_res = None
    if tier == 'thorough' and not os.environ.get('VERIF_REPO'):
        from pyvc import seeded as sd
        seeded_res = sd.run_for_property(a.prop)
        if seeded_res.get('failures'):
            errors.append(('seeded-changes', None, 'seeded change no longer caught: ' + ', '.join(f['seed'] for f in seeded_res['failures'])))
            if exit_code == 0:
                exit_code = 3
    second = {'sampled': sum(1 for o in all_obls if o.get('cvc5')), 'cvc5_unsat(agree)': sum(1 for o in all_obls if o.get('cvc5') == 'unsat'),
              'cvc5_unknown': sum(1 for o in all_obls if o.get('cvc5') == 'unknown'),
              'cvc5_sat(DISAGREE)': [o['name'] for o in all_obls if o.get('cvc5') == 'sat']}
    if second['cvc5_sat(DISAGREE)']:
        errors.append(('second-opinion', None, 'cvc5 finds a model for obligations z3 discharged: ' + ', '.join(second['cvc5_sat(DISAGREE)'][:5])))
        if exit_code == 0:
            exit_code = 3
    coverage = {
        # obligations claimed = all obligations generated minus the ones recorded as known findings (listed below)
        'obligations': n_obl - (len(known) - known_bounded), 'discharged': n_dis,
        'bounded_checks': {'count': len(bounded_obls), 'passed': sum(1 for o in bounded_obls if o['verdict'] == 'discharged'),
                           'note': 'bounded stand-ins (exhaustive small scope / generated inputs on the real code): NOT counted in obligations/discharged',
                           'names': [o['name'] for o in bounded_obls][:40]},
        'obligations_generated': n_obl,
        'second_opinion_cvc5': second if tier == 'thorough' else None,
        'mutation_selftest': selftest,
        'seeded_changes': seeded_res,
        'refuted_known_findings': len(known), 'refuted_new': len(new), 'undecided': len(undecided),
        'checker_cmd': f'./check {a.prop} --tier {tier}',
        'trusted_base': ['pyvc VC generator (own code, /verif/pyvc) and the Python semantics list of DESIGN.md 1.3',
                         'z3 5.1.0 (python API)', 'cvc5 (only when z3 answers unknown)'] +
                        [f'assumed external contract: {e}' for e in externals] +
                        [f'assumed (unverified) contract: {c}' for c in assumed_contracts] + spec.get('trusted', []),
        'functions_under_contract': functions,
        'backends': backends,
        'solver_seconds': round(sum(r['solver_seconds'] for r in results), 3),
        'paths': sum(r['paths'] for r in results),
        'samples': samples,
        'explanation': spec['explanation'],
        'not_decided': spec.get('not_decided', []),
        'bounded_standins': extra.get('bounded', []),
        'structural_checks': extra.get('structural', []),
        'known_findings_hit': sorted(seen_kf),
        'handler_reachability': c16,
        'engine_errors': [f'{t}[{v}]: {e.splitlines()[0]}' for t, v, e in errors],
        'undecided_obligations': [o['name'] for o in undecided][:50],
        'evaluations': n_obl, 'distinct_nontrivial': len({(o['function'], o['name']) for o in all_obls if o['backend'] != 'trivial'}),
        'rule': 'one evaluation = one solver query (obligation instance on one path); distinct = distinct (function, '
                'obligation name) pairs whose discharge needed the solver or a path-feasibility refutation',
    }
    ev = {'property_id': a.prop, 'tier': tier, 'seed': seed, 'level': level, 'coverage': coverage,
          'assumptions': spec.get('assumptions', []) + [f'external: {e}' for e in externals],
          'wall_s': round(wall, 2), 'violations': len(new)}
    # runs against a scratch copy of the repository (mutation / seeded self-tests) never touch the real evidence
    evdir = os.path.join(VERIF, 'evidence' if not os.environ.get('VERIF_REPO') else '.scratch/evidence')
    os.makedirs(evdir, exist_ok=True)
    with open(os.path.join(evdir, f'{a.prop}.json'), 'w') as f:
        json.dump(ev, f, indent=1, default=str)
    print(f'{a.prop} [{tier}] functions={len(results)} obligations={n_obl} discharged={n_dis} known-finding-refutations={len(known)} '
          f'new-refutations={len(new)} undecided={len(undecided)} engine-errors={len(errors)} wall={wall:.1f}s')
    if a.v or exit_code not in (0,):
        for t, v, e in errors:
            print(f'ENGINE-ERROR {t}[{v}]: {e}')
        for o in undecided:
            print(f'UNDECIDED obligation={o["name"]} function={o["function"]}')
    for ln in lines:
        print(ln)
    sys.exit(exit_code)


if __name__ == '__main__':
    main()
