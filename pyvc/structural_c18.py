"""C18: structural obligation (class-level default aliasing, Appendix A7) and the bounded stand-ins (kind 'bounded',
never counted as proved) run on the real functions by pyvc/bounded_c18.py in a separate interpreter."""
import ast
import json
import os
import subprocess
import sys
import time

from . import props

MUTATORS = ('remove', 'append', 'extend', 'insert', 'pop', 'clear', 'sort', 'reverse', 'add', 'discard', 'update')


def class_default_aliasing(world):
    """`self.x = self._get_value(config, name, <class-level mutable literal>, ...)` makes self.x the class attribute
    itself when the option is absent (proved: post_absent_option_gives_the_default_object_itself of _get_value); any
    in-place mutation of self.x by a method of the class then changes the default seen by every later instance."""
    ci = world.ct.classes['SupvisorsOptions']
    mutable_defaults = {k for k, v in ci.class_assigns.items() if isinstance(k, str) and isinstance(v, (ast.List, ast.Dict, ast.Set))}
    aliased = {}
    init = ci.methods['__init__'].node
    for n in ast.walk(init):
        if isinstance(n, ast.Assign) and isinstance(n.value, ast.Call) and getattr(n.value.func, 'attr', '') == '_get_value' \
                and len(n.value.args) >= 3:
            d = n.value.args[2]
            if isinstance(d, ast.Attribute) and d.attr in mutable_defaults and isinstance(n.targets[0], ast.Attribute):
                aliased[n.targets[0].attr] = d.attr
    hits = []
    for m in ci.methods.values():
        for n in ast.walk(m.node):
            if isinstance(n, ast.Call) and isinstance(n.func, ast.Attribute) and n.func.attr in MUTATORS \
                    and isinstance(n.func.value, ast.Attribute) and isinstance(n.func.value.value, ast.Name) \
                    and n.func.value.value.id == 'self' and n.func.value.attr in aliased:
                hits.append(f'{m.name}:{n.lineno} self.{n.func.value.attr}.{n.func.attr}() on an alias of '
                            f'SupvisorsOptions.{aliased[n.func.value.attr]}')
    return aliased, hits


def run(world, tier, out):
    aliased, hits = class_default_aliasing(world)
    out['structural'].append({'check': 'class-level mutable defaults handed out by _get_value are never mutated in place',
                              'aliased_fields': aliased, 'mutations': hits})
    out['obligations'].append(props.obligation(
        'struct:class-default-not-mutated-in-place/SupvisorsOptions', not hits, '; '.join(hits),
        function='options:SupvisorsOptions.check_options'))
    # bounded stand-ins on the real functions
    t0 = time.time()
    script = os.path.join(os.path.dirname(os.path.abspath(__file__)), 'bounded_c18.py')
    env = dict(os.environ)
    env.setdefault('VERIF_REPO', world.ct.repo)
    try:
        p = subprocess.run([sys.executable, '-W', 'ignore', script], capture_output=True, text=True, timeout=100, env=env)
        doc = json.loads(p.stdout)
    except Exception as e:
        out['errors'].append(('bounded_c18', None, f'bounded stand-ins did not run: {type(e).__name__}: {e}'))
        return
    per = (time.time() - t0) / max(1, len(doc['checks']))
    for i, c in enumerate(doc['checks']):
        entry = {'name': c['name'], 'bound': c['bound'], 'cases': c.get('cases', 0), 'technique': 'exhaustive small-scope '
                 'enumeration on the real function', 'counted_as_proved': False}
        name = 'bounded:' + c['name'].split(':')[0][:70]
        if 'error' in c:
            entry['verdict'] = 'undecided'
            out['bounded'].append(entry)
            o = props.obligation(name, True, c['error'], function='(bounded)', backend='small-scope', kind='bounded', seconds=per)
            o['verdict'] = 'undecided'
            out['obligations'].append(o)
            continue
        entry['failed'] = c['failed']
        entry['failures'] = c['failures']
        entry['verdict'] = 'no failing case within the bound' if not c['failed'] else 'failing cases'
        out['bounded'].append(entry)
        out['obligations'].append(props.obligation(
            name, not c['failed'], f'{c["cases"]} cases, bound: {c["bound"]}' +
            (f'; {c["failed"]} failing, e.g. {c["failures"][:2]}' if c['failed'] else ''),
            function='(bounded)', backend='small-scope', kind='bounded', seconds=per))
