"""C19 structural obligations: the model classes share the placement code of the real Starter and only replace the
methods that interact with the outside; none of the replacing bodies reaches the transport or the listener."""
import ast
from .props import obligation

EXPECTED = {'ProcessStartCommandModel': {'__init__', 'start'},
            'ApplicationStartJobsModel': {'fail_command'},
            'StarterModel': {'test_start_application', 'test_start_processes', 'feed_model', 'next',
                             'publish_state_modes'}}
FORBIDDEN = ('rpc_handler', 'listener', 'external_publisher', 'send_', 'force_process_state', 'publish_status')


def run(world, tier, out):
    ct = world.ct
    for cname, expected in EXPECTED.items():
        ci = ct.classes.get(cname)
        if ci is None:
            out['obligations'].append(obligation(f'struct:model-class-exists/{cname}', False, 'class not found'))
            continue
        defined = set(ci.methods)
        out['obligations'].append(obligation(
            f'struct:model-overrides-exactly/{cname}', defined == expected,
            f'methods defined by {cname}: {sorted(defined)}; expected {sorted(expected)} (everything else, in particular the '
            f'placement code, is inherited from the real class)'))
        for mname, fi in ci.methods.items():
            bad = sorted({n.attr for n in ast.walk(fi.node) if isinstance(n, ast.Attribute)
                          and any(n.attr.startswith(f) or n.attr == f for f in FORBIDDEN)})
            out['obligations'].append(obligation(
                f'struct:no-external-interaction/{cname}.{mname}', not bad,
                f'attributes naming the transport / listener used in the body: {bad}'))
    out['structural'].append('model classes override exactly the interacting methods; no transport/listener attribute is '
                             'used in the overriding bodies (syntactic scan)')
