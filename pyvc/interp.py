"""pyvc interpreter: symbolic execution of real function ASTs (expressions, statements, calls, builtins)."""
import ast
import math
from .core import *

EXEC, GENERIC, SPEC, SPECULATE = 'exec', 'generic', 'spec', 'speculate'
I = z3.IntSort()
B = z3.BoolSort()
R = z3.RealSort()


def arr(dom, rng):
    return z3.ArraySort(dom, rng)


class Frame:
    def __init__(self, fi, module, vars=None, selfv=None, defcls=None):
        self.fi, self.module, self.vars, self.selfv, self.defcls = fi, module, vars if vars is not None else {}, selfv, defcls


class Interp:
    def __init__(self, ct, ts, runner, registry):
        self.ct, self.ts, self.run, self.reg = ct, ts, runner, registry
        self.heap = Heap(runner)
        self.mode = EXEC
        self.depth = 0
        self.effects = []          # ghost log: list of (name, [args])
        self.str_lits = {}
        self.inlined = set()       # qualnames of functions executed by inlining
        self.by_contract = set()   # qualnames used through their contract
        self.externals_used = set()
        self.notes = []
        self.cur_line = 0
        self.max_depth = 12
        self.time_terms = []
        self._shape_done = {}
        self.generic_scopes = []   # [(bound z3 consts, index into run.scopes)] of the summarised comprehensions being evaluated

    # ================================================================ scalars
    def strlit(self, s):
        if s == '':
            return STR_EMPTY
        if s not in self.str_lits:
            c = z3.Const('str:' + s, Str)
            self.str_lits[s] = c
            self.run.str_consts.append(c)
        return self.str_lits[s]

    def str_axioms(self):
        """distinctness of the string literals met so far (+ '' and the None representative)"""
        cs = list(self.str_lits.values()) + [STR_EMPTY, STR_NONE]
        return z3.Distinct(*cs) if len(cs) > 1 else True

    def lift(self, v, ty=None):
        """value -> z3 term (scalar sorts only)"""
        if isinstance(v, SV):
            if ty is not None:
                return self.coerce_term(v, ty)
            return v.t
        if isinstance(v, bool):
            return z3.BoolVal(v)
        if ty == FP64 and isinstance(v, (int, float)):
            return z3.FPVal(v, z3.Float64())
        if isinstance(v, int):
            if ty == REAL:
                return z3.RealVal(v)
            return z3.IntVal(v)
        if isinstance(v, float):
            if v != v or v in (float('inf'), float('-inf')):
                raise Unsupported('non-finite float literal')
            return z3.RealVal(repr(v))
        if isinstance(v, str):
            return self.strlit(v)
        if isinstance(v, EnumMember):
            return z3.IntVal(v.index)
        if isinstance(v, HeapVal):
            return v.ref
        if v is None:
            if ty is not None:
                return self.none_term(ty)
            return NULL
        raise Unsupported(f'cannot lift {type(v).__name__} to a term')

    def none_term(self, ty):
        s = sort_of(ty)
        if s == Ref:
            return NULL
        if s == Str:
            return STR_NONE
        if isinstance(ty, TOpt):
            return s.constructor(0)()
        raise Unsupported(f'None stored where {ty} is declared')

    def coerce_term(self, v, ty):
        """term of value v in the representation of declared type ty"""
        if v is None:
            return self.none_term(ty)
        if isinstance(ty, TOpt):
            if isinstance(v, SV) and isinstance(v.ty, TOpt):
                return v.t
            inner = self.coerce_term(v, ty.t)
            s = sort_of(ty)
            if s in (Ref, Str):
                return inner
            return s.constructor(1)(inner)
        if isinstance(ty, TTuple):
            if isinstance(v, SV):
                return v.t
            items = v.items if isinstance(v, ConstSeq) else list(v)
            return sort_of(ty).mk(*[self.coerce_term(x, t) for x, t in zip(items, ty.ts)])
        if isinstance(v, SV):
            if isinstance(v.ty, TOpt):
                # using an Optional where a plain value is declared: take the payload
                return self.opt_payload(v)
            if ty == REAL and v.t.sort() == I:
                return z3.ToReal(v.t)
            if (ty == FP64) != (v.ty == FP64) and ty in (FP64, REAL, INT):
                raise Unsupported('conversion between fp64 and mathematical numbers')
            return v.t
        return self.lift(v, ty)

    def opt_payload(self, v):
        s = v.t.sort()
        if s in (Ref, Str):
            return v.t
        return s.accessor(1, 0)(v.t)

    def opt_is_none(self, v):
        s = v.t.sort()
        if s == Ref:
            return v.t == NULL
        if s == Str:
            return v.t == STR_NONE
        return s.recognizer(0)(v.t)

    def wrap(self, term, ty, heap=None):
        """z3 term of declared type ty -> value"""
        if isinstance(ty, TObj):
            return ObjV(term, ty.cls, heap)
        if isinstance(ty, TList):
            return ListV(term, ty.t, heap)
        if isinstance(ty, TSet):
            return SetV(term, ty.t, heap)
        if isinstance(ty, TDict):
            return DictV(term, ty.k, ty.v, heap)
        if isinstance(ty, TRec):
            return RecV(term, heap)
        if isinstance(ty, TOpt):
            sv = SV(term, ty)
            sv.heap = heap     # heap view (old / loop_old) the value was read from: kept when narrowed
            return sv
        if isinstance(ty, TTuple):
            s = sort_of(ty)
            return tuple(self.wrap(s.accessor(0, i)(term), t, heap) for i, t in enumerate(ty.ts))
        return SV(term, ty)

    _opt_heap = {}

    def narrow_opt(self, v):
        """Optional value known not to be None -> inner value"""
        ty = v.ty.t
        return self.wrap(self.opt_payload(v), ty, getattr(v, 'heap', None))

    def assume_domain(self, v):
        """shape validity of a freshly read value: enum domain, list length >= 0, non-null for non-Optional refs"""
        if isinstance(v, SV):
            if v.ty == STR and not z3.is_const(v.t):
                # a value read where `str` is declared is not None (STR_NONE only represents None inside Optional[str])
                self.run.assume(v.t != STR_NONE, silent=True)
            if isinstance(v.ty, TEnum):
                self.run.assume(self.ts.enum_domain(v.t, v.ty.name), silent=True)
            elif isinstance(v.ty, TOpt) and isinstance(v.ty.t, TEnum) and v.t.sort() not in (Ref, Str):
                s = v.t.sort()
                self.run.assume(z3.Or(s.recognizer(0)(v.t), self.ts.enum_domain(s.accessor(1, 0)(v.t), v.ty.t.name)), silent=True)
        elif isinstance(v, HeapVal):
            self.run.assume(v.ref != NULL, silent=True)
            self.run.assume(self.H(v).get('alloc', arr(Ref, B))[v.ref], silent=True)
            self.assume_kind(v)
            self.assume_container_shape(v)
        elif isinstance(v, tuple):
            for x in v:
                self.assume_domain(x)
        return v

    def def_array(self, vars_, body):
        """array given by comprehension: a fresh array constant with its defining axiom (kept out of lambda terms so
        that the SMT-LIB text stays within what cvc5 reads)"""
        sort = body.sort()
        for v in reversed(vars_):
            sort = z3.ArraySort(v.sort(), sort)
        a = self.run.fresh('def', sort)
        sel = a
        for v in vars_:
            sel = sel[v]
        self.run.assume(z3.ForAll(list(vars_), sel == body), silent=True)
        return a

    def ref_valid_term(self, t, ty, heap):
        """validity of a reference term of declared type ty read out of a container: non-null unless Optional,
        allocated, of the right kind / class"""
        opt = isinstance(ty, TOpt)
        if opt:
            ty = ty.t
        k = 'obj' if isinstance(ty, TObj) else 'list' if isinstance(ty, TList) else 'set' if isinstance(ty, TSet) \
            else 'dict' if isinstance(ty, TDict) else 'rec'
        cs = [heap.get('alloc', arr(Ref, B))[t], kind_of(t) == KINDS[k]]
        if isinstance(ty, TObj) and ty.cls in self.ct.classes:
            subs = [ty.cls] + [c for c in self.ct.subclasses(ty.cls) if c != ty.cls]
            if len(subs) <= 16:
                cs.append(z3.Or([class_of(t) == self.ts.class_id(c) for c in subs]))
        ok = z3.And(t != NULL, *cs)
        return z3.Or(t == NULL, ok) if opt else ok

    def assume_container_shape(self, v):
        """references stored in a container are valid references of the declared element type (quantified)"""
        h = self.H(v)
        if isinstance(v, DictV) and is_ref_type(v.vty):
            has, val = self.dict_has(v)[1], self.dict_val(v)[1]
            key = ('d', has.get_id(), val.get_id(), v.ref.get_id())
            if key in self._shape_done:
                return
            self._shape_done[key] = (has, val, v.ref)
            k = z3.Const('k!shape', sort_of(v.kty))
            self.run.assume(z3.ForAll([k], z3.Implies(has[v.ref][k], self.ref_valid_term(val[v.ref][k], v.vty, h))), silent=True)
        elif isinstance(v, ListV) and is_ref_type(v.ety):
            da = self.list_data(v)[1]
            ln = h.get('L.len', arr(Ref, I))
            key = ('l', da.get_id(), ln.get_id(), v.ref.get_id())
            if key in self._shape_done:
                return
            self._shape_done[key] = (da, ln, v.ref)
            i = z3.Const('i!shape', I)
            self.run.assume(z3.ForAll([i], z3.Implies(z3.And(0 <= i, i < ln[v.ref]),
                                                     self.ref_valid_term(da[v.ref][i], v.ety, h))), silent=True)
        elif isinstance(v, SetV) and is_ref_type(v.ety):
            sa = self.set_arr(v)[1]
            key = ('s', sa.get_id(), v.ref.get_id())
            if key in self._shape_done:
                return
            self._shape_done[key] = (sa, v.ref)
            x = z3.Const('x!shape', Ref)
            self.run.assume(z3.ForAll([x], z3.Implies(sa[v.ref][x], self.ref_valid_term(x, v.ety, h))), silent=True)

    def assume_kind(self, v):
        """python objects of different kinds (dict / set / list / payload dict / instances of unrelated classes) are
        never the same object"""
        k = {ObjV: 'obj', ListV: 'list', SetV: 'set', DictV: 'dict', RecV: 'rec'}[type(v)]
        self.run.assume(kind_of(v.ref) == KINDS[k], silent=True)
        if isinstance(v, ObjV) and v.cls in self.ct.classes:
            subs = [v.cls] + [c for c in self.ct.subclasses(v.cls) if c != v.cls]
            if len(subs) <= 16:
                self.run.assume(z3.Or([class_of(v.ref) == self.ts.class_id(c) for c in subs]), silent=True)

    # ================================================================ truthiness / equality
    def truthy(self, v):
        """python truthiness as Bool term or python bool"""
        if v is None:
            return False
        if isinstance(v, (bool, int, float, str)):
            return bool(v)
        if isinstance(v, SV):
            ty = v.ty
            if ty == BOOL:
                return v.t
            if ty == INT:
                return v.t != 0
            if ty == REAL:
                return v.t != 0
            if ty == FP64:
                return z3.Not(z3.fpIsZero(v.t))
            if ty == STR:
                return v.t != STR_EMPTY
            if isinstance(ty, TEnum):
                if self.ts.enum_info(ty.name)['is_enum']:
                    return True
                return v.t != 0
            if isinstance(ty, TOpt):
                inner = self.narrow_opt(v)
                return z3.And(z3.Not(self.opt_is_none(v)), self.as_bool(self.truthy(inner)))
            raise Unsupported(f'truthiness of {ty}')
        if isinstance(v, (ObjV, EnumMember, ClassV, LambdaV, BoundMethod, FuncV, Builtin, LoggerV)):
            return True
        if isinstance(v, (ConstSeq,)):
            return len(v.items) > 0
        if isinstance(v, tuple):
            return len(v) > 0
        if isinstance(v, ConstDict):
            return len(v.items) > 0
        if isinstance(v, (ListV, SetV, DictV, SymSet, ValuesView)):
            return self.nonempty(v)
        if isinstance(v, RecV):
            # a payload dict is falsy iff it holds none of the declared keys (`self.ref_stats = {}` ... `if self.ref_stats:`)
            h = self.H(v)
            return z3.Or([self.rec_has(k, h)[0][v.ref] for k in sorted(getattr(self.ts.shapes, 'REC_KEYS', {}))])
        raise Unsupported(f'truthiness of {type(v).__name__}')

    def as_bool(self, b):
        return z3.BoolVal(b) if isinstance(b, bool) else b

    def nonempty(self, v):
        if isinstance(v, (SetV, SymSet)) and v.ety == ANY:
            return False
        if isinstance(v, ListV):
            if v.known is not None:
                return len(v.known) > 0
            return self.list_len(v) > 0
        x = z3.Const('x!ne', sort_of(self.elem_type(v)))
        return z3.Exists([x], self.member_term(v, x))

    def elem_type(self, v):
        if isinstance(v, (ListV, SetV, SymSet)):
            return v.ety
        if isinstance(v, DictV):
            return v.kty
        if isinstance(v, ValuesView):
            return {'keys': v.d.kty, 'values': v.d.vty}[v.what]
        raise Unsupported(f'elem_type {v}')

    def family(self, v):
        if v is None:
            return 'none'
        if isinstance(v, bool):
            return 'bool'
        if isinstance(v, (int, float)):
            return 'num'
        if isinstance(v, str):
            return 'str'
        if isinstance(v, EnumMember):
            return 'enum:' + v.cls
        if isinstance(v, SV):
            t = v.ty
            if isinstance(t, TOpt):
                return 'opt'
            if t == BOOL:
                return 'bool'
            if t in (INT, REAL, FP64):
                return 'num'
            if t == STR:
                return 'str'
            if isinstance(t, TEnum):
                return ('enum:' + t.name) if self.ts.enum_info(t.name)['is_enum'] else 'num'
            if isinstance(t, TTuple):
                return 'tuple'
        if isinstance(v, ObjV):
            return 'obj'
        if isinstance(v, (ListV, ConstSeq)):
            return 'list' if not (isinstance(v, ConstSeq) and v.kind == 'tuple') else 'tuple'
        if isinstance(v, tuple):
            return 'tuple'
        if isinstance(v, (SetV, SymSet)):
            return 'set'
        if isinstance(v, (DictV, ConstDict, RecV)):
            return 'dict'
        if isinstance(v, ClassV):
            return 'class'
        return 'other:' + type(v).__name__

    def type_is(self, a, b):
        """`type(v) is C` (also ==) for a value v whose dynamic type is symbolic"""
        if not isinstance(a, TypeOfV):
            a, b = b, a
        v = a.v
        if isinstance(b, TypeOfV):
            if isinstance(v, ObjV) and isinstance(b.v, ObjV):
                return class_of(v.ref) == class_of(b.v.ref)
            raise Unsupported('comparison of two symbolic types')
        if isinstance(v, ObjV):
            if not isinstance(b, ClassV) or b.name not in self.ct.classes:
                return False      # builtin types, exception classes: never the class of a modelled object
            if not self.ct.is_subclass(b.name, v.cls):
                return False      # static typing (shape validity): the dynamic class is a subclass of the static one
            return class_of(v.ref) == self.ts.class_id(b.name)
        if isinstance(v, SV) and isinstance(v.ty, TOpt):
            inner = self.bi_type([self.narrow_opt(v)], {}, 0)
            isn = self.opt_is_none(v)
            if isinstance(b, Builtin) and b.name == 'NoneType':
                return isn
            same = self.identical(inner, b) if not isinstance(inner, TypeOfV) else self.type_is(inner, b)
            return self.simp(z3.And(z3.Not(isn), self.as_bool(same)))
        raise Unsupported(f'type() comparison for {v!r:.40}')

    def eq(self, a, b):
        """python == as Bool term / python bool"""
        if isinstance(a, TypeOfV) or isinstance(b, TypeOfV):
            return self.type_is(a, b)
        if isinstance(a, SV) and isinstance(a.ty, TOpt):
            if b is None:
                return self.opt_is_none(a)
            if isinstance(b, SV) and isinstance(b.ty, TOpt):
                if a.t.sort() == b.t.sort():
                    return a.t == b.t
                nb = self.opt_is_none(b)
                return z3.If(self.opt_is_none(a), nb, z3.And(z3.Not(nb), self.as_bool(self.eq(self.narrow_opt(a), self.narrow_opt(b)))))
            return z3.And(z3.Not(self.opt_is_none(a)), self.as_bool(self.eq(self.narrow_opt(a), b)))
        if isinstance(b, SV) and isinstance(b.ty, TOpt):
            return self.eq(b, a)
        fa, fb = self.family(a), self.family(b)
        if isinstance(a, HeapVal) and b is None or isinstance(b, HeapVal) and a is None:
            hv = a if isinstance(a, HeapVal) else b
            return hv.ref == NULL
        if fa != fb:
            if {fa, fb} == {'bool', 'num'}:
                ta = z3.If(self.lift(a), 1, 0) if fa == 'bool' else self.lift(a)
                tb = z3.If(self.lift(b), 1, 0) if fb == 'bool' else self.lift(b)
                return self.simp(ta == tb)
            if {fa, fb} == {'list', 'tuple'}:
                return False
            return False
        if fa in ('bool', 'num', 'str') or fa.startswith('enum:'):
            if not isinstance(a, SV) and not isinstance(b, SV):
                return a == b
            if self.is_fp(a) or self.is_fp(b):
                ta, tb = self.fp_terms(a, b)
                return z3.fpEQ(ta, tb)
            ta, tb = self.lift(a), self.lift(b)
            if ta.sort() != tb.sort():
                if ta.sort() == I:
                    ta = z3.ToReal(ta)
                if tb.sort() == I:
                    tb = z3.ToReal(tb)
            return self.simp(ta == tb)
        if fa == 'none':
            return True
        if fa == 'obj':
            return a.ref == b.ref
        if fa == 'class':
            return a == b
        if fa == 'tuple':
            xa = list(a.items) if isinstance(a, ConstSeq) else (list(a) if isinstance(a, tuple) else None)
            xb = list(b.items) if isinstance(b, ConstSeq) else (list(b) if isinstance(b, tuple) else None)
            if xa is None or xb is None:
                if isinstance(a, SV) and isinstance(b, SV):
                    return a.t == b.t
                ta = a.t if isinstance(a, SV) else self.coerce_term(a, b.ty)
                tb = b.t if isinstance(b, SV) else self.coerce_term(b, a.ty)
                return ta == tb
            if len(xa) != len(xb):
                return False
            return self.conj([self.eq(x, y) for x, y in zip(xa, xb)])
        if fa == 'set':
            return self.set_eq(a, b)
        if fa == 'list':
            return self.list_eq(a, b)
        if fa == 'dict':
            return self.dict_eq(a, b)
        raise Unsupported(f'== between {fa} values')

    def is_fp(self, v):
        return isinstance(v, SV) and v.ty == FP64

    def fp_terms(self, a, b):
        """operands of an IEEE comparison: fp64 values and python number literals (converted exactly / rounded as CPython
        does when it compares a float with that literal)"""
        out = []
        for x in (a, b):
            if self.is_fp(x):
                out.append(x.t)
            elif isinstance(x, (int, float)) and not isinstance(x, bool):
                out.append(z3.FPVal(x, z3.Float64()))
            else:
                raise Unsupported('comparison of an fp64 value with a symbolic mathematical number')
        return out

    def simp(self, t):
        t = z3.simplify(t)
        if z3.is_true(t):
            return True
        if z3.is_false(t):
            return False
        return t

    def conj(self, bs):
        out = []
        for b in bs:
            if b is False:
                return False
            if b is True:
                continue
            out.append(b)
        if not out:
            return True
        return z3.And(out) if len(out) > 1 else out[0]

    def disj(self, bs):
        out = []
        for b in bs:
            if b is True:
                return True
            if b is False:
                continue
            out.append(b)
        if not out:
            return False
        return z3.Or(out) if len(out) > 1 else out[0]

    def neg(self, b):
        if isinstance(b, bool):
            return not b
        return z3.Not(b)

    # ================================================================ heap access
    def H(self, v=None):
        if v is not None and getattr(v, 'heap', None) is not None:
            return v.heap
        return self.heap

    def alloc(self, hint='new'):
        r = self.run.fresh(hint, Ref)
        al = self.heap.get('alloc', arr(Ref, B))
        self.run.assume(z3.Not(al[r]), silent=True)
        self.run.assume(r != NULL, silent=True)
        kind = {'list': 'list', 'set': 'set', 'dict': 'dict', 'rec': 'rec', 'sorted': 'list'}.get(hint, 'obj')
        self.run.assume(kind_of(r) == KINDS[kind], silent=True)
        self.heap.set('alloc', z3.Store(al, r, True))
        return r

    def field_array(self, fname, ty, heap=None):
        s = sort_of(ty)
        return (heap or self.heap).get(f'F:{fname}:{s}', arr(Ref, s)), f'F:{fname}:{s}'

    def read_field(self, obj, fname):
        ty = self.ts.field_type(obj.cls, fname)
        if ty is None or ty == ANY:
            raise Unsupported(f'field {obj.cls}.{fname} has no usable type (add it to contracts/shapes.py FIELD_TYPES)')
        if ty == 'logger':
            return LoggerV()
        a, _ = self.field_array(fname, ty, self.H(obj))
        v = self.wrap(a[obj.ref], ty, obj.heap)
        if not isinstance(ty, TOpt):
            self.assume_domain(v)
        elif isinstance(v, SV):
            self.assume_domain(v)
        return v

    def write_field(self, obj, fname, val):
        ty = self.ts.field_type(obj.cls, fname)
        if ty == 'logger':
            return
        if ty is None or ty == ANY:
            raise Unsupported(f'field {obj.cls}.{fname} has no usable type (add it to contracts/shapes.py FIELD_TYPES)')
        val = self.materialize(val, ty)
        a, name = self.field_array(fname, ty)
        self.heap.set(name, z3.Store(a, obj.ref, self.coerce_term(val, ty)))

    def materialize(self, val, ty):
        """python-level sequences/dicts stored into the heap become heap collections"""
        if isinstance(ty, TOpt):
            if val is None:
                return None
            return self.materialize(val, ty.t)
        if isinstance(ty, TList) and isinstance(val, (ConstSeq, tuple)):
            items = val.items if isinstance(val, ConstSeq) else list(val)
            return self.new_list(items, ty.t)
        if isinstance(ty, TSet) and isinstance(val, SetV) and val.ety == ANY and ty.t not in (ANY, NONE):
            # `self.x = set()`: the fresh empty set takes the declared element type of the field
            val.ety = ty.t
            nme, a = self.set_arr(val)
            self.heap.set(nme, z3.Store(a, val.ref, z3.K(sort_of(val.ety), z3.BoolVal(False))))
            return val
        if isinstance(ty, TSet) and isinstance(val, SymSet):
            r = self.alloc('set')
            name, a = self.set_arr(SetV(r, ty.t))
            self.heap.set(name, z3.Store(a, r, as_array(val.arr)))
            return SetV(r, ty.t)
        if isinstance(ty, TDict) and isinstance(val, ConstDict):
            d = self.new_dict(ty.k, ty.v)
            for k, v in val.items:
                self.dict_store(d, k, v)
            return d
        if isinstance(ty, TRec) and isinstance(val, ConstDict):
            return self.new_rec(val.items)
        if isinstance(val, CompV):
            from . import seqs
            return seqs.bulk_materialize(self, val, ty)
        if isinstance(ty, TTuple) and (isinstance(val, tuple) or (isinstance(val, ConstSeq) and val.kind == 'tuple')):
            items = val.items if isinstance(val, ConstSeq) else list(val)
            if len(items) == len(ty.ts):
                return tuple(self.materialize(x, t) for x, t in zip(items, ty.ts))
        return val

    # ---- lists
    def list_len(self, l):
        h = self.H(l)
        t = h.get('L.len', arr(Ref, I))[l.ref]
        self.run.assume(t >= 0, silent=True)
        return t

    def list_data(self, l):
        s = sort_of(l.ety)
        name = f'L.data:{s}'
        return name, self.H(l).get(name, arr(Ref, arr(I, s)))

    def new_list(self, items, ety):
        r = self.alloc('list')
        lv = ListV(r, ety, known=None)
        ln = self.heap.get('L.len', arr(Ref, I))
        self.heap.set('L.len', z3.Store(ln, r, z3.IntVal(len(items))))
        name, da = self.list_data(lv)
        row = da[r]
        for i, it in enumerate(items):
            row = z3.Store(row, i, self.coerce_term(self.materialize(it, ety), ety))
        self.heap.set(name, z3.Store(da, r, row))
        return lv

    def list_get(self, l, idx_term):
        name, da = self.list_data(l)
        return self.assume_domain(self.wrap(da[l.ref][idx_term], l.ety, l.heap))

    def list_append(self, l, v):
        n = self.list_len(l)
        name, da = self.list_data(l)
        self.heap.set(name, z3.Store(da, l.ref, z3.Store(da[l.ref], n, self.coerce_term(self.materialize(v, l.ety), l.ety))))
        ln = self.heap.get('L.len', arr(Ref, I))
        self.heap.set('L.len', z3.Store(ln, l.ref, n + 1))

    def list_eq(self, a, b):
        if isinstance(a, ConstSeq) and isinstance(b, ConstSeq):
            if len(a.items) != len(b.items):
                return False
            return self.conj([self.eq(x, y) for x, y in zip(a.items, b.items)])
        if isinstance(a, ConstSeq):
            a, b = b, a
        if isinstance(b, ConstSeq):
            cs = [self.list_len(a) == len(b.items)]
            for i, it in enumerate(b.items):
                cs.append(self.eq(self.list_get(a, z3.IntVal(i)), it))
            return self.conj(cs)
        i = z3.Const('i!leq', I)
        _, da = self.list_data(a)
        _, db = self.list_data(b)
        la, lb = self.list_len(a), self.list_len(b)
        return z3.And(la == lb, z3.ForAll([i], z3.Implies(z3.And(0 <= i, i < la), da[a.ref][i] == db[b.ref][i])))

    # ---- sets
    def set_arr(self, s):
        so = sort_of(s.ety)
        name = f'S.mem:{so}'
        return name, self.H(s).get(name, arr(Ref, arr(so, B)))

    def set_chi(self, s):
        """characteristic array of a set-like value"""
        if isinstance(s, SymSet):
            return s.arr if s.arr is not None else EmptyChi()
        if isinstance(s, SetV):
            if s.ety == ANY:
                return EmptyChi()
            return self.set_arr(s)[1][s.ref]
        if isinstance(s, DictV):
            return self.dict_has(s)[1][s.ref]
        if isinstance(s, ValuesView) and s.what == 'keys':
            return self.dict_has(s.d)[1][s.d.ref]
        raise Unsupported(f'characteristic array of {type(s).__name__}')

    def new_set(self, items, ety):
        r = self.alloc('set')
        sv = SetV(r, ety)
        name, a = self.set_arr(sv)
        row = z3.K(sort_of(ety), z3.BoolVal(False))
        for it in items:
            row = z3.Store(row, self.coerce_term(it, ety), True)
        self.heap.set(name, z3.Store(a, r, row))
        return sv

    def set_update(self, s, elem, present):
        name, a = self.set_arr(s)
        self.heap.set(name, z3.Store(a, s.ref, z3.Store(a[s.ref], self.coerce_term(elem, s.ety), present)))

    def set_eq(self, a, b):
        ety = a.ety if a.ety != ANY else b.ety
        if ety == ANY:
            return True
        x = z3.Const('x!seq', sort_of(ety))
        return z3.ForAll([x], self.set_chi(a)[x] == self.set_chi(b)[x])

    def card(self, chi):
        """cardinality of a finite set given by characteristic array: uninterpreted, with the sound facts needed
        for comparisons against 0, 1 and 2 (the only ones the code under proof makes)."""
        chi = as_array(chi)
        dom = chi.sort().domain()
        f = z3.Function(f'card_{dom}', chi.sort(), I)
        c = f(chi)
        x, y = z3.Const('x!card', dom), z3.Const('y!card', dom)
        self.run.assume(c >= 0, silent=True)
        self.run.assume((c == 0) == z3.Not(z3.Exists([x], chi[x])), silent=True)
        self.run.assume((c <= 1) == z3.ForAll([x, y], z3.Implies(z3.And(chi[x], chi[y]), x == y)), silent=True)
        return c

    # ---- dicts
    def dict_has(self, d):
        ks = sort_of(d.kty)
        name = f'D.has:{ks}'
        return name, self.H(d).get(name, arr(Ref, arr(ks, B)))

    def dict_val(self, d):
        ks, vs = sort_of(d.kty), sort_of(d.vty)
        name = f'D.val:{ks}:{vs}'
        return name, self.H(d).get(name, arr(Ref, arr(ks, vs)))

    def new_dict(self, kty, vty):
        r = self.alloc('dict')
        d = DictV(r, kty, vty)
        name, a = self.dict_has(d)
        self.heap.set(name, z3.Store(a, r, z3.K(sort_of(kty), z3.BoolVal(False))))
        self._dict_order_reset(d)
        return d

    def dict_contains(self, d, k):
        has = self.dict_has(d)[1][d.ref][self.coerce_term(k, d.kty)]
        if isinstance(k, SV) and isinstance(k.ty, TOpt) and not isinstance(d.kty, TOpt):
            # None is never a key of a dict whose declared key type is not Optional
            return z3.And(z3.Not(self.opt_is_none(k)), has)
        if k is None and not isinstance(d.kty, TOpt):
            return z3.BoolVal(False)
        return has

    def dict_load(self, d, k):
        _, va = self.dict_val(d)
        return self.assume_domain(self.wrap(va[d.ref][self.coerce_term(k, d.kty)], d.vty, d.heap))

    def dict_store(self, d, k, v):
        kt = self.coerce_term(k, d.kty)
        hn, ha = self.dict_has(d)
        vn, va = self.dict_val(d)
        self._dict_order_store(d, kt, ha[d.ref][kt])
        self.heap.set(hn, z3.Store(ha, d.ref, z3.Store(ha[d.ref], kt, True)))
        self.heap.set(vn, z3.Store(va, d.ref, z3.Store(va[d.ref], kt, self.coerce_term(self.materialize(v, d.vty), d.vty))))

    def dict_delete(self, d, k):
        kt = self.coerce_term(k, d.kty)
        hn, ha = self.dict_has(d)
        self.heap.set(hn, z3.Store(ha, d.ref, z3.Store(ha[d.ref], kt, False)))
        self._dict_order_havoc(d)

    # insertion order ghost: per dict a sequence ord[0..olen) of its keys (python dicts iterate in insertion order).
    # Updated exactly on insertion of a new key / clear / copy / comprehension, havocked on deletion. Only *observed* by
    # ordered iteration (dict_ordered_iter), which then assumes that ord enumerates the keys without repetition - true of
    # every real dict at every moment, hence sound wherever it is assumed.
    def dict_order(self, d):
        ks = sort_of(d.kty)
        h = self.H(d)
        return (f'D.ord:{ks}', h.get(f'D.ord:{ks}', arr(Ref, arr(I, ks))), f'D.olen:{ks}', h.get(f'D.olen:{ks}', arr(Ref, I)))

    def dict_order_set(self, d, row, length):
        on, oa, ln, la = self.dict_order(d)
        if row is not None:
            self.heap.set(on, z3.Store(oa, d.ref, row))
        self.heap.set(ln, z3.Store(la, d.ref, length))

    def _dict_order_reset(self, d):
        self.dict_order_set(d, None, z3.IntVal(0))

    def _dict_order_store(self, d, kt, was_present):
        on, oa, ln, la = self.dict_order(d)
        n = la[d.ref]
        self.dict_order_set(d, z3.If(was_present, oa[d.ref], z3.Store(oa[d.ref], n, kt)), z3.If(was_present, n, n + 1))

    def _dict_order_havoc(self, d):
        on, oa, ln, la = self.dict_order(d)
        self.dict_order_set(d, self.run.fresh('ord', oa[d.ref].sort()), self.run.fresh('olen', I))

    def dict_ordered_iter(self, d):
        """(index const j, guard 0<=j<olen, key term ord[j]) for iteration in insertion order"""
        on, oa, ln, la = self.dict_order(d)
        row, n = oa[d.ref], la[d.ref]
        has = self.dict_has(d)[1][d.ref]
        i, j = z3.Const('i!do', I), z3.Const('j!do', I)
        k = z3.Const('k!do', sort_of(d.kty))
        self.run.assume(n >= 0, silent=True)
        self.run.assume(z3.ForAll([i], z3.Implies(z3.And(0 <= i, i < n), has[row[i]])), silent=True)
        self.run.assume(z3.ForAll([k], z3.Implies(has[k], z3.Exists([i], z3.And(0 <= i, i < n, row[i] == k)))), silent=True)
        self.run.assume(z3.ForAll([i, j], z3.Implies(z3.And(0 <= i, i < j, j < n), row[i] != row[j])), silent=True)
        x = self.run.fresh('gj', I)
        return x, z3.And(0 <= x, x < n), row[x]

    def dict_eq(self, a, b):
        if isinstance(b, ConstDict) and not b.items:
            x = z3.Const('x!deq', sort_of(a.kty))
            return z3.Not(z3.Exists([x], self.dict_has(a)[1][a.ref][x]))
        if isinstance(a, ConstDict):
            return self.dict_eq(b, a)
        if isinstance(a, RecV) and isinstance(b, ConstDict) and all(isinstance(k, str) for k, _ in b.items):
            # payload record == dict literal: the record holds exactly the keys of the literal, with equal values.
            # The declared keys are REC_KEYS; `R.has.<undeclared>` is a ghost flag "the record has some key outside
            # REC_KEYS" (unconstrained for a record received from outside, False for a dict literal)
            want = dict(b.items)
            cs = []
            for k in sorted(getattr(self.ts.shapes, 'REC_KEYS', {})):
                if k in want:
                    cs.append(self.rec_contains(a, k))
                    cs.append(self.eq(self.rec_load(a, k), want[k]))
                else:
                    cs.append(self.neg(self.rec_contains(a, k)))
            for k in want:
                self.ts.rec_key_type(k)     # a key of the literal that is not declared: engine error naming it
            cs.append(self.neg(self.rec_contains(a, self.REC_UNDECLARED)))
            return self.conj(cs)
        raise Unsupported('dict == dict (non-empty)')

    REC_UNDECLARED = '<undeclared>'

    # ---- records (payload dicts with literal keys)
    def rec_field(self, key, heap=None):
        ty = self.ts.rec_key_type(key)
        s = sort_of(ty)
        return (heap or self.heap).get(f'R.{key}:{s}', arr(Ref, s)), f'R.{key}:{s}', ty

    def rec_has(self, key, heap=None):
        return (heap or self.heap).get(f'R.has.{key}', arr(Ref, B)), f'R.has.{key}'

    def rec_contains(self, r, key):
        return self.rec_has(key, self.H(r))[0][r.ref]

    def rec_load(self, r, key):
        a, _, ty = self.rec_field(key, self.H(r))
        return self.assume_domain(self.wrap(a[r.ref], ty, r.heap))

    def rec_store(self, r, key, v):
        a, name, ty = self.rec_field(key)
        self.heap.set(name, z3.Store(a, r.ref, self.coerce_term(self.materialize(v, ty), ty)))
        h, hn = self.rec_has(key)
        self.heap.set(hn, z3.Store(h, r.ref, True))

    def new_rec(self, items):
        r = self.alloc('rec')
        rv = RecV(r)
        rk = getattr(self.ts.shapes, 'REC_KEYS', {})
        given = set()
        for k, v in items:
            if not isinstance(k, str):
                raise Unsupported('record with non-literal key')
            self.rec_store(rv, k, v)
            given.add(k)
        for k in list(rk) + [self.REC_UNDECLARED]:    # a dict literal has exactly its keys
            if k not in given:
                h, hn = self.rec_has(k)
                self.heap.set(hn, z3.Store(h, r, False))
        return rv

    # ---- generic membership / iteration support
    def member_term(self, coll, x):
        """Bool term: z3 term x (of the element sort) is a member of the collection value"""
        if isinstance(coll, (SetV, SymSet)):
            return self.set_chi(coll)[x]
        if isinstance(coll, DictV):
            return self.dict_has(coll)[1][coll.ref][x]
        if isinstance(coll, ValuesView):
            d = coll.d
            if coll.what == 'keys':
                return self.dict_has(d)[1][d.ref][x]
            if coll.what == 'values':
                k = z3.Const('k!mem', sort_of(d.kty))
                return z3.Exists([k], z3.And(self.dict_has(d)[1][d.ref][k], self.dict_val(d)[1][d.ref][k] == x))
        if isinstance(coll, ListV):
            i = z3.Const('i!mem', I)
            _, da = self.list_data(coll)
            return z3.Exists([i], z3.And(0 <= i, i < self.list_len(coll), da[coll.ref][i] == x))
        raise Unsupported(f'membership in {type(coll).__name__}')

    def contains(self, coll, v):
        """python `v in coll`"""
        if isinstance(coll, (ConstSeq, tuple)):
            items = coll.items if isinstance(coll, ConstSeq) else coll
            return self.disj([self.eq(v, it) for it in items])
        if isinstance(coll, ConstDict):
            return self.disj([self.eq(v, k) for k, _ in coll.items])
        if isinstance(coll, RecV):
            if isinstance(v, str):
                return self.rec_contains(coll, v)
            raise Unsupported('symbolic key in payload record')
        if isinstance(coll, ListV) and coll.known is not None:
            return self.disj([self.eq(v, it) for it in coll.known])
        ety = self.elem_type(coll)
        if ety == ANY:
            return False
        if isinstance(v, SV) and isinstance(v.ty, TOpt) and not isinstance(ety, TOpt):
            return z3.And(z3.Not(self.opt_is_none(v)), self.member_term(coll, self.opt_payload(v)))
        if v is None and not isinstance(ety, TOpt):
            return False
        return self.member_term(coll, self.coerce_term(v, ety))


# =====================================================================================================================
# expressions
# =====================================================================================================================
class InterpExpr:
    BUILTIN_NAMES = {'len', 'list', 'set', 'dict', 'tuple', 'sorted', 'min', 'max', 'sum', 'any', 'all', 'next', 'iter',
                     'isinstance', 'type', 'str', 'int', 'float', 'bool', 'range', 'zip', 'enumerate', 'filter', 'map',
                     'getattr', 'setattr', 'hasattr', 'abs', 'round', 'print', 'repr', 'super', 'reversed', 'frozenset',
                     'issubclass', 'callable', 'id', 'divmod'}
    SPEC_NAMES = {'forall', 'exists', 'implies', 'iff', 'ite', 'typed', 'fresh_in', 'effects', 'unchanged', 'is_alloc',
                  'dom_eq', 'card', 'keys', 'same_list', 'rank', 'IntT', 'StrT', 'RealT', 'BoolT', 'ObjT', 'count_effects',
                  'effect_at', 'no_effect', 'was_fresh', 'seq_len', 'raises_exc', 'lemma', 'old_heap'}
    EXC_NAMES = {'Exception', 'KeyError', 'ValueError', 'TypeError', 'IndexError', 'AttributeError', 'RuntimeError',
                 'NotImplementedError', 'ZeroDivisionError', 'StopIteration', 'AssertionError', 'OSError', 'LookupError',
                 'ArithmeticError', 'ImportError', 'ModuleNotFoundError', 'SyntaxError', 'OverflowError', 'BaseException',
                 'FileNotFoundError', 'IOError', 'UnicodeError', 'RecursionError', 'MemoryError'}

    def partial(self, ok, exc, line):
        """partial operation: `ok` is the condition under which it does not raise `exc`"""
        if ok is True or self.mode == SPEC:
            return
        site = f'safe:{exc}@{self.cur_fn}:{line}'
        if self.mode == SPECULATE:
            if ok is False or self.run._check(z3.Not(self.as_bool(ok))) != z3.unsat:
                raise SpeculationFailed()
            self.safe_sites.setdefault(site, 'ok')
            return
        self.safe_sites.setdefault(site, 'ok')
        if self.mode == GENERIC:
            if not self.run.oblige(site + '[generic]', 'safe', self.as_bool(ok), line):
                self.safe_sites[site] = 'refuted'
            self.run.assume(self.as_bool(ok))
            return
        if ok is False or not self.run.decide(ok):
            raise PyRaise(ExcV(exc, ()), line, implicit=site)

    def speculate(self, fn):
        """evaluate fn() without forking; SpeculationFailed (state rolled back) if it would fork, write the heap, emit
        an effect or contains a partial operation that is not provably safe here"""
        heap = self.heap
        saved = (dict(heap.arr), {k: list(v) for k, v in heap.log.items()}, len(heap.epochs), len(self.effects),
                 self.mode, self.clock)
        self.mode = SPECULATE
        self.run.no_fork += 1
        self.run.push()
        ok = False
        try:
            v = fn()
            if len(heap.epochs) != saved[2] or len(self.effects) != saved[3]:
                raise SpeculationFailed()
            for k, t in saved[0].items():
                if not heap.arr[k].eq(t):
                    raise SpeculationFailed()
            ok = True
            return v
        except Unsupported:
            raise SpeculationFailed()
        finally:
            self.run.pop()
            self.run.no_fork -= 1
            self.mode = saved[4]
            if not ok:
                heap.arr = saved[0]
                heap.log = saved[1]
                del heap.epochs[saved[2]:]
                del self.effects[saved[3]:]
                self.clock = saved[5]

    def ev(self, n, fr):
        m = getattr(self, 'ev_' + type(n).__name__, None)
        if m is None:
            raise Unsupported(f'expression {type(n).__name__} at line {getattr(n, "lineno", "?")}')
        if hasattr(n, 'lineno'):
            self.cur_line = n.lineno
        return m(n, fr)

    def ev_Constant(self, n, fr):
        v = n.value
        if v is Ellipsis:
            return None
        return v

    def ev_Name(self, n, fr):
        return self.lookup(n.id, fr)

    def lookup(self, name, fr):
        if name in fr.vars:
            return fr.vars[name]
        if name == 'old' and self.mode == SPEC:
            raise Unsupported('old used outside a postcondition')
        return self.module_name(fr.module, name)

    def module_name(self, modname, name):
        mod = self.ct.modules.get(modname)
        if mod is not None:
            if getattr(mod, 'external', False) and f'{modname}.{name}' in self.reg.ext_contracts:
                return Builtin(f'ext:{modname}.{name}')
            if name in mod.functions:
                return FuncV(mod.functions[name])
            if name in mod.classes:
                return ClassV(name)
            if name in mod.assigns:
                key = (modname, name)
                return self.ev(mod.assigns[name], Frame(None, modname))
            if name in mod.imports:
                imp = mod.imports[name]
                if imp[0] == 'module':
                    return ModuleV(imp[1])
                src = imp[1]
                if src.startswith('supvisors.'):
                    src = src[len('supvisors.'):]
                if src in self.ct.modules:
                    return self.module_name(src, imp[2])
                if imp[2] in self.ct.classes:
                    return ClassV(imp[2])
                return self.external_name(src, imp[2])
            for sm in getattr(mod, 'star_imports', []):
                m2 = self.ct.modules.get(sm)
                if m2 is not None and (name in m2.classes or name in m2.functions or name in m2.assigns or name in m2.imports):
                    return self.module_name(sm, name)
        if name in self.ct.classes and modname.startswith('contracts'):
            return ClassV(name)
        if modname.startswith('contracts') and name in self.reg.spec_funcs:
            return FuncV(self.reg.spec_funcs[name])    # helper predicate of another contract file
        if modname.startswith('contracts') and name in getattr(self.ts.shapes, 'EXTERNAL_TYPES', {}):
            return ClassV(name)      # external class declared in shapes (quantification over its allocated objects)
        if modname.startswith('contracts'):
            # contract files may name enums / constants of any repo module without importing them
            for mn, m2 in self.ct.modules.items():
                if name in m2.assigns and not mn.startswith('supervisor.'):
                    return self.module_name(mn, name)
            for mn in ('supervisor.states',):
                if name in self.ct.modules[mn].assigns or name in self.ct.modules[mn].classes:
                    return self.module_name(mn, name)
        if name in self.BUILTIN_NAMES or name in self.SPEC_NAMES or hasattr(self, 'bi_' + name):
            return Builtin(name)
        if name in self.EXC_NAMES:
            return ClassV(name)
        if name in ('True', 'False', 'None'):
            return {'True': True, 'False': False, 'None': None}[name]
        raise Unsupported(f'unresolved name {name!r} in module {modname}')

    def external_name(self, src, name):
        ext = self.reg.externals.get(f'{src}.{name}')
        if ext is not None:
            return ext if not callable(ext) or isinstance(ext, (Builtin, ClassV)) else Builtin(f'ext:{src}.{name}')
        if name in self.EXC_NAMES:
            return ClassV(name)
        return Builtin(f'ext:{src}.{name}')

    # ---------------------------------------------------------------- attributes
    def ev_Attribute(self, n, fr):
        base = self.ev(n.value, fr)
        return self.getattr(base, n.attr, n.lineno)

    def getattr(self, base, attr, line=0):
        if isinstance(base, SV) and isinstance(base.ty, TOpt):
            self.partial(self.neg(self.opt_is_none(base)), 'AttributeError', line)
            return self.getattr(self.narrow_opt(base), attr, line)
        if base is None:
            self.partial(False, 'AttributeError', line)
            raise Unsupported('attribute of None in spec mode')
        if isinstance(base, ObjV):
            return self.obj_getattr(base, attr, line)
        if isinstance(base, OldNS):
            if attr not in base.vars:
                raise Unsupported(f'old.{attr}: no such parameter')
            return self.pin(base.vars[attr], base.heap)
        if isinstance(base, LoggerV):
            if attr == 'level':
                return SV(self.run.fresh('loglevel', I), INT)
            return Builtin('logger.' + attr)
        if isinstance(base, EnumMember):
            if attr == 'name':
                return base.name
            if attr == 'value':
                return base.value
        if isinstance(base, SV) and isinstance(base.ty, TEnum):
            info = self.ts.enum_info(base.ty.name)
            if attr in ('name', 'value'):
                res = None
                for mname, code, val in reversed(info['members']):
                    x = mname if attr == 'name' else val
                    xt = self.lift(x)
                    res = xt if res is None else z3.If(base.t == code, xt, res)
                return SV(res, STR if res.sort() == Str else INT)
        if attr == '__name__' and isinstance(base, (ClassV, TypeOfV)):
            return base.name.split('.')[-1] if isinstance(base, ClassV) else self.opaque_str()
        if isinstance(base, ClassV):
            return self.class_getattr(base.name, attr, line)
        if isinstance(base, ModuleV):
            key = f'{base.name}.{attr}'
            if key in self.reg.externals:
                return self.reg.externals[key]
            return Builtin('ext:' + key)
        if isinstance(base, SuperV):
            fi = self.ct.find_method(base.selfv.cls, attr, after=base.after)
            if fi is None:
                if attr == '__init__':
                    return Builtin('noop')
                raise Unsupported(f'super().{attr} not found after {base.after}')
            return BoundMethod(base.selfv, fi)
        if isinstance(base, ExcV):
            if attr == 'message' and base.args:
                return base.args[0]
            if attr in ('code', 'text') and base.cls == 'RPCError':
                return base.args[0] if attr == 'code' and base.args else (base.args[1] if len(base.args) > 1 else None)
            if attr == 'args':
                return tuple(base.args)
        if isinstance(base, FuncV) and attr in getattr(base.fi, 'fattrs', {}):
            return base.fi.fattrs[attr]
        if isinstance(base, Builtin) and base.name.startswith('ext:'):
            key = f'{base.name[4:]}.{attr}'
            if key in self.reg.externals:
                return self.reg.externals[key]
            return Builtin('ext:' + key)
        if isinstance(base, (ListV, SetV, DictV, RecV, ConstSeq, ConstDict, SymSet, ValuesView)) or isinstance(base, (str, tuple)) \
                or (isinstance(base, SV) and base.ty in (STR, INT, REAL)):
            return Builtin('m:' + attr, base)
        raise Unsupported(f'attribute {attr!r} of {type(base).__name__} ({base!r:.60}) at line {line}')

    def pin(self, v, heap):
        if isinstance(v, ObjV):
            return ObjV(v.ref, v.cls, heap)
        if isinstance(v, ListV):
            return ListV(v.ref, v.ety, heap)
        if isinstance(v, SetV):
            return SetV(v.ref, v.ety, heap)
        if isinstance(v, DictV):
            return DictV(v.ref, v.kty, v.vty, heap)
        if isinstance(v, RecV):
            return RecV(v.ref, heap)
        if isinstance(v, tuple):
            return tuple(self.pin(x, heap) for x in v)
        if isinstance(v, SV) and isinstance(v.ty, TOpt) and not self._is_scalar_type(v.ty.t):
            # Optional[reference]: the view is kept by the value and used when it is narrowed (see narrow_opt)
            sv = SV(v.t, v.ty)
            sv.heap = heap
            return sv
        return v

    @staticmethod
    def _is_scalar_type(ty):
        return isinstance(ty, (TPrim, TEnum, TTuple))

    def obj_getattr(self, obj, attr, line):
        cls = obj.cls
        g = self.ct.find_getter(cls, attr)
        if g is not None:
            ovr = self.reg.getter_override(cls, attr)
            if ovr is not None:
                return ovr(self, obj)
            return self.call_function(g, [obj], {}, line, selfv=obj)
        if attr == 'logger':
            return LoggerV()
        ft = self.ts.field_type(cls, attr)
        if ft is None and self.ct.find_method(cls, attr) is None:
            ic = self.init_constant(obj, attr)
            if ic is not NotImplemented:
                return ic
        if ft is not None and self._has_fun(ft) and not self.ct.is_instance_assigned(cls, attr):
            # annotated class-level table of classes / functions never assigned through an instance: a class constant
            cd = self.ct.class_default(cls, attr)
            if cd is not None:
                dc = next(c for c in self.ct.mro(cls) if attr in self.ct.classes[c].class_ann)
                return self.ev(cd[0], Frame(None, cd[1], {}, None, dc))
        if ft is not None and (self.ct.is_field(cls, attr) or (cls, attr) in getattr(self.ts.shapes, 'FIELD_TYPES', {})
                               or ('*', attr) in getattr(self.ts.shapes, 'FIELD_TYPES', {})):
            return self.read_field(obj, attr)
        fi = self.ct.find_method(cls, attr)
        if fi is not None:
            if fi.kind == 'static':
                return FuncV(fi)
            return BoundMethod(obj, fi)
        cc = self.ct.find_class_const(cls, attr)
        if cc is not None:
            v = self.class_const(cc, attr)
            if isinstance(v, (FuncV,)):   # function-valued class attribute is bound on access
                return BoundMethod(obj, v.fi)
            return v
        if cls not in self.ct.classes:
            ext = self.reg.external_attr(cls, attr)
            if ext is not None:
                return ext(self, obj)
        down = self.downcast_getattr(obj, attr, line)
        if down is not NotImplemented:
            return down
        raise Unsupported(f'{cls}.{attr}: neither property, field, method nor class constant (line {line})')

    def downcast_getattr(self, obj, attr, line):
        """attribute that the static class does not have but some of its subclasses declare as a field: python raises
        AttributeError unless the dynamic class is one of them (partial operation), then reads that class's field"""
        if obj.cls not in self.ct.classes or self.is_exact(obj):
            return NotImplemented
        cands = []
        for c in self.ct.subclasses(obj.cls):
            if c == obj.cls:
                continue
            ft = self.ts.field_type(c, attr)
            if ft is not None and ft != ANY and self.ct.find_getter(c, attr) is None:
                cands.append((c, ft))
        if not cands:
            return NotImplemented
        ids = lambda cs: z3.Or([class_of(obj.ref) == self.ts.class_id(c) for c in cs])
        self.partial(ids([c for c, _ in cands]), 'AttributeError', line)
        groups = {}
        for c, ft in cands:
            groups.setdefault(ft, []).append(c)
        glist = list(groups.items())
        if len(glist) > 1:
            if self.mode != EXEC:
                raise Unsupported(f'{obj.cls}.{attr} has different types in subclasses: narrow the object first '
                                  f'(quantify over the subclass) at line {line}')
            for ft, cs in glist[:-1]:
                if self.run.decide(ids(cs)):
                    return self.read_field(ObjV(obj.ref, cs[0], obj.heap), attr)
        ft, cs = glist[-1]
        return self.read_field(ObjV(obj.ref, cs[0], obj.heap), attr)
    def init_constant(self, obj, attr):
        """untyped attribute whose only writer in the whole repository is one unconditional `self.attr = <constant
        expression>` statement at the top level of the __init__ that constructs objects of the receiver's exact class
        (e.g. `self.pickup_logic = max`): reading it yields that constant (the instance attribute shadows any class-level
        default). NotImplemented when the pattern does not apply; Unsupported when it applies only partly."""
        cache = self.ct.__dict__.setdefault('_attr_writers', {})
        writers = cache.get(attr)       # (class, method name, top-level?, value AST)
        for cname, ci in (self.ct.classes.items() if writers is None else ()):
            writers = cache.setdefault(attr, [])
            if ci.module.startswith('supervisor.'):
                continue
            for m in list(ci.methods.values()) + list(ci.setters.values()) + list(ci.getters.values()):
                for sub in ast.walk(m.node):
                    tgts = sub.targets if isinstance(sub, ast.Assign) else [sub.target] if isinstance(sub, (ast.AugAssign, ast.AnnAssign)) else []
                    for t in tgts:
                        for tt in (t.elts if isinstance(t, ast.Tuple) else [t]):
                            if isinstance(tt, ast.Attribute) and tt.attr == attr:
                                is_self = isinstance(tt.value, ast.Name) and tt.value.id == 'self'
                                writers.append((cname if is_self else None, m.name, sub in m.node.body, getattr(sub, 'value', None)))
        if not cache.get(('mod', attr)):
            cache[('mod', attr)] = True
            for mod in self.ct.modules.values():     # module-level functions writing <expr>.attr
                for f in ([] if mod.name.startswith(('supervisor.', 'contracts')) else mod.functions.values()):
                    for sub in ast.walk(f.node):
                        if isinstance(sub, ast.Attribute) and sub.attr == attr and isinstance(sub.ctx, ast.Store):
                            writers.append((None, f.name, False, None))
        if not writers:
            return NotImplemented
        mro = self.ct.mro(obj.cls)
        related = [w for w in writers if w[0] is None or w[0] in mro or obj.cls in self.ct.mro(w[0])]
        if not related:
            return NotImplemented
        init = self.ct.find_method(obj.cls, '__init__')
        if (not self.is_exact(obj) or init is None or len(related) != 1 or related[0][0] != init.cls
                or related[0][1] != '__init__' or not related[0][2]):
            raise Unsupported(f'{obj.cls}.{attr}: untyped attribute that is not a constant set once by the constructor of '
                              f'an exact receiver class (writers: {[(w[0], w[1]) for w in related]}); declare its type in '
                              f'contracts/shapes.py FIELD_TYPES')
        v = related[0][3]
        ok = isinstance(v, ast.Constant) or (isinstance(v, ast.Name) and v.id in self.BUILTIN_NAMES) or (
            isinstance(v, ast.Attribute) and isinstance(v.value, ast.Name) and v.value.id in self.ct.classes)
        if not ok:
            raise Unsupported(f'{obj.cls}.{attr}: constructor value is not a constant expression')
        return self.ev(v, Frame(None, init.module, {}, None, init.cls))

    def _has_fun(self, ty, inner=False):
        """the declared type holds callables / classes (Callable, Type, or an untyped element of a container)"""
        if isinstance(ty, TFun) or (inner and ty == ANY):
            return True
        return any(self._has_fun(x, True) for x in (getattr(ty, 't', None), getattr(ty, 'k', None), getattr(ty, 'v', None))
                   if isinstance(x, Ty))

    def class_heap_attr(self, dc, name):
        """mutable class-level attribute declared in shapes.CLASS_HEAP_ATTRS: ONE heap object shared by every access
        (python evaluates the class body once), allocated before the function under proof starts, contents unknown"""
        ty = getattr(self.ts.shapes, 'CLASS_HEAP_ATTRS', {}).get((dc, name))
        if ty is None:
            return None
        v = self.wrap(z3.Const(f'classattr:{dc}.{name}', Ref), ty)
        self.assume_domain(v)
        if getattr(self, 'old_heap', None) is not None:
            self.run.assume(self.old_heap.get('alloc', arr(Ref, B))[v.ref], silent=True)
        return v

    def class_const(self, cc, name=None):
        dc, node = cc
        if name is not None:
            hv = self.class_heap_attr(dc, name)
            if hv is not None:
                return hv
        modname = self.ct.classes[dc].module
        if isinstance(node, tuple):
            _, idx, v = node
            raise Unsupported('tuple-assigned class constant outside enum')
        fr = Frame(None, modname, {}, None, dc)
        # names of the class namespace are visible while evaluating the class body
        return self.ev(node, fr)

    def class_getattr(self, cname, attr, line):
        if cname in self.ct.classes:
            if self.ts.is_enum_class(cname):
                m = self.ts.enum_member(cname, attr)
                if m is not None:
                    if not self.ts.enum_info(cname)['is_enum']:
                        return m.value
                    return m
            fi = self.ct.find_method(cname, attr)
            if fi is not None:
                return FuncV(fi)
            cc = self.ct.find_class_const(cname, attr)
            if cc is not None:
                return self.class_const(cc, attr)
            cd = self.ct.class_default(cname, attr)
            if cd is not None:
                return self.ev(cd[0], Frame(None, cd[1], {}, None, cname))
        key = f'{cname}.{attr}'
        if key in self.reg.externals:
            return self.reg.externals[key]
        raise Unsupported(f'class attribute {cname}.{attr}')

    # ---------------------------------------------------------------- subscripts
    def ev_Subscript(self, n, fr):
        base = self.ev(n.value, fr)
        if isinstance(n.slice, ast.Slice):
            return self.slice(base, n.slice, fr, n.lineno)
        key = self.ev(n.slice, fr)
        return self.getitem(base, key, n.lineno)

    def getitem(self, base, key, line):
        if isinstance(base, SV) and isinstance(base.ty, TOpt):
            self.partial(self.neg(self.opt_is_none(base)), 'TypeError', line)
            return self.getitem(self.narrow_opt(base), key, line)
        if base is None:
            self.partial(False, 'TypeError', line)
            raise Unsupported('subscript of None in spec mode')
        if isinstance(base, RecV):
            if not isinstance(key, str):
                raise Unsupported(f'payload record subscripted with a non-literal key at line {line}')
            self.partial(self.rec_contains(base, key), 'KeyError', line)
            return self.rec_load(base, key)
        if isinstance(base, DictV):
            self.partial(self.dict_contains(base, key), 'KeyError', line)
            return self.dict_load(base, key)
        if isinstance(base, ConstDict):
            if not isinstance(key, (SV,)):
                for k, v in base.items:
                    if self.eq(k, key) is True:
                        return v
                self.partial(False, 'KeyError', line)
            self.partial(self.disj([self.eq(k, key) for k, _ in base.items]), 'KeyError', line)
            for k, v in base.items[:-1]:
                if self.run.decide(self.as_bool(self.eq(k, key))) if self.mode == EXEC else False:
                    return v
            if self.mode == EXEC:
                return base.items[-1][1]
            return self.ite_chain([(self.eq(k, key), v) for k, v in base.items])
        if isinstance(base, (ConstSeq, tuple)):
            items = base.items if isinstance(base, ConstSeq) else list(base)
            if isinstance(key, int) and not isinstance(key, bool):
                self.partial(-len(items) <= key < len(items), 'IndexError', line)
                return items[key]
            if isinstance(key, SV):
                self.partial(z3.And(key.t >= 0, key.t < len(items)), 'IndexError', line)
                return self.ite_chain([(key.t == i, v) for i, v in enumerate(items)])
        if isinstance(base, ListV):
            n = self.list_len(base)
            if isinstance(key, int) and key < 0:
                idx = n + key
            else:
                idx = self.lift(key)
            self.partial(z3.And(idx >= 0, idx < n), 'IndexError', line)
            return self.list_get(base, idx)
        if isinstance(base, SV) and isinstance(base.ty, TTuple):
            tup = self.wrap(base.t, base.ty)
            return self.getitem(tup, key, line)
        if isinstance(base, ClassV) and base.name in self.ct.classes and self.ts.is_enum_class(base.name) \
                and self.ts.enum_info(base.name)['is_enum']:
            return self.enum_by_name(base.name, key, line)
        if isinstance(base, ClassV) and self.ts.is_enum_class(base.name) and self.ts.enum_info(base.name)['is_enum']:
            # EnumClass[name]: the member of that name, KeyError otherwise
            members = self.ts.enum_info(base.name)['members']
            if isinstance(key, str):
                m = self.ts.enum_member(base.name, key)
                if m is None:
                    self.partial(False, 'KeyError', line)
                    raise Unsupported('unknown enum member name in spec mode')
                return m
            if isinstance(key, SV) and (key.ty == STR or key.ty == TOpt(STR)):
                self.partial(z3.Or([key.t == self.strlit(mn) for mn, _, _ in members]), 'KeyError', line)
                t = None
                for mn, code, _ in reversed(members):
                    t = z3.IntVal(code) if t is None else z3.If(key.t == self.strlit(mn), code, t)
                return SV(t, TEnum(base.name))
        h = self.reg.getitem_hook(self, base, key, line)
        if h is not NotImplemented:
            return h
        raise Unsupported(f'subscript of {type(base).__name__} at line {line}')

    def ite_chain(self, pairs):
        """value-level if-then-else over scalar / same-kind reference values"""
        vals = [v for _, v in pairs]
        v0 = vals[-1]
        if all(isinstance(v, HeapVal) for v in vals):
            if any(type(v) is not type(v0) for v in vals):
                # `some_list or some_set`: one reference term must not be read through the heap arrays of another kind
                # (speculative evaluation then gives up and the caller forks on the condition instead)
                raise Unsupported('if-then-else over heap values of different kinds (list / set / dict / object)')
            t = v0.ref
            for c, v in reversed(pairs[:-1]):
                t = z3.If(self.as_bool(c), v.ref, t)
            return self.pin_like(v0, t)
        if all(self.family(v) == self.family(v0) for v in vals):
            ty = self.value_type(v0)
            if ty == INT and any(self.value_type(v) == REAL for v in vals):
                ty = REAL    # `x / y if y else 0`: the numeric tower, the result is represented as a real
            t = self.coerce_term(v0, ty)
            for c, v in reversed(pairs[:-1]):
                t = z3.If(self.as_bool(c), self.coerce_term(v, ty), t)
            return self.wrap(t, ty)
        # Optional mixed with plain values of its base type -> Optional
        opts = [v for v in vals if isinstance(v, SV) and isinstance(v.ty, TOpt)]
        if opts and all(v is None or (isinstance(v, SV) and isinstance(v.ty, TOpt)) or self.family(v) == self.family(self.narrow_opt(opts[0]))
                        for v in vals):
            ty = opts[0].ty
            t = self.coerce_term(v0, ty)
            for c, v in reversed(pairs[:-1]):
                t = z3.If(self.as_bool(c), self.coerce_term(v, ty), t)
            return self.wrap(t, ty)
        # mixed None / value -> Optional
        non = [v for v in vals if v is not None]
        if non and len(non) < len(vals):
            ty = TOpt(self.value_type(non[0]))
            t = self.coerce_term(v0, ty)
            for c, v in reversed(pairs[:-1]):
                t = z3.If(self.as_bool(c), self.coerce_term(v, ty), t)
            return self.wrap(t, ty)
        raise Unsupported('if-then-else over values of different kinds')

    def pin_like(self, v, ref):
        if isinstance(v, ObjV):
            return ObjV(ref, v.cls, v.heap)
        if isinstance(v, ListV):
            return ListV(ref, v.ety, v.heap)
        if isinstance(v, SetV):
            return SetV(ref, v.ety, v.heap)
        if isinstance(v, DictV):
            return DictV(ref, v.kty, v.vty, v.heap)
        return RecV(ref, v.heap)

    def value_type(self, v):
        if isinstance(v, SV):
            return v.ty
        if isinstance(v, bool):
            return BOOL
        if isinstance(v, int):
            return INT
        if isinstance(v, float):
            return REAL
        if isinstance(v, str):
            return STR
        if isinstance(v, EnumMember):
            return TEnum(v.cls)
        if isinstance(v, ObjV):
            return TObj(v.cls)
        if isinstance(v, ListV):
            return TList(v.ety)
        if isinstance(v, SetV):
            return TSet(v.ety)
        if isinstance(v, DictV):
            return TDict(v.kty, v.vty)
        if isinstance(v, RecV):
            return REC
        if isinstance(v, tuple):
            return TTuple([self.value_type(x) for x in v])
        if isinstance(v, ConstSeq):
            if v.kind == 'tuple':
                return TTuple([self.value_type(x) for x in v.items])
            if v.items:
                return TList(self.value_type(v.items[0]))
            return TList(ANY)
        if v is None:
            return NONE
        raise Unsupported(f'type of value {type(v).__name__}')

    def slice(self, base, sl, fr, line):
        lo = self.ev(sl.lower, fr) if sl.lower else None
        hi = self.ev(sl.upper, fr) if sl.upper else None
        if sl.step is not None:
            raise Unsupported('slice step')
        if isinstance(base, (ConstSeq, tuple)) and all(x is None or isinstance(x, int) for x in (lo, hi)):
            items = base.items if isinstance(base, ConstSeq) else list(base)
            return ConstSeq(items[lo:hi], 'list' if isinstance(base, ConstSeq) else 'tuple')
        h = self.reg.slice_hook(self, base, lo, hi, line)
        if h is not NotImplemented:
            return h
        raise Unsupported(f'slice of {type(base).__name__} at line {line}')

    # ---------------------------------------------------------------- operators
    def ev_Compare(self, n, fr):
        left = self.ev(n.left, fr)
        res = []
        for op, rn in zip(n.ops, n.comparators):
            right = self.ev(rn, fr)
            res.append(self.compare(op, left, right, n.lineno))
            left = right
        return self.bool_value(self.conj(res))

    def bool_value(self, b):
        return b if isinstance(b, bool) else SV(b, BOOL)

    def compare(self, op, a, b, line):
        if isinstance(op, ast.Eq):
            return self.eq(a, b)
        if isinstance(op, ast.NotEq):
            return self.neg(self.eq(a, b))
        if isinstance(op, (ast.Is, ast.IsNot)):
            r = self.identical(a, b)
            return r if isinstance(op, ast.Is) else self.neg(r)
        if isinstance(op, ast.In):
            return self.contains_checked(b, a, line)
        if isinstance(op, ast.NotIn):
            return self.neg(self.contains_checked(b, a, line))
        return self.order(op, a, b, line)

    def contains_checked(self, coll, v, line):
        if isinstance(coll, SV) and isinstance(coll.ty, TOpt):
            self.partial(self.neg(self.opt_is_none(coll)), 'TypeError', line)
            coll = self.narrow_opt(coll)
        if coll is None:
            self.partial(False, 'TypeError', line)
        if isinstance(coll, str) and isinstance(v, str):
            return v in coll
        if isinstance(coll, (str, SV)):
            h = self.reg.contains_hook(self, coll, v, line)
            if h is not NotImplemented:
                return h
            raise Unsupported(f'`in` on {coll!r:.40} at line {line}')
        return self.contains(coll, v)

    def identical(self, a, b):
        if isinstance(a, TypeOfV) or isinstance(b, TypeOfV):
            return self.type_is(a, b)
        if a is None or b is None:
            o = b if a is None else a
            if o is None:
                return True
            if isinstance(o, SV) and isinstance(o.ty, TOpt):
                return self.opt_is_none(o)
            if isinstance(o, HeapVal):
                return o.ref == NULL if self.mode == SPEC else False
            return False
        if isinstance(a, HeapVal) and isinstance(b, HeapVal):
            return a.ref == b.ref
        # Optional reference (null when None) against a reference / another Optional reference
        ra = a.ref if isinstance(a, HeapVal) else a.t if (isinstance(a, SV) and isinstance(a.ty, TOpt) and a.t.sort() == Ref) else None
        rb = b.ref if isinstance(b, HeapVal) else b.t if (isinstance(b, SV) and isinstance(b.ty, TOpt) and b.t.sort() == Ref) else None
        if ra is not None and rb is not None:
            return ra == rb
        if isinstance(a, (EnumMember, ClassV)) or isinstance(b, (EnumMember, ClassV)):
            return self.eq(a, b)
        if isinstance(a, bool) or isinstance(b, bool) or (isinstance(a, SV) and a.ty == BOOL) or (isinstance(b, SV) and b.ty == BOOL):
            if self.family(a) != self.family(b):
                return False
            return self.eq(a, b)
        if isinstance(a, SV) and isinstance(a.ty, TEnum) or isinstance(b, SV) and isinstance(b.ty, TEnum):
            return self.eq(a, b)
        if isinstance(a, Builtin) and isinstance(b, Builtin):
            return a.name == b.name
        if isinstance(a, (Builtin, ClassV)) and isinstance(b, (Builtin, ClassV)):
            return False      # a builtin type and a class of the class table
        if isinstance(a, HeapVal) != isinstance(b, HeapVal):
            return False
        raise Unsupported(f'`is` between {type(a).__name__} and {type(b).__name__}')

    def num_term(self, v, line):
        if isinstance(v, SV) and isinstance(v.ty, TOpt):
            self.partial(self.neg(self.opt_is_none(v)), 'TypeError', line)
            v = self.narrow_opt(v)
        if v is None:
            self.partial(False, 'TypeError', line)
            raise Unsupported('None in arithmetic (spec mode)')
        if isinstance(v, bool):
            return z3.IntVal(int(v))
        if isinstance(v, (int, float)):
            return self.lift(v)
        if isinstance(v, SV):
            if v.ty == FP64:
                raise Unsupported(f'arithmetic on an fp64 value at line {line}')
            if v.ty == BOOL:
                return z3.If(v.t, 1, 0)
            if v.ty in (INT, REAL):
                return v.t
            if isinstance(v.ty, TEnum) and not self.ts.enum_info(v.ty.name)['is_enum']:
                return v.t
        raise Unsupported(f'numeric use of {v!r:.50} at line {line}')

    def order(self, op, a, b, line):
        if all(isinstance(x, (int, float)) and not isinstance(x, bool) for x in (a, b)) or all(isinstance(x, str) for x in (a, b)):
            return {ast.Lt: a < b, ast.LtE: a <= b, ast.Gt: a > b, ast.GtE: a >= b}[type(op)]
        fa, fb = self.family(a), self.family(b)
        if self.is_fp(a) or self.is_fp(b):
            ta, tb = self.fp_terms(a, b)
            return self.simp({ast.Lt: z3.fpLT, ast.LtE: z3.fpLEQ, ast.Gt: z3.fpGT, ast.GtE: z3.fpGEQ}[type(op)](ta, tb))
        if fa == 'str' and fb == 'str':
            ta, tb = str_rank(self.lift(a)), str_rank(self.lift(b))
        elif fa == 'tuple' and fb == 'tuple':
            return self.tuple_order(op, a, b, line)
        else:
            ta, tb = self.num_term(a, line), self.num_term(b, line)
            if ta.sort() != tb.sort():
                ta = z3.ToReal(ta) if ta.sort() == I else ta
                tb = z3.ToReal(tb) if tb.sort() == I else tb
        return self.simp({ast.Lt: ta < tb, ast.LtE: ta <= tb, ast.Gt: ta > tb, ast.GtE: ta >= tb}[type(op)])

    def tuple_order(self, op, a, b, line):
        xa = list(a.items) if isinstance(a, ConstSeq) else list(a)
        xb = list(b.items) if isinstance(b, ConstSeq) else list(b)
        if len(xa) != len(xb):
            raise Unsupported('ordering tuples of different length')
        strict = isinstance(op, (ast.Lt, ast.Gt))
        lt = ast.Lt() if isinstance(op, (ast.Lt, ast.LtE)) else ast.Gt()
        res = (not strict)
        for x, y in reversed(list(zip(xa, xb))):
            l = self.order(lt, x, y, line)
            e = self.eq(x, y)
            res = self.disj([l, self.conj([e, res])])
        return res

    def ev_BoolOp(self, n, fr):
        is_and = isinstance(n.op, ast.And)
        if self.mode == EXEC:
            try:
                return self.speculate(lambda: self.ev_BoolOp(n, fr))
            except SpeculationFailed:
                pass
            v = None
            for i, sub in enumerate(n.values):
                v = self.ev(sub, fr)
                if i == len(n.values) - 1:
                    return v
                t = self.truthy(v)
                d = self.run.decide(self.as_bool(t))
                if d != is_and:
                    return v
            return v
        # GENERIC / SPEC: no forking. Boolean-valued only; RHS is evaluated under the guard of the LHS.
        terms = []
        guards = []
        vals = []
        for sub in n.values:
            if self.mode in (GENERIC, SPECULATE) and guards:
                self.run.push()
                for g in guards:
                    self.run.assume(g)
                try:
                    v = self.ev(sub, fr)
                finally:
                    self.run.pop()
            else:
                v = self.ev(sub, fr)
            vals.append(v)
            t = self.as_bool(self.truthy(v))
            terms.append(t)
            guards.append(t if is_and else z3.Not(t))
        if all(isinstance(v, bool) or (isinstance(v, SV) and v.ty == BOOL) for v in vals):
            return self.bool_value(self.simp(z3.And(terms) if is_and else z3.Or(terms)))
        # value-returning and/or (e.g. `x or default`)
        res = vals[-1]
        for v, t in reversed(list(zip(vals[:-1], terms[:-1]))):
            res = self.ite_chain([(z3.Not(t) if is_and else t, v), (True, res)])
        return res

    def ev_UnaryOp(self, n, fr):
        v = self.ev(n.operand, fr)
        if isinstance(n.op, ast.Not):
            return self.bool_value(self.neg(self.truthy(v)))
        if isinstance(n.op, ast.USub):
            if isinstance(v, (int, float)) and not isinstance(v, bool):
                return -v
            t = self.num_term(v, n.lineno)
            return SV(-t, REAL if t.sort() == R else INT)
        if isinstance(n.op, ast.UAdd):
            return v
        raise Unsupported(f'unary {type(n.op).__name__}')

    def ev_IfExp(self, n, fr):
        c = self.truthy(self.ev(n.test, fr))
        if isinstance(c, bool):
            return self.ev(n.body if c else n.orelse, fr)
        if self.mode == EXEC:
            try:
                return self.speculate(lambda: self.ev_IfExp(n, fr))
            except SpeculationFailed:
                pass
            return self.ev(n.body if self.run.decide(c) else n.orelse, fr)
        if self.mode in (GENERIC, SPECULATE):
            self.run.push(); self.run.assume(c)
            try:
                a = self.ev(n.body, fr)
            finally:
                self.run.pop()
            self.run.push(); self.run.assume(z3.Not(c))
            try:
                b = self.ev(n.orelse, fr)
            finally:
                self.run.pop()
        else:
            a, b = self.ev(n.body, fr), self.ev(n.orelse, fr)
        return self.ite_chain([(c, a), (True, b)])

    def ev_BinOp(self, n, fr):
        a, b = self.ev(n.left, fr), self.ev(n.right, fr)
        return self.binop(n.op, a, b, n.lineno)

    def binop(self, op, a, b, line):
        conc = lambda x: isinstance(x, (int, float)) and not isinstance(x, bool)
        if conc(a) and conc(b):
            try:
                if isinstance(op, ast.Add): return a + b
                if isinstance(op, ast.Sub): return a - b
                if isinstance(op, ast.Mult): return a * b
                if isinstance(op, ast.Div): return a / b
                if isinstance(op, ast.FloorDiv): return a // b
                if isinstance(op, ast.Mod): return a % b
                if isinstance(op, ast.Pow): return a ** b
            except ZeroDivisionError:
                self.partial(False, 'ZeroDivisionError', line)
        if isinstance(a, str) and isinstance(b, str) and isinstance(op, ast.Add):
            return a + b
        if isinstance(op, ast.Add) and (self.family(a) in ('list', 'tuple') or self.family(b) in ('list', 'tuple')):
            return self.seq_concat(a, b, line)
        if isinstance(op, ast.Add) and (self.family(a) == 'str' or self.family(b) == 'str'):
            if self.family(a) != self.family(b):
                self.partial(False, 'TypeError', line)
            return self.str_concat(a, b)
        if isinstance(op, ast.Mod) and self.family(a) == 'str':
            # 'literal template' % scalar(s): a deterministic (uninterpreted) function of the values, like f-strings
            if isinstance(a, str):
                r = self.template_str('pct:' + a, list(b) if isinstance(b, tuple) else [b])
                if r is not None:
                    return r
            return self.opaque_str()
        if isinstance(op, (ast.BitOr, ast.BitAnd)) and (self.family(a) == 'bool' and self.family(b) == 'bool'):
            ta, tb = self.as_bool(self.truthy(a)), self.as_bool(self.truthy(b))
            return self.bool_value(self.simp(z3.Or(ta, tb) if isinstance(op, ast.BitOr) else z3.And(ta, tb)))
        if isinstance(op, (ast.BitOr, ast.BitAnd, ast.Sub)) and self.family(a) == 'set' and self.family(b) == 'set':
            return self.set_binop(op, a, b)
        ta, tb = self.num_term(a, line), self.num_term(b, line)
        real = ta.sort() == R or tb.sort() == R or isinstance(op, ast.Div)
        if real:
            ta = z3.ToReal(ta) if ta.sort() == I else ta
            tb = z3.ToReal(tb) if tb.sort() == I else tb
        ty = REAL if real else INT
        if isinstance(op, ast.Add):
            return SV(ta + tb, ty)
        if isinstance(op, ast.Sub):
            return SV(ta - tb, ty)
        if isinstance(op, ast.Mult):
            return SV(ta * tb, ty)
        if isinstance(op, ast.Div):
            self.partial(self.simp(tb != 0), 'ZeroDivisionError', line)
            return SV(ta / tb, REAL)
        if isinstance(op, ast.FloorDiv):
            self.partial(self.simp(tb != 0), 'ZeroDivisionError', line)
            if real:
                return SV(z3.ToReal(z3.ToInt(ta / tb)), REAL)
            # python floor division (z3 div is euclidean: equal for positive divisor)
            q = z3.If(tb > 0, ta / tb, -((-ta) / (-tb)) if False else z3.If(ta % tb == 0, ta / tb, ta / tb - 0) )
            return SV(self.py_floordiv(ta, tb), INT)
        if isinstance(op, ast.Mod):
            self.partial(self.simp(tb != 0), 'ZeroDivisionError', line)
            if real:
                raise Unsupported('float modulo')
            return SV(ta - tb * self.py_floordiv(ta, tb), INT)
        raise Unsupported(f'binary operator {type(op).__name__} at line {line}')

    def py_floordiv(self, a, b):
        # z3 integer division rounds so that the remainder is non-negative; python floors.
        q = a / b
        return z3.If(b > 0, q, z3.If(a % b == 0, q, q - 1))

    def set_binop(self, op, a, b):
        ety = a.ety if a.ety != ANY else b.ety
        ca, cb = self.set_chi(a), self.set_chi(b)
        x = self.run.fresh('x!sb', sort_of(ety))
        if isinstance(op, ast.BitOr):
            body = z3.Or(ca[x], cb[x])
        elif isinstance(op, ast.BitAnd):
            body = z3.And(ca[x], cb[x])
        else:
            body = z3.And(ca[x], z3.Not(cb[x]))
        return SymSet(FnChi(self, x, body), ety)

    def seq_concat(self, a, b, line):
        ia, ib = self.iter_const(a), self.iter_const(b)
        if ia is not None and ib is not None:
            if isinstance(a, tuple) and isinstance(b, tuple):
                return tuple(ia + ib)
            return ConstSeq(ia + ib, 'list')
        from . import seqs
        la = a if isinstance(a, ListV) else self.new_list(ia, b.ety)
        out = seqs.list_of(self, la, line)
        self.call_builtin_method(out, 'extend', [b], {}, line)
        return out

    def opaque_str(self):
        return SV(self.run.fresh('s', Str), STR)

    def str_concat(self, a, b):
        f = z3.Function('str_concat', Str, Str, Str)
        return SV(f(self.lift(a), self.lift(b)), STR)

    def ev_JoinedStr(self, n, fr):
        # evaluate the embedded expressions for their exception-safety, the text itself is an opaque string
        parts = []
        allconst = True
        tmpl, vals, plain = [], [], True
        for v in n.values:
            if isinstance(v, ast.FormattedValue):
                x = self.ev(v.value, fr)
                tmpl.append('{}')
                vals.append(x)
                if v.format_spec is not None or v.conversion != -1:
                    plain = False
                if isinstance(x, (str, int)) and not isinstance(x, bool) and v.format_spec is None and v.conversion == -1:
                    parts.append(str(x))
                else:
                    allconst = False
            else:
                parts.append(v.value)
                tmpl.append(v.value.replace('{', '{{').replace('}', '}}'))
        if allconst:
            return ''.join(parts)
        if plain:
            r = self.template_str('fmt:' + ''.join(tmpl), vals)
            if r is not None:
                return r
        return self.reg.fstring_hook(self, n, fr)

    def template_str(self, template, vals):
        """text built from a literal template and scalar values (str / int / bool / enum): an uninterpreted but
        deterministic function of the values (the same template applied to equal values gives equal strings);
        None when a value is not a scalar (its text may depend on the heap)"""
        import hashlib
        terms = []
        for x in vals:
            if isinstance(x, (str, bool, int, EnumMember)):
                terms.append(self.lift(x))
            elif isinstance(x, SV) and (x.ty in (STR, INT, BOOL) or isinstance(x.ty, TEnum) or x.ty == TOpt(STR)):
                terms.append(x.t)
            else:
                return None
        f = z3.Function('tmpl_' + hashlib.md5(template.encode()).hexdigest()[:12], *([t.sort() for t in terms] + [Str]))
        t = f(*terms)
        self.run.assume(t != STR_NONE, silent=True)
        return SV(t, STR)

    def ev_FormattedValue(self, n, fr):
        return self.ev(n.value, fr)

    def ev_Tuple(self, n, fr):
        return tuple(self.ev(e, fr) for e in n.elts)

    def ev_List(self, n, fr):
        items = []
        for e in n.elts:
            if isinstance(e, ast.Starred):
                items.extend(self.iter_const(self.ev(e.value, fr)))
            else:
                items.append(self.ev(e, fr))
        return ConstSeq(items, 'list')

    def ev_Set(self, n, fr):
        items = [self.ev(e, fr) for e in n.elts]
        return self.new_set(items, self.value_type(items[0]))

    def ev_Dict(self, n, fr):
        items = []
        for k, v in zip(n.keys, n.values):
            if k is None:
                raise Unsupported('dict unpacking in literal')
            items.append((self.ev(k, fr), self.ev(v, fr)))
        return ConstDict(items)

    def ev_Lambda(self, n, fr):
        return LambdaV(n, fr)

    def ev_GeneratorExp(self, n, fr):
        return GenV(n, fr)

    def ev_Starred(self, n, fr):
        raise Unsupported('starred expression')

    def ev_NamedExpr(self, n, fr):
        v = self.ev(n.value, fr)
        fr.vars[n.target.id] = v
        return v

    def iter_const(self, v):
        """python-level iteration for sequences of known length; None if the collection is symbolic"""
        if isinstance(v, ConstSeq):
            return list(v.items)
        if isinstance(v, tuple):
            return list(v)
        if isinstance(v, ListV) and v.known is not None:
            return list(v.known)
        if isinstance(v, ConstDict):
            return [k for k, _ in v.items]
        if isinstance(v, range):
            return list(v)
        if isinstance(v, str):
            return list(v)
        if isinstance(v, ClassV) and v.name in self.ct.classes and self.ct.classes[v.name].is_enum:
            # iterating an Enum class yields its members in definition order
            return [EnumMember(v.name, n, code, val) for n, code, val in self.ts.enum_info(v.name)['members']]
        if isinstance(v, ClassV) and self.ts.is_enum_class(v.name) and self.ts.enum_info(v.name)['is_enum']:
            # iteration over an Enum class: its members in definition order
            return [EnumMember(v.name, mn, code, val) for mn, code, val in self.ts.enum_info(v.name)['members']]
        return None


# =====================================================================================================================
# generic elements, comprehensions and their quantified summaries
# =====================================================================================================================
class PathEnd(Exception):
    """path deliberately stopped (loop body checked against its invariant)"""


class InterpComp:
    def generic_iter(self, coll, ordered=False):
        """(bound z3 consts, guard term, element value) describing an arbitrary element of a symbolic collection;
        ordered=True: dicts are enumerated through their insertion-order ghost (bound variable = position)"""
        if ordered and isinstance(coll, (DictV, ValuesView)):
            d = coll.d if isinstance(coll, ValuesView) else coll
            what = coll.what if isinstance(coll, ValuesView) else 'keys'
            j, guard, k = self.dict_ordered_iter(d)
            kv = self.wrap(k, d.kty, d.heap)
            if what == 'keys':
                return [j], guard, kv
            vv = self.wrap(self.dict_val(d)[1][d.ref][k], d.vty, d.heap)
            return [j], guard, (vv if what == 'values' else (kv, vv))
        if isinstance(coll, ListV):
            i = self.run.fresh('gi', I)
            return [i], z3.And(0 <= i, i < self.list_len(coll)), self.list_get_nodom(coll, i)
        if isinstance(coll, ZipV):
            i = self.run.fresh('gi', I)
            return [i], z3.And(0 <= i, *[i < self.list_len(l) for l in coll.lists]), \
                tuple(self.list_get_nodom(l, i) for l in coll.lists)
        if isinstance(coll, (SetV, SymSet)):
            x = self.run.fresh('gx', sort_of(coll.ety))
            guard = self.set_chi(coll)[x]
            if isinstance(coll.ety, TEnum):   # shape validity: members of a set of enum values are enum values
                guard = z3.And(guard, self.ts.enum_domain(x, coll.ety.name))
            return [x], guard, self.wrap(x, coll.ety, getattr(coll, 'heap', None))
        if isinstance(coll, DictV):
            coll = ValuesView(coll, 'keys')
        if isinstance(coll, ValuesView):
            d = coll.d
            k = self.run.fresh('gk', sort_of(d.kty))
            guard = self.dict_has(d)[1][d.ref][k]
            kv = self.wrap(k, d.kty, d.heap)
            if coll.what == 'keys':
                return [k], guard, kv
            vv = self.wrap(self.dict_val(d)[1][d.ref][k], d.vty, d.heap)
            if coll.what == 'values':
                return [k], guard, vv
            return [k], guard, (kv, vv)
        raise Unsupported(f'generic iteration over {type(coll).__name__}')

    def seq_len_term(self, it):
        """length of an indexable symbolic sequence (heap list or zip of heap lists)"""
        if isinstance(it, ZipV):
            n = self.list_len(it.lists[0])
            for l in it.lists[1:]:
                m = self.list_len(l)
                n = z3.If(m < n, m, n)
            return n
        return self.list_len(it)

    def seq_get(self, it, idx):
        if isinstance(it, ZipV):
            return tuple(self.list_get(l, idx) for l in it.lists)
        return self.list_get(it, idx)

    def list_get_nodom(self, l, idx):
        _, da = self.list_data(l)
        return self.wrap(da[l.ref][idx], l.ety, l.heap)

    def bind_target(self, tgt, val, fr, line=0):
        if isinstance(tgt, ast.Name):
            fr.vars[tgt.id] = val
        elif isinstance(tgt, (ast.Tuple, ast.List)):
            items = self.iter_const(val)
            if items is None and isinstance(val, SV) and isinstance(val.ty, TTuple):
                items = list(self.wrap(val.t, val.ty))
            if items is None:
                raise Unsupported(f'unpacking a non-constant sequence at line {line}')
            if len(items) != len(tgt.elts):
                self.partial(False, 'ValueError', line)
            for t, v in zip(tgt.elts, items):
                self.bind_target(t, v, fr, line)
        elif isinstance(tgt, ast.Attribute):
            base = self.ev(tgt.value, fr)
            self.setattr(base, tgt.attr, val, line)
        elif isinstance(tgt, ast.Subscript):
            base = self.ev(tgt.value, fr)
            key = self.ev(tgt.slice, fr)
            self.setitem(base, key, val, line)
        else:
            raise Unsupported(f'assignment target {type(tgt).__name__}')

    def quantified_gen(self, gen, want, ordered=False):
        """Summarise a comprehension over symbolic collection(s) (one generator, or nested generators all of which
        range over symbolic collections: the bound variables and guards of the generators are accumulated).
        want: 'any' / 'all' -> Bool term; 'elems' -> (vars, guard(with ifs), value) for further use.
        ordered=True: a dict source is enumerated by position in its insertion order (result collection = OrdIter)"""
        node, fr = gen.node, gen.frame
        if len(node.generators) != 1:
            return self._quantified_gen_nested(node, fr, want)
        g = node.generators[0]
        coll = self.ev(g.iter, fr)
        items = self.iter_const(coll)
        if items is not None:
            return ('const', items, g, node, fr)
        vars_, guard, val = self.generic_iter(coll, ordered)
        if ordered and isinstance(coll, (DictV, ValuesView)):
            coll = OrdIter(coll)
        sub = Frame(fr.fi, fr.module, dict(fr.vars), fr.selfv, fr.defcls)
        saved = self.mode
        if self.mode == EXEC:
            self.mode = GENERIC
        self.run.push()
        self.generic_scopes.append((list(vars_), len(self.run.scopes)))
        try:
            self.run.assume(guard)
            self.assume_domain(val)
            self.bind_target(g.target, val, sub)
            conds = [guard]
            for c in g.ifs:
                ct = self.as_bool(self.truthy(self.ev(c, sub)))
                conds.append(ct)
                self.run.assume(ct)
            elt = self.ev(node.elt, sub) if want != 'guard' else None
        finally:
            self.generic_scopes.pop()
            self.run.pop()
            self.mode = saved
        return ('sym', vars_, z3.And(conds) if len(conds) > 1 else conds[0], elt, coll)

    def _quantified_gen_nested(self, node, fr, want):
        """several `for` clauses, all over symbolic collections (later ones may depend on earlier targets): one bound
        variable group per clause, the guard is the conjunction; the order of the elements is not described (coll=None)"""
        sub = Frame(fr.fi, fr.module, dict(fr.vars), fr.selfv, fr.defcls)
        saved = self.mode
        if self.mode == EXEC:
            self.mode = GENERIC
        self.run.push()
        try:
            vars_all, conds = [], []
            for g in node.generators:
                coll = self.ev(g.iter, sub)
                if self.iter_const(coll) is not None:
                    raise Unsupported('nested generators mixing constant and symbolic collections')
                vars_, guard, val = self.generic_iter(coll)
                self.run.assume(guard)
                self.assume_domain(val)
                self.bind_target(g.target, val, sub)
                vars_all.extend(vars_)
                conds.append(guard)
                for c in g.ifs:
                    ct = self.as_bool(self.truthy(self.ev(c, sub)))
                    conds.append(ct)
                    self.run.assume(ct)
            elt = self.ev(node.elt, sub) if want != 'guard' else None
        finally:
            self.run.pop()
            self.mode = saved
        return ('sym', vars_all, z3.And(conds) if len(conds) > 1 else conds[0], elt, None)

    def eval_gen_const(self, items, g, node, fr):
        """explicit evaluation of a comprehension over a sequence of known length (exec mode forks as python would)"""
        out = []
        sub = Frame(fr.fi, fr.module, dict(fr.vars), fr.selfv, fr.defcls)
        for it in items:
            self.bind_target(g.target, it, sub)
            ok = True
            for c in g.ifs:
                t = self.truthy(self.ev(c, sub))
                if isinstance(t, bool):
                    ok = t
                elif self.mode == EXEC:
                    ok = self.run.decide(t)
                else:
                    raise Unsupported('symbolic filter over constant sequence outside exec mode')
                if not ok:
                    break
            if ok:
                out.append(self.ev(node.elt, sub) if not isinstance(node, ast.DictComp) else
                           (self.ev(node.key, sub), self.ev(node.value, sub)))
        return out

    def comp_with_invariant(self, n, fr):
        """comprehension carrying a sidecar invariant (comp<K>_inv): executed as the loop it abbreviates"""
        if self.mode != EXEC or fr.fi is None:
            return None
        from . import loops
        ps = loops.comp_spec(self, fr, n)
        if ps is None:
            return None
        return loops.comp_as_loop(self, n, fr, ps)

    def ev_ListComp(self, n, fr):
        v = self.comp_with_invariant(n, fr)
        if v is not None:
            return v
        return self.reg.listcomp(self, n, fr)

    def ev_SetComp(self, n, fr):
        v = self.comp_with_invariant(n, fr)
        if v is not None:
            return v
        q = self.quantified_gen(GenV(n, fr), 'elems')
        if q[0] == 'const':
            items = self.eval_gen_const(*q[1:])
            if not items:
                raise Unsupported('empty set comprehension of unknown element type')
            return self.new_set(items, self.value_type(items[0]))
        _, vars_, guard, elt, coll = q
        ety = self.value_type(elt)
        et = self.coerce_term(elt, ety)
        y = self.run.fresh('y!sc', sort_of(ety))
        return SymSet(FnChi(self, y, z3.Exists(vars_, z3.And(guard, et == y))), ety)

    def ev_DictComp(self, n, fr):
        q = self.quantified_gen(GenV(ast.GeneratorExp(elt=ast.Tuple(elts=[n.key, n.value], ctx=ast.Load()),
                                                      generators=n.generators), fr), 'elems')
        if q[0] == 'const':
            pairs = self.eval_gen_const(q[1], q[2], q[3], q[4])
            return ConstDict([(p[0], p[1]) for p in pairs])
        from . import seqs
        _, vars_, guard, elt, coll = q
        if len(vars_) == 1 and not n.generators[0].ifs and seqs.has_list_literal(elt[1]) \
                and isinstance(elt[0], SV) and elt[0].t.eq(vars_[0]):
            return CompV('dict', vars_[0], guard, elt[1], coll)
        return self.reg.dictcomp(self, n, fr, q)


# =====================================================================================================================
# statements
# =====================================================================================================================
class InterpStmt:
    def exec_block(self, stmts, fr):
        for s in stmts:
            self.exec_stmt(s, fr)

    def exec_stmt(self, s, fr):
        self.cur_line = s.lineno
        m = getattr(self, 'st_' + type(s).__name__, None)
        if m is None:
            raise Unsupported(f'statement {type(s).__name__} at line {s.lineno}')
        m(s, fr)

    def st_Expr(self, s, fr):
        if isinstance(s.value, ast.Constant):
            return
        self.ev(s.value, fr)

    def st_Pass(self, s, fr):
        pass

    def st_Global(self, s, fr):
        pass

    def _type_fresh_set(self, v, s, fr):
        """`x = set()` : element type from the return annotation when the function returns x"""
        if not (isinstance(v, SetV) and v.ety == ANY and fr.fi is not None and len(s.targets) == 1
                and isinstance(s.targets[0], ast.Name)):
            return
        name = s.targets[0].id
        returns_it = any(isinstance(n, ast.Return) and isinstance(n.value, ast.Name) and n.value.id == name
                         for n in ast.walk(fr.fi.node))
        if returns_it:
            rty = self.ts.return_type(fr.fi)
            if isinstance(rty, TSet) and rty.t != ANY:
                v.ety = rty.t
                nme, a = self.set_arr(v)
                self.heap.set(nme, z3.Store(a, v.ref, z3.K(sort_of(v.ety), z3.BoolVal(False))))

    def _typed_local(self, v, s, fr):
        """`x = []` / `x = {}` where the contract of the function declares the type of the local x (types={'x': ...}):
        the literal becomes a heap collection of that type (needed when a loop with invariant mutates it)"""
        if not (isinstance(v, (ConstSeq, ConstDict)) and fr.fi is not None and len(s.targets) == 1
                and isinstance(s.targets[0], ast.Name)) or (isinstance(v, ConstSeq) and v.kind != 'list'):
            return v
        con = self.reg.contracts.get(fr.fi.qualname) or self.reg.loop_contracts.get(fr.fi.qualname)
        name = s.targets[0].id
        if con is None or name not in con.types or name in [a.arg for a in fr.fi.node.args.args]:
            return v
        ty = self.ts.ann_to_type(ast.parse(con.types[name], mode='eval').body, fr.fi.module, fr.fi.cls)
        if not isinstance(ty, (TList, TDict)):
            raise Unsupported(f'declared type {ty} of local {name!r} is not a list or dict type')
        return self.materialize(v, ty)

    def st_Assign(self, s, fr):
        v = self.ev(s.value, fr)
        self._type_fresh_set(v, s, fr)
        v = self._typed_local(v, s, fr)
        for t in s.targets:
            self.bind_target(t, v, fr, s.lineno)
        self.reg.ghost_after(self, s, fr)

    def st_AnnAssign(self, s, fr):
        if s.value is not None:
            v = self.ev(s.value, fr)
            if isinstance(s.target, ast.Name) and isinstance(v, (ConstSeq, ConstDict, CompV)):
                # typed empty literal: keep the declared type for later materialisation
                ty = self.ts.ann_to_type(s.annotation, fr.module, fr.defcls)
                if ty != ANY and isinstance(ty, (TList, TDict, TSet)):
                    v = self.materialize(v, ty) if not isinstance(ty, TSet) else v
                if isinstance(v, SetV) and v.ety == ANY and isinstance(ty, TSet) and ty.t != ANY:
                    v.ety = ty.t
                    nme, a = self.set_arr(v)
                    self.heap.set(nme, z3.Store(a, v.ref, z3.K(sort_of(v.ety), z3.BoolVal(False))))
            self.bind_target(s.target, v, fr, s.lineno)

    def st_AugAssign(self, s, fr):
        tgt = s.target
        if isinstance(tgt, ast.Name):
            cur = self.lookup(tgt.id, fr)
        elif isinstance(tgt, ast.Attribute):
            base = self.ev(tgt.value, fr)
            cur = self.getattr(base, tgt.attr, s.lineno)
        elif isinstance(tgt, ast.Subscript):
            base = self.ev(tgt.value, fr)
            key = self.ev(tgt.slice, fr)
            cur = self.getitem(base, key, s.lineno)
        else:
            raise Unsupported('augmented assignment target')
        rhs = self.ev(s.value, fr)
        if isinstance(cur, ListV) and isinstance(s.op, ast.Add):
            self.call_builtin_method(cur, 'extend', [rhs], {}, s.lineno)
            return
        new = self.binop(s.op, cur, rhs, s.lineno)
        if isinstance(tgt, ast.Name):
            fr.vars[tgt.id] = new
        elif isinstance(tgt, ast.Attribute):
            self.setattr(base, tgt.attr, new, s.lineno)
        else:
            self.setitem(base, key, new, s.lineno)

    def st_Return(self, s, fr):
        raise ReturnEx(self.ev(s.value, fr) if s.value is not None else None)

    LOG_LEVELS = ('trace', 'blather', 'debug', 'info', 'warn', 'error', 'critical')

    def _log_only(self, stmts, fi):
        """statements whose only effect is logging (and locals used for nothing else)"""
        names = set()
        for st in stmts:
            if isinstance(st, ast.Expr) and isinstance(st.value, ast.Call) and isinstance(st.value.func, ast.Attribute) \
                    and st.value.func.attr in self.LOG_LEVELS and 'logger' in ast.unparse(st.value.func.value):
                continue
            if isinstance(st, (ast.Assign, ast.AugAssign)):
                tg = st.targets if isinstance(st, ast.Assign) else [st.target]
                if all(isinstance(t, ast.Name) for t in tg):
                    names.update(t.id for t in tg)
                    continue
            if isinstance(st, ast.If) and not st.orelse:
                sub = self._log_only(st.body, None)
                if sub is not None:
                    names |= sub
                    continue
            if isinstance(st, ast.Pass):
                continue
            return None
        if fi is not None and names:
            inside = {id(x) for st in stmts for x in ast.walk(st)}
            for x in ast.walk(fi.node):
                if isinstance(x, ast.Name) and x.id in names and id(x) not in inside:
                    return None
        return names

    def st_If(self, s, fr):
        c = self.truthy(self.ev(s.test, fr))
        if not isinstance(c, bool) and self.mode in (EXEC, SPECULATE) and not s.orelse and fr.fi is not None \
                and self._log_only(s.body, fr.fi) is not None:
            # logging-only branch: its expressions are evaluated under the guard for their exception-safety, the path
            # is not forked
            def body():
                self.run.assume(c)
                self.exec_block(s.body, fr)
            try:
                saved_vars = dict(fr.vars)
                self.speculate(body)
                fr.vars = saved_vars
                return
            except SpeculationFailed:
                fr.vars = saved_vars
                if self.mode == SPECULATE:
                    raise
        if not isinstance(c, bool):
            if self.mode == SPECULATE:
                raise SpeculationFailed()
            c = self.run.decide(c)
        self.exec_block(s.body if c else s.orelse, fr)

    def st_Raise(self, s, fr):
        if s.exc is None:
            if getattr(fr, 'handling', None):
                raise fr.handling[-1]
            raise Unsupported('bare raise outside handler')
        v = self.ev(s.exc, fr)
        if isinstance(v, ClassV):
            v = ExcV(v.name, ())
        if not isinstance(v, ExcV):
            raise Unsupported(f'raise of {type(v).__name__}')
        raise PyRaise(v, s.lineno)

    def exc_matches(self, exc, handler_type, fr):
        if handler_type is None:
            return True
        t = self.ev(handler_type, fr)
        names = [x.name for x in t] if isinstance(t, tuple) else [t.name]
        # exception classes of external modules (`except re.error`) are named by their dotted path
        names = [nme[4:] if nme.startswith('ext:') else nme for nme in names]
        for nme in names:
            if self.exc_isinstance(exc.cls, nme):
                return True
        return False

    BUILTIN_EXC_BASES = {'KeyError': 'LookupError', 'IndexError': 'LookupError', 'LookupError': 'Exception',
                         'ValueError': 'Exception', 'TypeError': 'Exception', 'AttributeError': 'Exception',
                         'RuntimeError': 'Exception', 'NotImplementedError': 'RuntimeError', 'RecursionError': 'RuntimeError',
                         'ZeroDivisionError': 'ArithmeticError', 'OverflowError': 'ArithmeticError',
                         'ArithmeticError': 'Exception', 'StopIteration': 'Exception', 'AssertionError': 'Exception',
                         'OSError': 'Exception', 'IOError': 'Exception', 'FileNotFoundError': 'OSError', 'ImportError': 'Exception',
                         'ModuleNotFoundError': 'ImportError', 'SyntaxError': 'Exception', 'UnicodeError': 'ValueError',
                         'Exception': 'BaseException', 'RPCError': 'Exception', 're.error': 'Exception', 'error': 'Exception',
                         'MemoryError': 'Exception', 'Fault': 'Exception', 'InvalidTransition': 'SupvisorsException', 'Empty': 'Exception'}

    def exc_isinstance(self, cls, base):
        seen = set()
        while cls and cls not in seen:
            if cls == base:
                return True
            seen.add(cls)
            if cls in self.ct.classes:
                bs = self.ct.classes[cls].bases
                cls = bs[0] if bs else None
            else:
                cls = self.BUILTIN_EXC_BASES.get(cls)
        return False

    def st_Try(self, s, fr):
        try:
            try:
                self.exec_block(s.body, fr)
            except PyRaise as e:
                for h in s.handlers:
                    if self.exc_matches(e.exc, h.type, fr):
                        if h.name:
                            fr.vars[h.name] = e.exc
                        if not hasattr(fr, 'handling'):
                            fr.handling = []
                        fr.handling.append(e)
                        try:
                            self.exec_block(h.body, fr)
                        finally:
                            fr.handling.pop()
                        break
                else:
                    raise
            else:
                self.exec_block(s.orelse, fr)
        finally:
            if s.finalbody:
                self.exec_block(s.finalbody, fr)

    def st_Assert(self, s, fr):
        c = self.truthy(self.ev(s.test, fr))
        self.partial(c, 'AssertionError', s.lineno)

    def st_Delete(self, s, fr):
        for t in s.targets:
            if isinstance(t, ast.Subscript):
                base = self.ev(t.value, fr)
                key = self.ev(t.slice, fr)
                self.delitem(base, key, s.lineno)
            elif isinstance(t, ast.Name):
                fr.vars.pop(t.id, None)
            else:
                raise Unsupported('del target')

    def st_Break(self, s, fr):
        raise BreakEx()

    def st_Continue(self, s, fr):
        raise ContinueEx()

    def st_FunctionDef(self, s, fr):
        from .classtable import FuncInfo
        fi = FuncInfo(s, fr.module, None)
        fi.closure = fr
        fr.vars[s.name] = FuncV(fi)

    def st_Import(self, s, fr):
        for a in s.names:
            fr.vars[a.asname or a.name.split('.')[0]] = ModuleV(a.name)

    def st_ImportFrom(self, s, fr):
        for a in s.names:
            src = s.module or ''
            if src in self.ct.modules:
                fr.vars[a.asname or a.name] = self.module_name(src, a.name)
            else:
                fr.vars[a.asname or a.name] = self.external_name(src, a.name)

    def st_With(self, s, fr):
        raise Unsupported(f'with statement at line {s.lineno}')

    # ---------------------------------------------------------------- stores
    def setattr(self, base, attr, val, line):
        if isinstance(base, SV) and isinstance(base.ty, TOpt):
            self.partial(self.neg(self.opt_is_none(base)), 'AttributeError', line)
            base = self.narrow_opt(base)
        if isinstance(base, FuncV) and getattr(base.fi, 'closure', None) is not None:
            # attribute of a nested function object (`onwait.delay = 0.5`): kept on the function value of this path
            base.fi.fattrs = dict(getattr(base.fi, 'fattrs', {}))
            base.fi.fattrs[attr] = val
            return
        if not isinstance(base, ObjV):
            if base is None:
                self.partial(False, 'AttributeError', line)
            raise Unsupported(f'attribute store on {type(base).__name__} at line {line}')
        st = self.ct.find_setter(base.cls, attr)
        if st is not None:
            self.call_function(st, [base, val], {}, line, selfv=base)
            return
        self.write_field(base, attr, val)

    def setitem(self, base, key, val, line):
        if isinstance(base, SV) and isinstance(base.ty, TOpt):
            self.partial(self.neg(self.opt_is_none(base)), 'TypeError', line)
            base = self.narrow_opt(base)
        if isinstance(base, RecV):
            if not isinstance(key, str):
                raise Unsupported(f'payload store with non-literal key at line {line}')
            self.rec_store(base, key, val)
        elif isinstance(base, DictV):
            self.dict_store(base, key, val)
        elif isinstance(base, ListV):
            n = self.list_len(base)
            idx = self.lift(key) if not (isinstance(key, int) and key < 0) else n + key
            self.partial(z3.And(idx >= 0, idx < n), 'IndexError', line)
            name, da = self.list_data(base)
            self.heap.set(name, z3.Store(da, base.ref, z3.Store(da[base.ref], idx, self.coerce_term(self.materialize(val, base.ety), base.ety))))
        else:
            raise Unsupported(f'item store on {type(base).__name__} at line {line}')

    def delitem(self, base, key, line):
        if isinstance(base, DictV):
            self.partial(self.dict_contains(base, key), 'KeyError', line)
            self.dict_delete(base, key)
        elif isinstance(base, RecV) and isinstance(key, str):
            self.partial(self.rec_contains(base, key), 'KeyError', line)
            h, hn = self.rec_has(key)
            self.heap.set(hn, z3.Store(h, base.ref, False))
        else:
            h = self.reg.delitem_hook(self, base, key, line)
            if h is NotImplemented:
                raise Unsupported(f'del item on {type(base).__name__} at line {line}')

    # ---------------------------------------------------------------- loops
    def st_For(self, s, fr):
        it = self.ev(s.iter, fr)
        items = self.iter_const(it)
        if items is not None:
            for x in items:
                self.bind_target(s.target, x, fr, s.lineno)
                try:
                    self.exec_block(s.body, fr)
                except BreakEx:
                    return
                except ContinueEx:
                    continue
            self.exec_block(s.orelse, fr)
            return
        self.reg.symbolic_for(self, s, fr, it)

    def st_While(self, s, fr):
        # literal-bounded unrolling is tried first (condition decided concretely), else invariant-based
        self.reg.symbolic_while(self, s, fr)


# =====================================================================================================================
# calls
# =====================================================================================================================
class InterpCall:
    def ev_Call(self, n, fr):
        # super() needs the defining class of the current function
        if isinstance(n.func, ast.Name) and n.func.id == 'super' and not n.args:
            return SuperV(fr.selfv, fr.defcls)
        f = self.ev(n.func, fr)
        args = []
        for a in n.args:
            if isinstance(a, ast.Starred):
                items = self.iter_const(self.ev(a.value, fr))
                if items is None:
                    raise Unsupported('*args with symbolic sequence')
                args.extend(items)
            else:
                args.append(self.ev(a, fr))
        kwargs = {}
        for k in n.keywords:
            if k.arg is None:
                v = self.ev(k.value, fr)
                if isinstance(v, ConstDict):
                    kwargs.update({kk: vv for kk, vv in v.items})
                else:
                    raise Unsupported('**kwargs with symbolic dict')
            else:
                kwargs[k.arg] = self.ev(k.value, fr)
        return self.call_value(f, args, kwargs, n.lineno, n, fr)

    def call_value(self, f, args, kwargs, line, node=None, fr=None):
        if isinstance(f, BoundMethod):
            return self.call_function(f.fi, [f.selfv] + args, kwargs, line, selfv=f.selfv)
        if isinstance(f, FuncV):
            return self.call_function(f.fi, args, kwargs, line)
        if isinstance(f, LambdaV):
            return self.call_lambda(f, args, kwargs)
        if isinstance(f, Builtin):
            return self.call_builtin(f, args, kwargs, line, node, fr)
        if isinstance(f, ClassV):
            return self.construct(f.name, args, kwargs, line)
        if isinstance(f, OldNS) and self.mode == SPEC and len(args) == 1:
            # old(x) / loop_old(x) in a specification: the reference value x viewed in that earlier heap
            return self.pin(args[0], f.heap)
        if isinstance(f, SV) and isinstance(f.ty, TOpt):
            self.partial(self.neg(self.opt_is_none(f)), 'TypeError', line)
        if f is None:
            self.partial(False, 'TypeError', line)
        raise Unsupported(f'call of {type(f).__name__} ({f!r:.40}) at line {line}')

    def call_lambda(self, lam, args, kwargs=None):
        a = lam.node.args
        sub = Frame(lam.frame.fi, lam.frame.module, dict(lam.frame.vars), lam.frame.selfv, lam.frame.defcls)
        names = [x.arg for x in a.args]
        for nme, v in zip(names, args):
            sub.vars[nme] = v
        for nme, d in zip(names[len(names) - len(a.defaults):], a.defaults):
            if nme not in sub.vars or names.index(nme) >= len(args):
                sub.vars[nme] = self.ev(d, lam.frame)
        for k, v in (kwargs or {}).items():
            sub.vars[k] = v
        return self.ev(lam.node.body, sub)

    def bind_params(self, fi, args, kwargs, line):
        a = fi.node.args
        if a.vararg or a.kwarg:
            if a.kwarg and not kwargs and not a.vararg:
                pass
            else:
                raise Unsupported(f'*args/**kwargs in {fi.qualname}')
        names = [x.arg for x in a.posonlyargs + a.args]
        if len(args) > len(names):
            raise Unsupported(f'too many positional arguments for {fi.qualname} at line {line}')
        vars_ = dict(zip(names, args))
        defaults = dict(zip(names[len(names) - len(a.defaults):], a.defaults))
        for k, v in kwargs.items():
            vars_[k] = v
        dfr = Frame(None, fi.module, {}, None, fi.cls)
        for nme in names:
            if nme not in vars_:
                if nme in defaults:
                    vars_[nme] = self.ev(defaults[nme], dfr)
                else:
                    raise Unsupported(f'missing argument {nme} calling {fi.qualname} at line {line}')
        for x, d in zip(a.kwonlyargs, a.kw_defaults):
            if x.arg not in vars_:
                vars_[x.arg] = self.ev(d, dfr) if d is not None else None
        if a.kwarg:
            vars_[a.kwarg.arg] = ConstDict([])
        return vars_

    def call_function(self, fi, args, kwargs, line, selfv=None):
        # dynamic dispatch: a non-exact receiver whose method is overridden below its static class
        if selfv is not None and isinstance(selfv, ObjV) and fi.kind == 'plain' and not self.is_exact(selfv):
            overriders = [c for c in self.ct.subclasses(selfv.cls) if c != selfv.cls and fi.name in self.ct.classes[c].methods]
            if overriders and not self.reg.has_contract(fi, self) and not self.reg.dispatch_ok(fi, selfv):
                raise Unsupported(f'dynamic dispatch of {selfv.cls}.{fi.name} (overridden in {overriders}) without a base '
                                  f'contract, line {line}')
        con = self.reg.contract_for_call(fi, self, selfv)
        if con is not None:
            return self.call_by_contract(con, fi, args, kwargs, line, selfv)
        return self.inline_call(fi, args, kwargs, line, selfv)

    def is_exact(self, obj):
        return obj.ref.get_id() in self.exact_refs

    def inline_call(self, fi, args, kwargs, line, selfv=None):
        if self.depth >= self.max_depth:
            raise Unsupported(f'inlining depth exceeded at {fi.qualname}')
        if self.mode == SPEC and not self.reg.pure_in_spec(fi):
            raise Unsupported(f'spec calls {fi.qualname}, which is not declared pure for specifications')
        vars_ = self.bind_params(fi, args, kwargs, line)
        closure = getattr(fi, 'closure', None)
        if closure is not None:
            merged = dict(closure.vars)
            merged.update(vars_)
            vars_ = merged
        sub = Frame(fi, fi.module, vars_, selfv if selfv is not None else (closure.selfv if closure else None),
                    fi.cls if fi.cls else (closure.defcls if closure else None))
        if fi.kind in ('plain', 'getter', 'setter') and fi.cls and selfv is None and args:
            sub.selfv = args[0]
        self.inlined.add(fi.qualname)
        saved_fn = self.cur_fn
        self.cur_fn = fi.qualname.split(':')[1] if self.depth >= 0 else self.cur_fn
        self.depth += 1
        try:
            self.exec_block(fi.node.body, sub)
            return None
        except ReturnEx as r:
            return r.value
        finally:
            self.depth -= 1
            self.cur_fn = saved_fn

    def construct(self, cname, args, kwargs, line):
        if cname in self.EXC_NAMES or (cname in self.ct.classes and self.exc_isinstance(cname, 'Exception')) \
                or cname in ('RPCError', 'Fault'):
            return ExcV(cname, tuple(args))
        if cname in self.ct.classes:
            if self.ts.is_enum_class(cname):
                return self.enum_by_value(cname, args[0], line)
            r = self.alloc(cname.lower())
            obj = ObjV(r, cname)
            self.exact_refs.add(r.get_id())
            self.run.assume(class_of(r) == self.ts.class_id(cname), silent=True)
            # class-level defaults behave as initial field values
            for c in reversed(self.ct.mro(cname)):
                for fname, (ann, val) in self.ct.classes[c].class_ann.items():
                    if val is not None:
                        try:
                            self.write_field(obj, fname, self.ev(val, Frame(None, self.ct.classes[c].module, {}, None, c)))
                        except Unsupported:
                            pass
            init = self.ct.find_method(cname, '__init__')
            if init is not None:
                self.call_function(init, [obj] + args, kwargs, line, selfv=obj)
            return obj
        h = self.reg.construct_hook(self, cname, args, kwargs, line)
        if h is not NotImplemented:
            return h
        raise Unsupported(f'constructor of external class {cname} at line {line}')

    def enum_by_name(self, cname, key, line):
        """EnumClass[name]: the member of that name, KeyError for any other key (EnumMeta.__getitem__)"""
        info = self.ts.enum_info(cname)
        if isinstance(key, str):
            for n, code, val in info['members']:
                if n == key:
                    return EnumMember(cname, n, code, val)
            self.partial(False, 'KeyError', line)
        if not (isinstance(key, SV) and (key.ty == STR or key.ty == TOpt(STR))):
            # non-string keys are never member names
            self.partial(False, 'KeyError', line)
            raise Unsupported('Enum class subscript with a non-string key in spec mode')
        self.partial(z3.Or([key.t == self.lift(n) for n, _, _ in info['members']]), 'KeyError', line)
        t = None
        for n, code, val in reversed(info['members']):
            t = z3.IntVal(code) if t is None else z3.If(key.t == self.lift(n), code, t)
        return SV(t, TEnum(cname))

    def enum_by_value(self, cname, v, line):
        info = self.ts.enum_info(cname)
        if not isinstance(v, SV):
            for n, code, val in info['members']:
                if val == v:
                    return EnumMember(cname, n, code, val)
            self.partial(False, 'ValueError', line)
        vt = self.num_term(v, line)
        self.partial(z3.Or([vt == val for _, _, val in info['members']]), 'ValueError', line)
        t = None
        for n, code, val in reversed(info['members']):
            t = z3.IntVal(code) if t is None else z3.If(vt == val, code, t)
        return SV(t, TEnum(cname))
