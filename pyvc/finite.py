"""Finite-universe counter-model search (used only to *refute*: a model found here is a genuine model).

The quantifiers over the uninterpreted sorts Str and Ref are expanded over a finite list of constants and every
ground term of these sorts is forced into that list, so that the sub-structure over the listed constants is closed:
a model of the expanded quantifier-free formula is a model of the original formula with the sort universes
restricted to the listed elements.  `unsat`/`unknown` here decide nothing (there may be larger models).
"""
import itertools
import z3
from .core import Str, Ref, NULL, STR_NONE, STR_EMPTY

_counter = [0]


def _fresh(name, sort):
    _counter[0] += 1
    return z3.Const(f'{name}!fe{_counter[0]}', sort)


def collect_consts(terms, sorts):
    out = {s: {} for s in sorts}
    seen = set()
    stack = list(terms)
    while stack:
        t = stack.pop()
        i = t.get_id()
        if i in seen:
            continue
        seen.add(i)
        if z3.is_quantifier(t):
            stack.append(t.body())
            continue
        if z3.is_app(t):
            if t.num_args() == 0 and t.decl().kind() == z3.Z3_OP_UNINTERPRETED:
                for s in sorts:
                    if t.sort() == s:
                        out[s][i] = t
            stack.extend(t.children())
    return {s: list(d.values()) for s, d in out.items()}


class Expander:
    def __init__(self, universe):
        self.universe = universe      # sort -> list of constants
        self.cache = {}
        self.budget = 400000
        self.int_bound = 4
        self.side = []        # closure constraints for terms under binders that are not expanded
        self.int_domains = {}  # Int -> Bool arrays (int-keyed dicts / sets) restricted to 0..int_bound-1

    def tr(self, t):
        i = t.get_id()
        if i in self.cache:
            return self.cache[i][1]
        self.budget -= 1
        if self.budget < 0 or (self.budget % 2000 == 0 and getattr(self, 'deadline', None) and __import__('time').time() > self.deadline):
            raise OverflowError('finite expansion too large')
        if z3.is_quantifier(t):
            r = self._quant(t)
        elif z3.is_app(t) and t.num_args() > 0:
            ch = [self.tr(c) for c in t.children()]
            r = t.decl()(*ch) if any(a.get_id() != b.get_id() for a, b in zip(ch, t.children())) else t
        else:
            r = t
        self.cache[i] = (t, r)    # keeps t alive: ids of collected ASTs are recycled
        return r

    def _quant(self, t):
        n = t.num_vars()
        cs = [_fresh(t.var_name(k), t.var_sort(k)) for k in range(n)]
        body = z3.substitute_vars(t.body(), *reversed(cs))
        if t.is_lambda() and n == 1 and any(t.var_sort(0) == s for s in self.universe):
            # lambda over a finite sort: the array holding, at every element of the universe, the body at that element
            # (the value at the first element also serves outside the universe, which the restricted structure ignores)
            dom = next(u for s, u in self.universe.items() if t.var_sort(0) == s)
            vals = [self.tr(z3.substitute(body, (cs[0], v))) for v in dom]
            a = z3.K(t.var_sort(0), vals[0])
            for v, val in zip(dom[1:], vals[1:]):
                a = z3.Store(a, v, val)
            return a
        if t.is_lambda():
            b = self.tr(body)
            self._side(b, cs)
            return z3.Lambda(cs, b)
        exp = [k for k in range(n) if any(t.var_sort(k) == s for s in self.universe)]
        int_doms = self._int_bounds(t, cs, body)
        exp += [k for k in int_doms]
        keep = [cs[k] for k in range(n) if k not in exp]
        if not exp:
            b = self.tr(body)
            self._side(b, cs)
            return z3.ForAll(cs, b) if t.is_forall() else z3.Exists(cs, b)
        doms = [int_doms[k] if k in int_doms else next(u for s, u in self.universe.items() if t.var_sort(k) == s)
                for k in exp]
        parts = []
        for combo in itertools.product(*doms):
            b = z3.substitute(body, *[(cs[k], v) for k, v in zip(exp, combo)])
            if keep:
                # the variables that stay are quantified again inside every instance (forall distributes over the
                # conjunction, exists over the disjunction): a bound that depended on an expanded variable
                # (j < len(d[k])) is ground now and is recognised by the recursive call
                b = z3.ForAll(keep, b) if t.is_forall() else z3.Exists(keep, b)
            parts.append(self.tr(b))
        if any(p_.sort() != z3.BoolSort() for p_ in parts):
            raise z3.Z3Exception('non-bool part: ' + str([(p_.sort(), p_.sexpr()[:200]) for p_ in parts if p_.sort() != z3.BoolSort()][:2]) + ' FROM ' + t.sexpr()[:300])
        return z3.And(parts) if t.is_forall() else z3.Or(parts)

    def _int_bounds(self, t, cs, body):
        """Int variables guarded by 0 <= v and v < T (resp. <=): expanded over 0..N-1 under the added constraint
        T <= N, which makes the expansion exact (models with longer sequences are simply not searched)."""
        N = self.int_bound
        if t.is_forall():
            if z3.is_app(body) and body.decl().kind() == z3.Z3_OP_IMPLIES:
                todo = [body.arg(0)]
            elif z3.is_or(body):     # simplified implication: Or(Not(guard), ...)
                todo = [d.arg(0) for d in body.children() if z3.is_not(d)]
                if not todo:
                    return {}
            elif z3.is_not(body):
                todo = [body.arg(0)]
            else:
                return {}
        else:
            todo = [body]
        conj = []
        while todo:    # nested conjunctions are flattened: And(And(0 <= i, i < n), filter) bounds i as well
            g = todo.pop()
            if z3.is_and(g):
                todo.extend(g.children())
            elif z3.is_not(g) and z3.is_app(g.arg(0)) and g.arg(0).num_args() == 2 and g.arg(0).decl().kind() in (
                    z3.Z3_OP_LE, z3.Z3_OP_LT, z3.Z3_OP_GE, z3.Z3_OP_GT):
                # simplified comparisons: Not(a <= b) is b < a, ...
                a, b = g.arg(0).arg(0), g.arg(0).arg(1)
                conj.append({z3.Z3_OP_LE: b < a, z3.Z3_OP_LT: b <= a, z3.Z3_OP_GE: a < b, z3.Z3_OP_GT: a <= b}[g.arg(0).decl().kind()])
            else:
                conj.append(g)
        ids = {c.get_id(): k for k, c in enumerate(cs)}
        lower, upper = set(), {}
        for g in conj:
            neg = False
            if z3.is_not(g):      # not (a <= b) == b < a  etc. (z3.simplify writes strict bounds this way)
                neg, g = True, g.arg(0)
            if not z3.is_app(g) or g.num_args() != 2:
                continue
            kind = g.decl().kind()
            a, b = g.arg(0), g.arg(1)
            if neg:
                flip = {z3.Z3_OP_LE: z3.Z3_OP_GT, z3.Z3_OP_LT: z3.Z3_OP_GE, z3.Z3_OP_GE: z3.Z3_OP_LT, z3.Z3_OP_GT: z3.Z3_OP_LE}
                if kind not in flip:
                    continue
                kind = flip[kind]
            if kind in (z3.Z3_OP_GE, z3.Z3_OP_GT):
                a, b = b, a
                kind = z3.Z3_OP_LE if kind == z3.Z3_OP_GE else z3.Z3_OP_LT
            if kind not in (z3.Z3_OP_LE, z3.Z3_OP_LT):
                continue
            # a <= b  /  a < b
            if (z3.is_add(a) and a.num_args() == 2 and z3.is_int_value(a.arg(0)) and a.arg(1).get_id() in ids
                    and not _mentions(b, set(ids))):
                # c + v <= b (z3.simplify writes v < k + 1 as not(k <= -1 + v)): v <= b - c
                a, b = a.arg(1), b - a.arg(0)
            if b.get_id() in ids and z3.is_int_value(a) and a.as_long() >= (0 if kind == z3.Z3_OP_LE else -1):
                lower.add(ids[b.get_id()])
            if a.get_id() in ids and cs[ids[a.get_id()]].sort() == z3.IntSort():
                upper.setdefault(ids[a.get_id()], []).append((b, kind))
        out = {}
        # finite enumerations: a conjunct  v == n1 or v == n2 or ...
        for g in conj:
            if z3.is_or(g) or (z3.is_eq(g)):
                alts = g.children() if z3.is_or(g) else [g]
                vals, var = [], None
                for e in alts:
                    if z3.is_eq(e) and e.arg(0).get_id() in ids and z3.is_int_value(e.arg(1)) and var in (None, ids[e.arg(0).get_id()]):
                        var = ids[e.arg(0).get_id()]
                        vals.append(e.arg(1))
                    elif z3.is_eq(e) and e.arg(1).get_id() in ids and z3.is_int_value(e.arg(0)) and var in (None, ids[e.arg(1).get_id()]):
                        var = ids[e.arg(1).get_id()]
                        vals.append(e.arg(0))
                    else:
                        var = None
                        break
                if var is not None and vals:
                    out[var] = vals
        # lower bounds propagate along  w < v  /  w <= v
        grown = True
        while grown:
            grown = False
            for k, ubs in upper.items():
                if k in lower:
                    for b, kind in ubs:
                        if b.get_id() in ids and ids[b.get_id()] not in lower:
                            lower.add(ids[b.get_id()])
                            grown = True
        cand = [k for k in lower if k in upper and cs[k].sort() == z3.IntSort() and k not in out]
        changed = True
        ok = set(cand)
        while changed:
            changed = False
            for k in list(ok):
                good = False
                for b, kind in upper[k]:
                    if not _mentions(b, set(ids)):
                        good = True
                    elif b.get_id() in ids and ids[b.get_id()] in ok:
                        good = True
                if not good:
                    ok.discard(k)
                    changed = True
        for k in ok:
            for b, kind in upper[k]:
                if not _mentions(b, set(ids)):
                    self.side.append(b <= (N if kind == z3.Z3_OP_LT else N - 1))
            out[k] = [z3.IntVal(v) for v in range(N)]
        # Int variables guarded by membership in an int-keyed dict / set (a conjunct A[v] with A : Int -> Bool free of the
        # bound variables): expanded over 0..N-1 under the added quantifier-free constraint that A holds nowhere else
        # (A equals an explicit array over 0..N-1), which makes the expansion exact
        for g in conj:
            if (z3.is_select(g) and g.arg(1).get_id() in ids and ids[g.arg(1).get_id()] not in out
                    and g.arg(1).sort() == z3.IntSort() and g.sort() == z3.BoolSort() and not _mentions(g.arg(0), set(ids))):
                a = g.arg(0)
                if a.get_id() not in self.int_domains:
                    fin = z3.K(z3.IntSort(), z3.BoolVal(False))
                    for v in range(N):
                        fin = z3.Store(fin, v, _fresh('member', z3.BoolSort()))
                    self.int_domains[a.get_id()] = a       # keeps the term alive (ids are recycled)
                    self.side.append(a == fin)
                out[ids[g.arg(1).get_id()]] = [z3.IntVal(v) for v in range(N)]
        return out

    def _side(self, body, binders):
        """terms of the finite sorts under a binder that stays: they must fall into the universe for every value of
        the bound variables (expandable ones are instantiated, the others stay universally quantified)"""
        ids = {c.get_id() for c in binders}
        for t in closure_terms([body], list(self.universe), None):
            if not _mentions(t, ids):
                continue
            u = next(u for s, u in self.universe.items() if t.sort() == s)
            claim = z3.Or([t == c for c in u])
            expv = [c for c in binders if any(c.sort() == s for s in self.universe)]
            rest = [c for c in binders if not any(c.sort() == s for s in self.universe)]
            insts = [claim]
            for c in expv:
                dom = next(u2 for s, u2 in self.universe.items() if c.sort() == s)
                insts = [z3.substitute(i, (c, v)) for i in insts for v in dom]
            for i in insts:
                self.side.append(z3.ForAll(rest, i) if rest else i)


def _mentions(t, ids):
    seen = set()
    stack = [t]
    while stack:
        x = stack.pop()
        i = x.get_id()
        if i in seen:
            continue
        seen.add(i)
        if i in ids:
            return True
        if z3.is_quantifier(x):
            stack.append(x.body())
        elif z3.is_app(x):
            stack.extend(x.children())
    return False


def closure_terms(terms, sorts, universe_ids):
    """ground, non-constant subterms of the given sorts occurring outside binders"""
    out = {}
    seen = set()
    stack = list(terms)
    while stack:
        t = stack.pop()
        i = t.get_id()
        if i in seen:
            continue
        seen.add(i)
        if z3.is_quantifier(t):
            continue
        if z3.is_app(t):
            if t.num_args() > 0 and any(t.sort() == s for s in sorts):
                out[i] = t
            stack.extend(t.children())
    return list(out.values())


def refute(pc, neg, extra_str=3, extra_ref=6, timeout_ms=3000, str_consts=()):
    """-> (z3 result, model or None, info string).  Universe = the string literals, '' and None plus `extra_str`
    anonymous strings; null plus `extra_ref` anonymous references.  Every other constant or ground term of these
    sorts is constrained to equal one of them."""
    import time as _t
    formulas = list(pc) + [neg]
    ustr = {c.get_id(): c for c in [STR_NONE, STR_EMPTY] + list(str_consts)}
    uref = {NULL.get_id(): NULL}
    for k in range(extra_str):
        c = z3.Const(f'ustr{k}', Str)
        ustr[c.get_id()] = c
    for k in range(extra_ref):
        c = z3.Const(f'uref{k}', Ref)
        uref[c.get_id()] = c
    universe = {Str: list(ustr.values()), Ref: list(uref.values())}
    ex = Expander(universe)
    ex.deadline = _t.time() + 20
    try:
        expanded = [ex.tr(f) for f in formulas]
    except OverflowError:
        return z3.unknown, None, 'expansion too large'
    s = z3.Solver()
    s.add(*expanded)
    s.add(*ex.side)
    s.add(z3.Distinct(*universe[Str]))
    s.add(z3.Distinct(*universe[Ref]))
    found = collect_consts(expanded + ex.side, [Str, Ref])
    for srt, u in universe.items():
        ids = {c.get_id() for c in u}
        for c in found[srt]:
            if c.get_id() not in ids:
                s.add(z3.Or([c == x for x in u]))
    for t in closure_terms(expanded, [Str, Ref], None):
        u = universe[Str] if t.sort() == Str else universe[Ref]
        s.add(z3.Or([t == c for c in u]))
    from .core import PathRunner
    r = PathRunner.guarded_check(s, timeout_ms, wall=6)     # the model search is the refuting side: allowed to be slow
    info = f'finite universe: {len(universe[Str])} strings, {len(universe[Ref])} references'
    if r == z3.sat:
        return r, s.model(), info
    return r, None, info
