"""C15 - structural obligations and the BOUNDED stand-in for ApplicationStatus.evaluate.

1. Call-site whitelist (AST scan of the real source, every run): `evaluate` calls only itself, _get_process_status,
   _get_matches, the logger, the builtins type/len/any/all, the ApplicationStatusParseError constructor and `eval`;
   the single `eval` argument is the f-string f'{node.func.id}({args_eval})', reached only after the guard
   `node.func.id not in ['all', 'any']` raised, with args_eval a value returned by evaluate itself (a bool wrapped in a
   list, or a list of _get_process_status results); the module never rebinds all / any / eval.
2. Bounded stand-in (never counted as proved): exhaustive enumeration of REAL `ast` trees up to depth 3 over a small
   alphabet of node shapes (including the hostile ones of DESIGN Appendix A1-A3), executed on the REAL function for
   every up/down vector of three processes, against a reference evaluator written from the property statement.
"""
import ast
import itertools
import os
import sys
import time
import warnings

from .props import obligation

FN = 'application:ApplicationStatus.evaluate'

# ---------------------------------------------------------------------------------------------------- reference
ERR = ('err',)


def reference(status, node, matcher):
    """statement: 'the formula evaluated over process names and patterns with and/or/not/any/all ... any other
    construct, or a pattern matching nothing, yields a major failure'.
    status: {process name: up?} (insertion order = order of ApplicationStatus.processes);
    matcher(pattern) -> list of the process names fully matching the pattern, or None when it is not a valid regex.
    -> ('bool', b) | ('list', [b, ...]) | ERR"""
    if type(node) is ast.Constant and type(node.value) is str:
        if node.value in status:
            return ('bool', status[node.value])
        names = matcher(node.value)
        if not names:                       # invalid pattern or pattern matching nothing
            return ERR
        if len(names) == 1:
            return ('bool', status[names[0]])
        return ('list', [status[n] for n in names])
    if type(node) is ast.Call:
        if type(node.func) is not ast.Name or node.func.id not in ('all', 'any') or len(node.args) != 1 or node.keywords:
            return ERR
        arg = reference(status, node.args[0], matcher)
        if arg is ERR:
            return ERR
        items = [arg[1]] if arg[0] == 'bool' else arg[1]
        return ('bool', all(items) if node.func.id == 'all' else any(items))
    if type(node) is ast.BoolOp and type(node.op) in (ast.And, ast.Or):
        vals = [reference(status, v, matcher) for v in node.values]
        if any(v is ERR or v[0] != 'bool' for v in vals):
            return ERR
        return ('bool', all(v[1] for v in vals) if type(node.op) is ast.And else any(v[1] for v in vals))
    if type(node) is ast.UnaryOp and type(node.op) is ast.Not:
        v = reference(status, node.operand, matcher)
        if v is ERR or v[0] != 'bool':
            return ERR
        return ('bool', not v[1])
    return ERR


def regex_matcher(names):
    import re

    def matcher(pattern):
        try:
            rx = re.compile(r'^%s$' % pattern)
        except re.error:
            return None
        return [n for n in names if rx.match(n)]
    return matcher


# ---------------------------------------------------------------------------------------------------- enumeration
PROCS = ('p1', 'p2', 'q')


def _expr(src):
    return ast.parse(src).body[0].value


def leaves():
    return [_expr(s) for s in ('"p1"',        # process name
                               '"p."',        # pattern matching two processes -> list
                               '"q|zz"',      # pattern matching exactly one process
                               '"zz"',        # pattern matching nothing
                               '"("',         # not a regular expression            (A3)
                               '3', 'p1', 'None')]   # non-str constant, bare name


def combine(subs, small):
    """every node shape of the alphabet over the given sub-trees (`small`: sub-trees allowed as second operand)"""
    out = []
    for x in subs:
        for tmpl in ('not {0}', '-{0}', 'all({0})', 'any({0})', 'len({0})', 'all(*{0})', 'all({0}, key=1)',
                     '{0}.upper()',          # Call whose func is an Attribute                (A1)
                     '(lambda: {0})()',      # Call whose func is a Lambda                    (A1)
                     '{0}()',                # Call whose func is the sub-tree itself         (A1)
                     '[{0}]', '{0} if {0} else {0}', '{0} == {0}', '({0},)'):
            out.append(_expr(tmpl.format('(%s)' % ast.unparse(x))))
        for y in small:
            for tmpl in ('{0} and {1}', '{0} or {1}', '{1} and {0}', '{0} | {1}', 'all({0}, {1})', 'any({1}, {0})',
                         '{0} and {1} and {0}'):
                out.append(_expr(tmpl.format('(%s)' % ast.unparse(x), '(%s)' % ast.unparse(y))))
    return out


def trees(depth):
    l1 = leaves()
    levels = [l1]
    for _ in range(depth - 1):
        levels.append(combine(levels[-1], l1))
    out = [_expr('all()'), _expr('any()'), _expr('f()')]      # Call without argument (A2)
    for lv in levels:
        out.extend(lv)
    return out


def witness_class(node, clause=''):
    """coarse description of the first hostile shape of a tree (the witness classes of the known findings)"""
    if clause == 'rejects-other-constructs':      # a value instead of a failure: ignored arguments come first
        for n in ast.walk(node):
            if type(n) is ast.Call and type(n.func) is ast.Name and (len(n.args) > 1 or n.keywords):
                return 'extra-call-arguments'
    for n in ast.walk(node):
        if type(n) is ast.Call and type(n.func) is not ast.Name:
            return 'call-func-not-a-name'
    for n in ast.walk(node):
        if type(n) is ast.Call and not n.args:
            return 'call-without-argument'
    for n in ast.walk(node):
        if type(n) is ast.Constant and type(n.value) is str:
            try:
                __import__('re').compile(r'^%s$' % n.value)
            except Exception:
                return 'invalid-regex-leaf'
    for n in ast.walk(node):
        if type(n) is ast.Call and (len(n.args) > 1 or n.keywords):
            return 'extra-call-arguments'
    return 'other'


def make_application(repo, ups):
    """a REAL ApplicationStatus with three REAL ProcessStatus whose displayed states realise the up/down vector"""
    if repo not in sys.path:
        sys.path.insert(0, repo)
    from unittest.mock import Mock
    from supervisor.states import ProcessStates
    from supvisors.application import ApplicationRules, ApplicationStatus
    from supvisors.process import ProcessRules, ProcessStatus
    supv = Mock()
    app = ApplicationStatus('app', ApplicationRules(supv), supv)
    up_states = [(ProcessStates.RUNNING, True), (ProcessStates.EXITED, True), (ProcessStates.STARTING, False)]
    down_states = [(ProcessStates.FATAL, False), (ProcessStates.EXITED, False), (ProcessStates.STOPPED, True)]
    for k, (name, up) in enumerate(zip(PROCS, ups)):
        p = ProcessStatus('app', name, ProcessRules(supv), supv)
        p._state, p.expected_exit = (up_states if up else down_states)[k % 3]
        app.processes[name] = p
    return app


def run_bounded(repo, depth=3):
    warnings.simplefilter('ignore')
    if repo not in sys.path:
        sys.path.insert(0, repo)       # the tree under check (VERIF_REPO), before anything imports supvisors
    all_trees = trees(depth)
    vectors = list(itertools.product((True, False), repeat=len(PROCS)))
    matcher = regex_matcher(PROCS)
    from supvisors.ttypes import ApplicationStatusParseError
    import supvisors
    if not os.path.abspath(supvisors.__file__).startswith(os.path.abspath(repo) + os.sep):
        raise RuntimeError(f'bounded stand-in would run {supvisors.__file__}, not the tree under check {repo}')
    fails = {}     # (clause, witness class) -> [count, first example]
    runs = 0
    for ups in vectors:
        app = make_application(repo, ups)
        status = dict(zip(PROCS, ups))
        # the up/down reading of the displayed states is the statement's: running-like, or EXITED expectedly
        for name in PROCS:
            if app._get_process_status(name) != status[name]:
                ent = fails.setdefault(('value-agrees-with-reference', 'other'), [0, None])
                ent[0] += 1
                ent[1] = ent[1] or (f'_get_process_status({name!r}) = {not status[name]} for displayed state '
                                    f'{app.processes[name].displayed_state}, expected_exit={app.processes[name].expected_exit}')
        for t in all_trees:
            runs += 1
            ref = reference(status, t, matcher)
            try:
                got = app.evaluate(t)
                out = ('bool', got) if type(got) is bool else ('list', got) if type(got) is list else ('other', got)
            except ApplicationStatusParseError:
                out = ERR
            except Exception as e:      # noqa
                out = ('exception', type(e).__name__)
            if out == ref:
                continue
            if out[0] == 'exception':
                clause = 'no-other-exception'
            elif ref is ERR:
                clause = 'rejects-other-constructs'
            else:
                clause = 'value-agrees-with-reference'
            key = (clause, witness_class(t, clause))
            ent = fails.setdefault(key, [0, None])
            ent[0] += 1
            if ent[1] is None:
                ent[1] = f'formula {ast.unparse(t)!r} with up={status}: real {out}, reference {ref}'
    return len(all_trees), len(vectors), runs, fails


# ---------------------------------------------------------------------------------------------------- whitelist
ALLOWED_CALLS = {'self.evaluate', 'self._get_process_status', 'self._get_matches', 'self.logger.debug', 'eval', 'type',
                 'len', 'any', 'all', 'ApplicationStatusParseError'}


def scan_whitelist(world):
    fi = world.ct.function(FN)
    mod = world.ct.modules['application']
    obls = []
    called = {ast.unparse(c.func) for c in ast.walk(fi.node) if isinstance(c, ast.Call)}
    extra = sorted(called - ALLOWED_CALLS)
    obls.append(obligation('struct:evaluate/calls-only-whitelisted-functions', not extra,
                           f'calls: {sorted(called)}' + (f'; NOT allowed: {extra}' if extra else ''), FN))
    evals = [c for c in ast.walk(fi.node) if isinstance(c, ast.Call) and ast.unparse(c.func) == 'eval']
    ok = len(evals) == 1 and len(evals[0].args) == 1 and not evals[0].keywords \
        and ast.unparse(evals[0].args[0]) == "f'{node.func.id}({args_eval})'"
    guard_ok = flow_ok = False
    if ok:
        # the block holding the eval starts with the guard on node.func.id and only assigns args_eval from evaluate
        for blk in ast.walk(fi.node):
            if isinstance(blk, ast.If) and any(evals[0] in list(ast.walk(s)) for s in blk.body):
                # leading guards `if <test>: raise ...`: one of them is (or has as an `or` operand)
                # G = node.func.id not in ['all', 'any'], so G is false when the eval is reached
                tests = []
                for st in blk.body:
                    if not (isinstance(st, ast.If) and not st.orelse and isinstance(st.body[0], ast.Raise)):
                        break
                    tests.extend(st.test.values if isinstance(st.test, ast.BoolOp) and isinstance(st.test.op, ast.Or)
                                 else [st.test])
                guard_ok = (any(ast.unparse(t) == "node.func.id not in ['all', 'any']" for t in tests)
                            and ast.unparse(blk.test) == 'type(node) is ast.Call')
                assigns = [ast.unparse(s.value) for s in ast.walk(blk) if isinstance(s, ast.Assign)
                           and any(ast.unparse(t) == 'args_eval' for t in s.targets)]
                flow_ok = sorted(assigns) == ['[args_eval]', 'self.evaluate(node.args[0])']
                break
    obls.append(obligation('struct:evaluate/eval-argument-is-all-or-any-of-own-result', ok and guard_ok and flow_ok,
                           f'eval calls: {[ast.unparse(e) for e in evals]}, guard {guard_ok}, flow of args_eval {flow_ok}', FN))
    rebound = [n for n in ('all', 'any', 'eval', 'type', 'len') if n in mod.assigns or n in mod.functions
               or n in mod.classes or n in mod.imports]
    rebound += [ast.unparse(n) for n in ast.walk(mod.tree) if isinstance(n, (ast.Global, ast.Nonlocal))]
    obls.append(obligation('struct:application-module-does-not-rebind-builtins', not rebound, f'rebound: {rebound}', FN))
    return obls


def run(world, tier, out):
    out['obligations'].extend(scan_whitelist(world))
    out['structural'].append('call-site whitelist of ApplicationStatus.evaluate (AST scan)')
    t0 = time.time()
    depth = 3
    try:
        ntrees, nvec, runs, fails = run_bounded(world.ct.repo, depth)
    except Exception as e:      # noqa  - a broken stand-in is an engine error, never a verdict
        import traceback
        out['errors'].append((FN, None, f'bounded stand-in crashed: {type(e).__name__}: {e}\n{traceback.format_exc()}'))
        return
    secs = time.time() - t0
    bfn = '(bounded) ' + FN
    classes = ('call-func-not-a-name', 'call-without-argument', 'invalid-regex-leaf', 'extra-call-arguments', 'other')
    for clause in ('no-other-exception', 'rejects-other-constructs', 'value-agrees-with-reference'):
        for wc in classes:
            ent = fails.get((clause, wc))
            out['obligations'].append(obligation(
                f'bounded:evaluate/{clause}/{wc}', ent is None,
                (f'{ent[0]} failing runs, first: {ent[1]}' if ent else f'{runs} runs agree'), bfn,
                backend='enumeration(real code)', kind='bounded', seconds=secs / 15))
    out['bounded'].append({
        'function': FN, 'method': 'exhaustive enumeration on the real function against a reference evaluator written '
                                  'from the statement (pyvc/structural_c15.py reference)',
        'bound': f'all {ntrees} real ast trees of depth <= {depth} over the alphabet of structural_c15.leaves/combine '
                 f'x all {nvec} up/down vectors of 3 processes = {runs} runs', 'seconds': round(secs, 2),
        'counted_as_proved': False})
