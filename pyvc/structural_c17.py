"""C17 structural obligations: the method x gate table of the statement, checked on the AST of RPCInterface.

For every XML-RPC of the table the first statement that is not the docstring or a logger call must be the documented
state gate (`self._check_xxx()`), so that nothing can happen before the gate; the gates themselves are proved
(contracts/c17.py: _check_state and its four wrappers).  Every public method of RPCInterface must be either in the
table or in the explicit list of RPCs the statement does not gate (so that a new, ungated RPC is flagged)."""
import ast
from .props import obligation

FROM_DISTRIBUTION, OPERATION, OPERATION_CONCILIATION, CONCILIATION, SYNCHRONIZATION = (
    '_check_from_distribution', '_check_operating', '_check_operating_conciliation', '_check_conciliation',
    "_check_state([SupvisorsStates.SYNCHRONIZATION])")

# transcribed from the statement
TABLE = {
    # 'status queries from DISTRIBUTION on' (application / process status)
    'get_all_applications_info': FROM_DISTRIBUTION, 'get_application_info': FROM_DISTRIBUTION,
    'get_application_rules': FROM_DISTRIBUTION, 'get_all_process_info': FROM_DISTRIBUTION,
    'get_process_info': FROM_DISTRIBUTION, 'get_process_rules': FROM_DISTRIBUTION, 'get_conflicts': FROM_DISTRIBUTION,
    # 'start/restart/test_start/update_numprocs/enable/disable/restart_sequence in OPERATION only'
    'start_application': OPERATION, 'restart_application': OPERATION, 'test_start_application': OPERATION,
    'start_process': OPERATION, 'test_start_process': OPERATION, 'start_any_process': OPERATION,
    'restart_process': OPERATION, 'update_numprocs': OPERATION, 'enable': OPERATION, 'disable': OPERATION,
    'restart_sequence': OPERATION,
    # 'stop requests in OPERATION or CONCILIATION'
    'stop_application': OPERATION_CONCILIATION, 'stop_process': OPERATION_CONCILIATION,
    # 'conciliate in CONCILIATION'
    'conciliate': CONCILIATION,
    # 'end_sync in SYNCHRONIZATION with the USER option'
    'end_sync': SYNCHRONIZATION,
    # 'restart/shutdown from DISTRIBUTION on'
    'restart': FROM_DISTRIBUTION, 'shutdown': FROM_DISTRIBUTION,
}

# RPCs the statement does not gate: instance-level / local status used during SYNCHRONIZATION, local settings, and
# start_args ('do NOT check OPERATION (it is used internally in DISTRIBUTION state)')
UNGATED = {'get_api_version', 'get_supvisors_state', 'get_all_instances_state_modes', 'get_instance_state_modes',
           'get_master_identifier', 'get_strategies', 'get_statistics_status', 'get_network_info',
           'get_all_instances_info', 'get_instance_info', 'get_all_local_process_info', 'get_local_process_info',
           'get_all_inner_process_info', 'get_inner_process_info', 'start_args', 'change_log_level',
           'enable_host_statistics', 'enable_process_statistics', 'update_collecting_period', 'get_logger_levels',
           'logger'}


def _is_logger_call(st):
    return (isinstance(st, ast.Expr) and isinstance(st.value, ast.Call) and isinstance(st.value.func, ast.Attribute)
            and isinstance(st.value.func.value, ast.Attribute) and st.value.func.value.attr == 'logger')


def first_effective_statement(node):
    for st in node.body:
        if isinstance(st, ast.Expr) and isinstance(st.value, ast.Constant):
            continue
        if _is_logger_call(st):
            continue
        return st
    return None


def gate_of(st):
    """'_check_xxx' / '_check_state([...])' when the statement is `self.<gate>(...)`, else None"""
    if not (isinstance(st, ast.Expr) and isinstance(st.value, ast.Call)):
        return None
    f = st.value.func
    if not (isinstance(f, ast.Attribute) and isinstance(f.value, ast.Name) and f.value.id == 'self'):
        return None
    if f.attr == '_check_state':
        return f"_check_state({', '.join(ast.unparse(a) for a in st.value.args)})"
    return f.attr if not st.value.args and not st.value.keywords else None


def run(world, tier, out):
    ci = world.ct.classes['RPCInterface']
    fn = 'rpcinterface:RPCInterface'
    for name, gate in sorted(TABLE.items()):
        fi = ci.methods.get(name)
        if fi is None:
            out['obligations'].append(obligation(f'struct:gate-first/{name}', False, 'method not found', fn))
            continue
        st = first_effective_statement(fi.node)
        got = gate_of(st) if st is not None else None
        out['obligations'].append(obligation(
            f'struct:gate-first/{name}', got == gate,
            f'first statement after docstring/logging is self.{got}() at line {getattr(st, "lineno", 0)}; the statement '
            f'asks for {gate}', fn))
    public = sorted(n for n in ci.methods if not n.startswith('_'))
    unknown = [n for n in public if n not in TABLE and n not in UNGATED]
    out['obligations'].append(obligation('struct:every-public-rpc-classified', not unknown,
                                         f'public methods neither in the gate table nor in the ungated list: {unknown}', fn))
    out['structural'].append({'check': 'method x gate table', 'methods': len(TABLE), 'ungated_by_statement': sorted(UNGATED)})
