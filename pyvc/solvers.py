"""second back end: cvc5 on the SMT-LIB text produced by z3 (used when z3 answers unknown, and as second opinion)."""
import os
import subprocess
import tempfile


def cvc5_check(smt2_text, timeout_ms):
    exe = '/usr/bin/cvc5'
    if not os.path.exists(exe):
        return 'unknown'
    with tempfile.NamedTemporaryFile('w', suffix='.smt2', delete=False) as f:
        f.write('(set-logic ALL)\n' + smt2_text + '\n')
        path = f.name
    try:
        p = subprocess.run([exe, '--tlimit', str(timeout_ms), '--lang', 'smt2', path], capture_output=True, text=True,
                           timeout=timeout_ms / 1000 + 5)
        out = p.stdout.strip().splitlines()
        return out[0] if out and out[0] in ('sat', 'unsat') else 'unknown'
    except Exception:
        return 'unknown'
    finally:
        os.unlink(path)
