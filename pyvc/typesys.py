"""Annotation -> type resolution, enum tables, field typing (all derived from the class table + shape overrides)."""
import ast
from .core import *

PRIMS = {'int': INT, 'bool': BOOL, 'float': REAL, 'str': STR, 'None': NONE, 'Any': ANY, 'object': ANY, 'fp64': FP64}


class TypeSys:
    def __init__(self, ct, shapes):
        self.ct = ct
        self.shapes = shapes        # module object / namespace with FIELD_TYPES, ALIASES, REC_KEYS, ...
        self._enum = {}
        self._class_ids = {}

    # ------------------------------------------------------------------ enums
    def is_enum_class(self, name):
        ci = self.ct.classes.get(name)
        return ci is not None and (ci.is_enum or name in getattr(self.shapes, 'INT_CONST_CLASSES', ()))

    def enum_info(self, name):
        """members: list of (member name, code, python value); real Enum => code = index unless all values int."""
        if name in self._enum:
            return self._enum[name]
        ci = self.ct.classes[name]
        members = []
        for k, v in ci.class_assigns.items():
            if isinstance(k, tuple):
                vals = self._const_eval(v, ci.module)
                for n, val in zip(k, vals):
                    members.append((n, val))
            elif not k.startswith('_'):
                try:
                    members.append((k, self._const_eval(v, ci.module)))
                except Exception:
                    pass
        all_int = all(isinstance(v, int) and not isinstance(v, bool) for _, v in members)
        info = {'is_enum': ci.is_enum, 'members': [(n, (v if all_int else i), v) for i, (n, v) in enumerate(members)]}
        self._enum[name] = info
        return info

    def _const_eval(self, node, module):
        if isinstance(node, ast.Constant):
            return node.value
        if isinstance(node, ast.Call) and isinstance(node.func, ast.Name) and node.func.id == 'range':
            return list(range(*[self._const_eval(a, module) for a in node.args]))
        if isinstance(node, ast.BinOp) and isinstance(node.op, ast.Add):
            return self._const_eval(node.left, module) + self._const_eval(node.right, module)
        if isinstance(node, ast.UnaryOp) and isinstance(node.op, ast.USub):
            return -self._const_eval(node.operand, module)
        if isinstance(node, ast.Name):
            mod = self.ct.modules[module]
            if node.id in mod.assigns:
                return self._const_eval(mod.assigns[node.id], module)
        if isinstance(node, ast.Tuple):
            return tuple(self._const_eval(e, module) for e in node.elts)
        raise Unsupported(f'const eval {ast.dump(node)[:80]}')

    def enum_member(self, cname, mname):
        for i, (n, code, val) in enumerate(self.enum_info(cname)['members']):
            if n == mname:
                return EnumMember(cname, n, code, val)
        return None

    def enum_domain(self, term, cname):
        return z3.Or([term == code for _, code, _ in self.enum_info(cname)['members']])

    def class_id(self, cname):
        if cname not in self._class_ids:
            self._class_ids[cname] = len(self._class_ids) + 1
        return self._class_ids[cname]

    # ------------------------------------------------------------------ annotations
    def ann_to_type(self, node, module, cls=None):
        if node is None:
            return ANY
        if isinstance(node, ast.Constant):
            if node.value is None:
                return NONE
            if isinstance(node.value, str):
                return self.ann_to_type(ast.parse(node.value, mode='eval').body, module, cls)
        if isinstance(node, ast.Name):
            return self._name_type(node.id, module, cls)
        if isinstance(node, ast.Attribute):
            # ApplicationJobs.PlannedJobs, or module.Class
            if isinstance(node.value, ast.Name) and node.value.id in self.ct.classes:
                cc = self.ct.find_class_const(node.value.id, node.attr)
                if cc:
                    return self.ann_to_type(cc[1], self.ct.classes[cc[0]].module, cc[0])
            return self._name_type(node.attr, module, cls)
        if isinstance(node, ast.Subscript):
            head = node.value.id if isinstance(node.value, ast.Name) else getattr(node.value, 'attr', '?')
            args = node.slice.elts if isinstance(node.slice, ast.Tuple) else [node.slice]
            sub = [self.ann_to_type(a, module, cls) for a in args]
            if head in ('List', 'list', 'Sequence', 'Iterable'):
                return TList(sub[0])
            if head in ('Set', 'set', 'AbstractSet', 'FrozenSet'):
                return TSet(sub[0])
            if head in ('Dict', 'dict', 'Mapping'):
                if sub[0] == STR and sub[1] == ANY:
                    return REC
                return TDict(sub[0], sub[1])
            if head == 'Optional':
                return TOpt(sub[0]) if sub[0] != ANY else ANY
            if head in ('Tuple', 'tuple'):
                return TTuple(sub)
            if head == 'Union':
                nn = [s for s in sub if s != NONE]
                if len(nn) == 1 and len(sub) == 2:
                    return TOpt(nn[0])
                return ANY
            if head in ('Type', 'Callable'):
                return TFun()
        if isinstance(node, ast.BinOp) and isinstance(node.op, ast.BitOr):
            l, r = self.ann_to_type(node.left, module, cls), self.ann_to_type(node.right, module, cls)
            if r == NONE:
                return TOpt(l)
            if l == NONE:
                return TOpt(r)
            return ANY
        return ANY

    def _name_type(self, name, module, cls=None):
        if name in PRIMS:
            return PRIMS[name]
        al = getattr(self.shapes, 'ALIASES', {})
        if name in al:
            return al[name]
        if cls and name not in self.ct.classes:
            cc = self.ct.find_class_const(cls, name)
            if cc and not isinstance(cc[1], tuple):
                return self.ann_to_type(cc[1], self.ct.classes[cc[0]].module, cc[0])
        m, n = self.ct.resolve_import(module, name)
        mod = self.ct.modules.get(m)
        if mod is not None:
            if n in mod.classes:
                return TEnum(n) if self.is_enum_class(n) else TObj(n)
            if n in mod.assigns:
                return self.ann_to_type(mod.assigns[n], m)
        if name in self.ct.classes:
            return TEnum(name) if self.is_enum_class(name) else TObj(name)
        ext = getattr(self.shapes, 'EXTERNAL_TYPES', {})
        if name in ext:
            return ext[name]
        return ANY

    # ------------------------------------------------------------------ fields
    def field_type(self, cname, fname):
        ft = getattr(self.shapes, 'FIELD_TYPES', {})
        for c in self.ct.mro(cname):
            if (c, fname) in ft:
                return ft[(c, fname)]
        if (cname, fname) in ft:      # external class (not in the class table): declared fields only
            return ft[(cname, fname)]
        if ('*', fname) in ft:
            return ft[('*', fname)]
        fa = self.ct.field_annotation(cname, fname)
        if fa is not None:
            ty = self.ann_to_type(fa[0], fa[1], cname)
            if ty != ANY:
                return ty
        # infer from `self.x = ClassName(...)` / constants in methods of the class hierarchy
        for c in self.ct.mro(cname):
            ci = self.ct.classes[c]
            for m in ci.methods.values():
                for sub in ast.walk(m.node):
                    if isinstance(sub, ast.Assign):
                        for t in sub.targets:
                            if (isinstance(t, ast.Attribute) and isinstance(t.value, ast.Name) and t.value.id == 'self'
                                    and t.attr == fname):
                                ty = self._infer_value_type(sub.value, ci.module, m)
                                if ty is not None:
                                    return ty
        return None

    def _infer_value_type(self, v, module, fi):
        if isinstance(v, ast.Call) and isinstance(v.func, ast.Name):
            t = self._name_type(v.func.id, module)
            if isinstance(t, TObj):
                return t
        if isinstance(v, ast.Constant):
            if isinstance(v.value, bool):
                return BOOL
            if isinstance(v.value, int):
                return INT
            if isinstance(v.value, float):
                return REAL
            if isinstance(v.value, str):
                return STR
        if isinstance(v, ast.Name):   # self.x = param  -> annotation of the parameter
            for a in fi.node.args.args:
                if a.arg == v.id and a.annotation is not None:
                    t = self.ann_to_type(a.annotation, module)
                    if t != ANY:
                        return t
        return None

    def param_types(self, fi, overrides=None):
        out = {}
        args = fi.node.args
        for a in args.posonlyargs + args.args + args.kwonlyargs:
            t = self.ann_to_type(a.annotation, fi.module, fi.cls)
            out[a.arg] = t
        # `x: T = None` means Optional[T]
        defaults = args.defaults
        pos = args.posonlyargs + args.args
        for a, d in zip(pos[len(pos) - len(defaults):], defaults):
            if isinstance(d, ast.Constant) and d.value is None and out[a.arg] not in (ANY, NONE) \
                    and not isinstance(out[a.arg], TOpt):
                out[a.arg] = TOpt(out[a.arg])
        if overrides:
            out.update(overrides)
        return out

    def return_type(self, fi):
        return self.ann_to_type(fi.node.returns, fi.module, fi.cls)

    def rec_key_type(self, key):
        rk = getattr(self.shapes, 'REC_KEYS', {})
        if key not in rk:
            raise Unsupported(f'record key {key!r} has no declared type in contracts/shapes.py REC_KEYS')
        return rk[key]
