"""pyvc verification driver: loads sidecar contracts, verifies one function against its contract along all paths."""
import ast
import os
import sys
import time
import traceback
from .core import *
from .classtable import ClassTable, Module, FuncInfo
from .typesys import TypeSys
from .interp import (Interp, InterpExpr, InterpComp, InterpStmt, InterpCall, Frame, EXEC, GENERIC, SPEC, SPECULATE, I, B, R, arr,
                     PathEnd)
from .builtins import InterpBuiltins
from .hooks import Registry, Contract

VERIF = os.path.dirname(os.path.dirname(os.path.abspath(__file__)))


class Allowed:
    def __init__(self, refs, preds):
        self.refs, self.preds = refs, preds

    def __call__(self, r):
        return z3.Or([r == x for x in self.refs] + [p(r) for p in self.preds])


class Engine(Interp, InterpExpr, InterpComp, InterpStmt, InterpCall, InterpBuiltins):
    def __init__(self, ct, ts, runner, reg):
        Interp.__init__(self, ct, ts, runner, reg)
        self.cur_fn = '?'
        self.safe_sites = {}
        self.exact_refs = set()
        self.old_heap = None
        self.effects_base = []
        self.loops_passed = []     # (loop key, length of the effect log when the loop was left) on this path
        self.call_stack = []
        self.entry_vars = {}
        self.external_results = []
        self.clock = z3.Const('clock@0', R)

    def eval_term(self, con, clause, fr, extra):
        from .loops import _bind
        b = _bind(self, fr, extra)
        names = [a.arg for a in clause.args.args]
        sub = Frame(None, con.module, {n: b[n] for n in names}, None, None)
        saved = self.mode
        self.mode = SPEC
        try:
            try:
                self.exec_block(clause.body, sub)
            except ReturnEx as r:
                return self.num_term(r.value, 0)
        finally:
            self.mode = saved
        raise Unsupported('decreases clause does not return')

    def bi_clock(self, args, kw, line):
        """ghost: lower bound of every later time.monotonic() result"""
        return SV(self.clock, REAL)

    # ------------------------------------------------------------------ symbolic inputs
    def make_symbolic(self, name, ty):
        if ty in (INT, BOOL, REAL, STR, FP64) or isinstance(ty, TEnum):
            v = SV(z3.Const(name, sort_of(ty)), ty)
            if ty == STR:
                self.run.assume(v.t != STR_NONE, silent=True)
            return self.assume_domain(v)
        if isinstance(ty, TOpt):
            t = z3.Const(name, sort_of(ty))
            v = self.wrap(t, ty)
            if t.sort() == Ref:
                self.run.assume(z3.Or(t == NULL, self.heap.get('alloc', arr(Ref, B))[t]), silent=True)
            if isinstance(v, SV):
                self.assume_domain(v)
            return v
        if isinstance(ty, (TObj, TList, TSet, TDict, TRec)):
            v = self.wrap(z3.Const(name, Ref), ty)
            return self.assume_domain(v)
        if isinstance(ty, TTuple):
            return tuple(self.make_symbolic(f'{name}.{i}', t) for i, t in enumerate(ty.ts))
        raise Unsupported(f'parameter {name}: no symbolic representation for type {ty} (give types= in the contract)')

    def fresh_value(self, hint, ty):
        if ty in (None, NONE):
            return None
        self.run.fresh_n += 1
        return self.make_symbolic(f'{hint}!{self.run.fresh_n}', ty)

    # ------------------------------------------------------------------ spec clauses
    def eval_clause(self, clause, module, bindings):
        """evaluate one pre/post/inv clause (a FunctionDef of a contract file) to a Bool term"""
        names = [a.arg for a in clause.args.args]
        vars_ = {}
        for n in names:
            if n not in bindings:
                raise Unsupported(f'clause {clause.name}: unknown parameter {n!r}')
            vars_[n] = bindings[n]
        fr = Frame(None, module, vars_, bindings.get('self'), None)
        saved, saved_fn = self.mode, self.cur_fn
        self.mode = SPEC
        try:
            try:
                self.exec_block(clause.body, fr)
                raise Unsupported(f'clause {clause.name} does not return')
            except ReturnEx as r:
                return self.as_bool(self.truthy(r.value))
        finally:
            self.mode, self.cur_fn = saved, saved_fn

    def bi_inv(self, args, kw, line):
        """inv(obj): conjunction of the object invariants declared for the class of obj (and its bases)"""
        obj = args[0]
        terms = []
        for c in self.ct.mro(obj.cls):
            for modname, fn in self.reg.invariants.get(c, []):
                terms.append(self.eval_clause(fn, modname, {'self': obj}))
        return self.bool_value(self.conj(terms))

    # modifies vocabulary
    def bi_field(self, args, kw, line):
        return ('field', args[0].ref, args[1])

    def bi_contents(self, args, kw, line):
        v = args[0]
        prefix = {ListV: 'L.', SetV: 'S.', DictV: 'D.', RecV: 'R.'}.get(type(v))
        if prefix is None:
            raise Unsupported('contents() of a non-container')
        # the heap arrays that hold the contents of a container of this element type (a dict keyed by an enum and a dict
        # keyed by str are never the same object: their contents live in different arrays)
        names = None
        if isinstance(v, DictV):
            on, _, ln, _ = self.dict_order(v)      # the insertion-order ghost belongs to the contents of the dict
            names = (self.dict_has(v)[0], self.dict_val(v)[0], on, ln)
        elif isinstance(v, SetV) and v.ety != ANY:
            names = (self.set_arr(v)[0],)
        elif isinstance(v, ListV):
            names = ('L.len', self.list_data(v)[0])
        return ('contents', v.ref, prefix, names)

    def bi_whole(self, args, kw, line):
        return ('array', args[0])

    def bi_everything(self, args, kw, line):
        return ('array', '')

    def bi_everything_but(self, args, kw, line):
        """everything_but('F:state:', 'F:supvisors:', ...): any heap array may change except those whose name starts with
        one of the given prefixes (frames of call-outs that are only known not to touch a few fields)"""
        prefixes = tuple(a for a in args if isinstance(a, str))
        items = tuple(a for a in args if isinstance(a, tuple) and a and a[0] in ('contents', 'field'))
        if len(prefixes) + len(items) != len(args):
            raise Unsupported('everything_but expects array-name prefixes, contents(x) or field(o, name) items')
        return ('array_except', prefixes, items)

    def bi_contents_where(self, args, kw, line):
        """contents_where(lambda r: <Bool>, kind): the contents of every container r of that kind ('list', 'set', 'dict',
        'rec'; default 'list') satisfying the predicate.  The predicate is read in the heap of the moment the modifies
        clause is evaluated (the pre-state); r is only meant to be compared by identity (`r is x`)."""
        lam = args[0]
        kind = args[1] if len(args) > 1 else 'list'
        if not isinstance(lam, LambdaV) or kind not in ('list', 'set', 'dict', 'rec'):
            raise Unsupported('contents_where(lambda r: ..., kind)')
        snap = self.heap.snapshot()
        fr = lam.frame
        pinned = LambdaV(lam.node, Frame(fr.fi, fr.module, {k: self.pin(v, snap) for k, v in fr.vars.items()},
                                         self.pin(fr.selfv, snap) if fr.selfv is not None else None, fr.defcls))
        cache = {}

        def pred(r):
            if r.get_id() not in cache:
                val = {'list': ListV(r, ANY, snap), 'set': SetV(r, ANY, snap), 'dict': DictV(r, ANY, ANY, snap),
                       'rec': RecV(r, snap)}[kind]
                saved = self.mode
                self.mode = SPEC
                try:
                    cache[r.get_id()] = (r, self.as_bool(self.truthy(self.call_lambda(pinned, [val]))))
                finally:
                    self.mode = saved
            return cache[r.get_id()][1]
        return ('pred', pred, {'list': 'L.', 'set': 'S.', 'dict': 'D.', 'rec': 'R.'}[kind])

    def bi_unchanged(self, args, kw, line):
        """unchanged(): no heap location that existed on entry of the function under proof has a different content now.
        Decided from the write log of this path: every modular call made so far had an empty modifies list (anything
        else counts as a change) and every direct store hit an object allocated by the call or restored the value."""
        for _, _, allowed in self.heap.epochs[len(self.old_heap.epochs):]:
            if getattr(allowed, 'items', None) != []:
                return False
        claims = []
        for name in sorted(self.heap.log):
            if name != 'alloc':
                claims.extend(frame_claims(self, name, None))
        return self.bool_value(self.conj(claims)) if claims else True

    def eval_modifies(self, con, bindings):
        if con.modifies is None:
            return None
        names = [a.arg for a in con.modifies.args.args]
        fr = Frame(None, con.module, {n: bindings[n] for n in names}, bindings.get('self'), None)
        saved = self.mode
        self.mode = SPEC
        try:
            try:
                self.exec_block(con.modifies.body, fr)
                return []
            except ReturnEx as r:
                items = self.iter_const(r.value)
                return list(items)
        finally:
            self.mode = saved

    def allowed_fn(self, items):
        """modifies items -> allowed(array name) -> None | 'all' | Allowed(refs, preds) (callable on a ref term)"""
        if items is None:
            f = lambda name: 'all'
            f.items = None
            return f

        def allowed(name):
            if name == 'alloc':
                return 'all'
            refs, preds = [], []
            for it in items:
                if it[0] == 'array_except':
                    if any(name.startswith(p) for p in it[1]):
                        continue
                    # objects whose contents / field are protected although the rest of the array may change
                    prot = [x[1] for x in it[2]
                            if (x[0] == 'contents' and name[:2] == x[2] and (x[3] is None or name in x[3]))
                            or (x[0] == 'field' and name.startswith(f'F:{x[2]}:'))]
                    if not prot:
                        return 'all'
                    preds.append(lambda r, prot=prot: z3.And([r != q for q in prot]))
                    continue
                if it[0] == 'array' and name.startswith(it[1]):
                    return 'all'
                if it[0] == 'field' and name.startswith(f'F:{it[2]}:'):
                    refs.append(it[1])
                if it[0] == 'contents' and name[:2] == it[2] and (len(it) < 4 or it[3] is None or name in it[3]):
                    refs.append(it[1])
                if it[0] == 'pred' and name[:2] == it[2]:
                    preds.append(it[1])
            if not refs and not preds:
                return None
            return Allowed(refs, preds)
        allowed.items = list(items)
        return allowed

    # ------------------------------------------------------------------ modular calls
    def call_by_contract(self, con, fi, args, kwargs, line, selfv=None):
        if self.mode == SPECULATE:
            raise SpeculationFailed()
        if self.mode == GENERIC:
            # a modular call for a *generic* element must not yield one fresh result for all elements and cannot fork the
            # callee's exceptional outcomes.  It is supported when the callee cannot raise, writes nothing, has no ghost
            # effect and returns scalars: the result is then Skolemised over the bound variables (see below); anything
            # else is refused rather than be unsound
            rty0 = self.ts.ann_to_type(ast.parse(con.returns, mode='eval').body, fi.module) if con.returns else self.ts.return_type(fi)
            if not (self.generic_scopes and not con.raises and not con.effect and con.modifies is not None
                    and self._skolemisable(rty0)):
                raise Unsupported(f'call of {con.target} (by contract) inside a summarised comprehension / generic element '
                                  f'evaluation at line {line}: give the enclosing loop an invariant or inline the callee '
                                  f'(supported only for callees with raises=(), modifies [] and scalar results)')
        self.by_contract.add(con.target)
        vars_ = self.bind_params(fi, args, kwargs, line)
        bindings = dict(vars_)
        tag = f'{con.target.split(":")[1]}@{self.cur_fn}:{line}'
        others = self.reg.other_facets(con)
        for c2 in [con] + others:
            for cl in c2.pre:
                t = self.eval_clause(cl, c2.module, bindings)
                self.run.oblige(f'call-pre:{cl.name}/{tag}', 'call-pre', t, line)
                self.run.assume(t)
        dec = con.attrs.get('decreases')
        if con is self.reg.current and isinstance(dec, ast.FunctionDef) and self.mode == EXEC:
            # recursive call of the function under proof: its own contract is used, the declared measure must decrease
            def measure(b):
                names = [a.arg for a in dec.args.args]
                sub = Frame(None, con.module, {n: b[n] for n in names}, None, None)
                saved = self.mode
                self.mode = SPEC
                try:
                    self.exec_block(dec.body, sub)
                except ReturnEx as r:
                    return self.num_term(r.value, line)
                finally:
                    self.mode = saved
                raise Unsupported('decreases clause does not return')
            m_call, m_entry = measure(bindings), measure(self.entry_vars)
            self.run.oblige(f'term:recursion/{tag}', 'term', z3.And(m_call >= 0, m_call < m_entry), line)
        heap_before = self.heap.snapshot()
        mods = self.eval_modifies(con, bindings)
        if self.mode == GENERIC and mods:
            raise Unsupported(f'call of {con.target} (by contract, non-empty modifies) inside a summarised comprehension at line {line}')
        if not con.pure:
            self.heap.havoc(self.allowed_fn(mods))
        logged = set()
        for c2 in [con] + others:
            if c2.effect and c2.effect not in logged:
                logged.add(c2.effect)
                # `effect_receiver = True`: the receiver is logged as first argument (one inherited method called on
                # several objects, e.g. Commander.check on the Starter and on the Stopper)
                recv = bool(c2.attrs.get('effect_receiver'))
                self.effects.append((c2.effect, [vars_[a.arg] for a in fi.node.args.args if a.arg != 'self' or recv]))
                # heap just before the call, for the specification view effect_pre(name, k)
                self.effect_heaps = getattr(self, 'effect_heaps', []) + [(self.effects[-1], heap_before)]
            if c2 is not con:
                self.by_contract.add(c2.target)
        if isinstance(con.returns, (tuple, list)):
            # union-typed result: `returns = ('bool', 'List[bool]')`; the call forks on the alternative returned
            alts = [self.ts.ann_to_type(ast.parse(r, mode='eval').body, fi.module) for r in con.returns]
            if self.mode != EXEC:
                raise Unsupported(f'contract {con.target}: union-typed result outside exec mode')
            rty = alts[-1]
            for k, t in enumerate(alts[:-1]):
                if self.run.decide(self.run.fresh(f'ret_alt{k}', B)):
                    rty = t
                    break
        else:
            rty = self.ts.ann_to_type(ast.parse(con.returns, mode='eval').body, fi.module) if con.returns else self.ts.return_type(fi)
        if fi.node.returns is None and not con.returns:
            rty = NONE
        bindings['old'] = OldNS(vars_, heap_before)
        # exceptional outcomes
        if self.mode == EXEC:
            # an exception escapes only if every contract of the function allows it
            may_raise = [e for e in con.raises if all(e in c2.raises for c2 in others)]
            for k, exc_cls in enumerate(may_raise):
                b = self.run.fresh(f'raises_{exc_cls}', B)
                if self.run.decide(b):
                    ev = ExcV(exc_cls, (self.fresh_value('exc_code', INT), self.opaque_str()))
                    bindings['exc'] = ev
                    for c2 in [con] + others:
                        for cl in c2.exc.get(exc_cls, []):
                            if not self._effect_clause(cl):
                                t = self.eval_callee_clause(cl, c2.module, bindings)
                                if t is not None:
                                    self.run.assume(t)
                    raise PyRaise(ev, line)
        if rty == ANY:
            raise Unsupported(f'contract {con.target}: return type unknown (add returns=)')
        if self.generic_scopes and self.mode != EXEC and self._skolemisable(rty):
            # call made while a comprehension is evaluated for a *generic* element: the result is a function of the bound
            # variables (one value per element, not one for all) and the postconditions hold for every element that
            # reaches the call; both facts outlive the evaluation scope of the generic element
            qvars = [v for vs, _ in self.generic_scopes for v in vs]
            # guards = what was assumed since the outermost generic element was introduced (iteration guard, filters,
            # callee preconditions); the silent shape-validity facts of the values read on the way are typing axioms
            # that hold for every element and are left out of the antecedent
            facts = [t for t in self.run.pc[self.run.scopes[self.generic_scopes[0][1] - 1]:]
                     if t.get_id() not in self.run.persistent]
            result = self.skolem_value('ret_' + fi.name, rty, qvars, facts)
            bindings['result'] = result
            for cl in con.post:
                t = self.as_bool(self.eval_clause(cl, con.module, bindings))
                self.run.assume(z3.ForAll(qvars, z3.Implies(z3.And(facts) if facts else z3.BoolVal(True), t)), silent=True)
            return result
        result = self.fresh_value('ret_' + fi.name, rty)
        bindings['result'] = result
        for c2 in [con] + others:
            for cl in c2.post:
                if not self._effect_clause(cl):
                    t = self.eval_callee_clause(cl, c2.module, bindings)
                    if t is not None:
                        self.run.assume(t)
        return result

    @staticmethod
    def _effect_clause(cl):
        """clauses named post_effect* / exc_<Class>_effect* speak about the effect log of the function's own execution:
        they are proved when the function is verified and NOT assumed at call sites (the caller's log only receives the
        callee's own `effect=` entry)"""
        n = cl.name
        return n.startswith('post_effect') or (n.startswith('exc_') and n.split('_', 2)[-1].startswith('effect'))

    def eval_callee_clause(self, cl, module, bindings):
        """post / exc clause of a callee, assumed at a call site.  Clauses speaking about the ghost effect log
        (no_effect, count_effects, effect_at, effects) are relative to the callee's own entry and cannot be read against
        the caller's log: they are not assumed (sound: less is assumed); the callee's own `effect=` entry is what the
        caller sees."""
        self.callee_clause = getattr(self, 'callee_clause', 0) + 1
        try:
            return self.eval_clause(cl, module, bindings)
        except EffectsInCalleeClause:
            return None
        finally:
            self.callee_clause -= 1

    EFFECT_VOCABULARY = {'no_effect', 'count_effects', 'effect_at', 'effect_pre', 'effects'}

    def _mentions_effects(self, clause):
        return any(isinstance(n, ast.Name) and n.id in self.EFFECT_VOCABULARY for n in ast.walk(clause))

    def _skolemisable(self, ty):
        if ty in (INT, BOOL, REAL, STR) or isinstance(ty, TEnum):
            return True
        return isinstance(ty, TTuple) and all(self._skolemisable(t) for t in ty.ts)

    def skolem_value(self, hint, ty, qvars, facts):
        """value of scalar/tuple type ty given by fresh uninterpreted functions of the bound variables qvars"""
        if isinstance(ty, TTuple):
            return tuple(self.skolem_value(f'{hint}.{i}', t, qvars, facts) for i, t in enumerate(ty.ts))
        self.run.fresh_n += 1
        f = z3.Function(f'{hint}!sk{self.run.fresh_n}', *([v.sort() for v in qvars] + [sort_of(ty)]))
        t = f(*qvars)
        g = z3.And(facts) if facts else z3.BoolVal(True)
        if ty == STR:
            self.run.assume(z3.ForAll(qvars, z3.Implies(g, t != STR_NONE)), silent=True)
        if isinstance(ty, TEnum):
            self.run.assume(z3.ForAll(qvars, z3.Implies(g, self.ts.enum_domain(t, ty.name))), silent=True)
        return SV(t, ty)

    def call_ext_contract(self, con, args, kwargs, line):
        self.externals_used.add(con.target)
        names = con.attrs.get('params', [])
        vars_ = dict(zip(names, args))
        vars_.update(kwargs)
        defaults = con.attrs.get('defaults', {})
        for n in names:
            if n not in vars_:
                vars_[n] = defaults.get(n)
        bindings = dict(vars_)
        for cl in con.pre:
            t = self.eval_clause(cl, con.module, bindings)
            self.run.oblige(f'call-pre:{cl.name}/{con.target}@{self.cur_fn}:{line}', 'call-pre', t, line)
            self.run.assume(t)
        if con.effect:
            self.effects.append((con.effect, list(args)))
        if self.mode == EXEC:
            for exc_cls in con.raises:
                b = self.run.fresh(f'raises_{exc_cls}', B)
                if self.run.decide(b):
                    ev = ExcV(exc_cls, ())
                    bindings['exc'] = ev
                    for cl in con.exc.get(exc_cls.replace('.', ''), []):
                        self.run.assume(self.eval_clause(cl, con.module, bindings))
                    raise PyRaise(ev, line)
        rty = self.ts.ann_to_type(ast.parse(con.returns, mode='eval').body, 'ttypes') if con.returns else NONE
        if con.attrs.get('functional'):
            # deterministic function of its (scalar) arguments: the result is an uninterpreted function application, so
            # two calls with equal arguments agree (also between the code and a specification)
            ts_ = [self.lift(a) for a in args]
            f = z3.Function('fn:' + con.target, *[t.sort() for t in ts_], sort_of(rty))
            result = self.assume_domain(self.wrap(f(*ts_), rty))
            for x in (result if isinstance(result, tuple) else (result,)):
                if isinstance(x, SV) and x.ty == STR:
                    self.run.assume(x.t != STR_NONE, silent=True)
        elif con.attrs.get('fresh') and isinstance(rty, (TList, TSet, TDict)):
            # the external returns a NEW container (allocated by the call), contents unconstrained
            kind = 'list' if isinstance(rty, TList) else 'set' if isinstance(rty, TSet) else 'dict'
            result = self.wrap(self.alloc(kind), rty)
            self.assume_container_shape(result)
        elif con.attrs.get('fresh') and isinstance(rty, TRec):
            # the external returns a NEW payload record (allocated by the call: the caller may write it), keys unconstrained
            result = RecV(self.alloc('rec'))
        else:
            result = self.fresh_value('ext_' + con.target.split('.')[-1], rty)
        bindings['result'] = result
        if con.target == 'time.monotonic':
            self.run.assume(result.t >= self.clock)
            self.clock = result.t
        if result is not None:
            self.external_results.append((con.target, result))
        for cl in con.post:
            self.run.assume(self.eval_clause(cl, con.module, bindings))
        return result


# =====================================================================================================================
def load_contract_module(ct, reg, path, modname):
    src = open(path).read()
    tree = ast.parse(src, filename=path)
    mod = Module(modname, path, tree, src)
    mod.external = False
    ct.modules[modname] = mod
    for node in tree.body:
        if isinstance(node, ast.FunctionDef):
            decos = node.decorator_list
            fi = FuncInfo(node, modname)
            mod.functions[node.name] = fi
            reg.spec_funcs[node.name] = fi
            for d in decos:
                if isinstance(d, ast.Call) and getattr(d.func, 'id', '') == 'invariant':
                    cls = ast.literal_eval(d.args[0])
                    reg.invariants.setdefault(cls, []).append((modname, node))
                if isinstance(d, ast.Call) and getattr(d.func, 'id', '') == 'lemma':
                    kw = {k.arg: ast.literal_eval(k.value) for k in d.keywords}
                    reg.lemmas.append((modname, node, kw))
        elif isinstance(node, ast.ClassDef):
            for d in node.decorator_list:
                if isinstance(d, ast.Call) and getattr(d.func, 'id', '') in ('contract', 'external'):
                    target = ast.literal_eval(d.args[0])
                    kw = {k.arg: ast.literal_eval(k.value) for k in d.keywords}
                    con = Contract(target, kw.get('props', []), node, modname, d.func.id)
                    if d.func.id == 'contract' and con.attrs.get('loops_only'):
                        reg.loop_contracts[target] = con
                    elif d.func.id == 'contract':
                        reg.add_contract(con)
                    else:
                        reg.ext_contracts[target] = con
        elif isinstance(node, ast.Assign) and isinstance(node.targets[0], ast.Name):
            mod.assigns[node.targets[0].id] = node.value
            if node.targets[0].id == 'GROUP' and isinstance(node.value, ast.Constant):
                reg.GROUPS[modname] = node.value.value
        elif isinstance(node, ast.ImportFrom):
            for a in node.names:
                if a.name == '*' and (node.module or '').startswith('contracts.'):
                    mod.star_imports.append(node.module)    # specification functions shared between contract files
                else:
                    mod.imports[a.asname or a.name] = ('from', node.module or '', a.name)
        elif isinstance(node, ast.Import):
            for a in node.names:
                mod.imports[a.asname or a.name.split('.')[0]] = ('module', a.name if a.asname else a.name.split('.')[0])
    return mod


class World:
    """class table + type system + registry, built once per process from the current /repo tree"""

    def __init__(self, repo=None):
        sys.path.insert(0, VERIF) if VERIF not in sys.path else None
        import contracts.shapes as shapes
        self.ct = ClassTable(repo)
        self.ts = TypeSys(self.ct, shapes)
        self.reg = Registry(self.ct, self.ts)
        shapes.install(self)
        cdir = os.path.join(VERIF, 'contracts')
        for fn in sorted(os.listdir(cdir)):
            if fn.endswith('.py') and fn not in ('__init__.py', 'shapes.py'):
                load_contract_module(self.ct, self.reg, os.path.join(cdir, fn), 'contracts.' + fn[:-3])


class FunctionResult:
    def __init__(self, target, variant):
        self.target, self.variant = target, variant
        self.obligations = []
        self.paths = 0
        self.error = None
        self.seconds = 0.0
        self.solver_seconds = 0.0
        self.queries = 0
        self.inlined, self.by_contract, self.externals = set(), set(), set()
        self.source = None
        self.vacuity = None
        self.normal_paths = 0
        self.exc_paths = 0


def verify_function(world, con, variant=None, budget=None, max_paths=4000):
    ct, ts, reg = world.ct, world.ts, world.reg
    fi = ct.function(con.target)
    res = FunctionResult(con.target, variant)
    res.source = ct.source_info(fi)
    t0 = time.time()
    runner = PathRunner(budget)
    reg.current = con
    fname = con.target.split(':')[1]
    safe_all = {}
    try:
        while runner.worklist:
            decisions = runner.worklist.pop()
            runner.start_path(decisions)
            runner.paths += 1
            if runner.paths > max_paths:
                raise Unsupported(f'more than {max_paths} paths')
            eng = Engine(ct, ts, runner, reg)
            eng.cur_fn = fname
            try:
                _run_path(eng, world, con, fi, variant, res, runner)
            except Infeasible:
                runner.infeasible_paths += 1
            except PathEnd:
                pass
            for site, st in eng.safe_sites.items():
                if safe_all.get(site) != 'refuted':
                    safe_all[site] = st
            res.inlined |= eng.inlined
            res.by_contract |= eng.by_contract
            res.externals |= eng.externals_used
    except Unsupported as e:
        res.error = f'unsupported: {e}'
    except z3.Z3Exception as e:
        res.error = f'z3 error: {e}\n{traceback.format_exc()}'
    except Exception as e:   # engine bug: reported as engine error, never as a verdict
        res.error = f'engine crash: {type(e).__name__}: {e}\n{traceback.format_exc()}'
    finally:
        reg.current = None
    if res.error is None:
        from .loops import check_effect_queries
        msg = check_effect_queries(runner)
        if msg:
            res.error = f'unsupported: {msg}'
    # implicit safety obligations: every partial operation met on some path
    explicit = {o.name for o in runner.obligations.values()}
    res.obligations = list(runner.obligations.values())
    if res.error and res.error.startswith('unsupported') and not os.environ.get('PYVC_NO_FALLBACK'):
        # the function is outside the engine's subset (typically after an edit): bounded stand-in on the real code
        try:
            from . import fallback
            extra, note = fallback.run(world, con, variant, fi)
            res.obligations.extend(extra)
            res.error += ' | ' + note
        except Exception as e:
            res.error += f' | bounded fallback failed: {type(e).__name__}: {e}'
    for site, st in sorted(safe_all.items()):
        if site not in explicit and st == 'ok':
            res.obligations.append(Obligation(site, 'safe', 'discharged', 0.0, 'z3(path-feasibility)'))
    res.paths = runner.paths
    res.seconds = time.time() - t0
    res.solver_seconds = runner.solver_seconds
    res.queries = runner.queries
    return res


def verify_lemma(world, modname, node, kw, budget=None):
    """A lemma is a closed specification formula: a module-level function of a contract file decorated
    `@lemma(props=[...], types={'p': 'ProcessStatus', 'n': 'int', ...})`.  Its parameters are universally quantified
    symbolic values of the declared types (objects and collections: arbitrary allocated values of an arbitrary heap),
    `assume(e)` statements restrict them, the returned claim is proved for all of them (obligation `lemma:<name>`).
    The assumptions must be satisfiable together (obligation `vac:lemma-assumptions-satisfiable/<name>`)."""
    ct, ts, reg = world.ct, world.ts, world.reg
    fi = FuncInfo(node, modname)
    target = f'{modname}:{node.name}'
    res = FunctionResult(target, None)
    res.source = ct.source_info(fi)
    t0 = time.time()
    runner = PathRunner(budget)
    try:
        runner.start_path(runner.worklist.pop())
        runner.paths += 1
        eng = Engine(ct, ts, runner, reg)
        eng.cur_fn = node.name
        eng.in_lemma = True
        types = kw.get('types', {})
        vars_ = {}
        for a in node.args.args:
            if a.arg not in types:
                raise Unsupported(f'lemma {node.name}: parameter {a.arg!r} has no declared type (types=)')
            vars_[a.arg] = eng.make_symbolic(a.arg, ts.ann_to_type(ast.parse(types[a.arg], mode='eval').body, 'ttypes'))
        eng.old_heap = eng.heap.snapshot()
        eng.entry_vars = dict(vars_)
        fr = Frame(None, modname, dict(vars_), None, None)
        eng.mode = SPEC
        claim = None
        try:
            eng.exec_block(node.body, fr)
        except ReturnEx as r:
            claim = eng.as_bool(eng.truthy(r.value))
        if claim is None:
            raise Unsupported(f'lemma {node.name} does not return a claim')
        eng.run.assume(eng.str_axioms(), silent=True)
        r = runner.check_sat()
        res.vacuity = str(r)
        vname = f'vac:lemma-assumptions-satisfiable/{node.name}'
        runner.oblige(vname, 'vac', r != z3.unsat, node.lineno, detail=f'z3 says {r} for the assumptions of the lemma')
        if r == z3.unsat:
            runner.obligations[(vname, runner.prefix())].verdict = 'refuted'
        runner.oblige(f'lemma:{node.name}', 'lemma', claim, node.lineno, model_probe=_probe(eng, vars_))
        res.normal_paths = 1
        res.inlined |= eng.inlined
        res.by_contract |= eng.by_contract
        res.externals |= eng.externals_used
    except Infeasible:
        res.error = f'lemma {node.name}: assumptions are contradictory'
    except Unsupported as e:
        res.error = f'unsupported: {e}'
    except z3.Z3Exception as e:
        res.error = f'z3 error: {e}\n{traceback.format_exc()}'
    except Exception as e:   # engine bug: reported as engine error, never as a verdict
        res.error = f'engine crash: {type(e).__name__}: {e}\n{traceback.format_exc()}'
    res.obligations = list(runner.obligations.values())
    res.paths = runner.paths
    res.seconds = time.time() - t0
    res.solver_seconds = runner.solver_seconds
    res.queries = runner.queries
    return res
def param_variant(variant):
    """a variant written 'p=<expr>; q:<Type>' fixes parameters instead of the class of self: p gets the concrete value
    of <expr> (evaluated in the contract module), q is given the type <Type> (functions whose parameters are Union-typed
    or are attribute names / classes passed as literals by every caller)"""
    if not variant or not any(c in variant for c in '=:'):
        return None
    out = {}
    for part in variant.split(';'):
        part = part.strip()
        if not part:
            continue
        i = min(x for x in (part.find('='), part.find(':')) if x >= 0)
        out[part[:i].strip()] = (part[i], part[i + 1:].strip())
    return out


def _bindings(eng, fi, con, variant):
    ptypes = eng.ts.param_types(fi)
    types = dict(con.types)
    if variant and '#' in variant:
        variant, tv = variant.split('#', 1)
        variant = variant or None
        types.update(con.type_variants[int(tv.split(':')[0])])
    consts = {}
    for k, v in types.items():
        if v.startswith('class:'):
            consts[k] = ClassV(v[6:])
            continue
        ptypes[k] = eng.ts.ann_to_type(ast.parse(v, mode='eval').body, fi.module, fi.cls)
    pv = param_variant(variant)
    if pv is not None:
        variant = None
        for k, (kind, text) in pv.items():
            if kind == ':':
                ptypes[k] = eng.ts.ann_to_type(ast.parse(text, mode='eval').body, fi.module, fi.cls)
    vars_ = {}
    for a in fi.node.args.posonlyargs + fi.node.args.args + fi.node.args.kwonlyargs:
        n = a.arg
        if pv is not None and n in pv and pv[n][0] == '=':
            saved = eng.mode
            eng.mode = SPEC
            try:
                vars_[n] = eng.ev(ast.parse(pv[n][1], mode='eval').body, Frame(None, con.module))
            finally:
                eng.mode = saved
            continue
        if n == 'self' and fi.cls:
            cls = variant or fi.cls
            obj = ObjV(z3.Const('self', Ref), cls)
            eng.assume_domain(obj)
            if variant or con.exact or not any(c != cls for c in eng.ct.subclasses(cls)):
                eng.exact_refs.add(obj.ref.get_id())
                eng.run.assume(class_of(obj.ref) == eng.ts.class_id(cls), silent=True)
            vars_[n] = obj
        elif n in consts:
            vars_[n] = consts[n]
        else:
            vars_[n] = eng.make_symbolic(n, ptypes[n])
    return vars_


def _run_path(eng, world, con, fi, variant, res, runner):
    vars_ = _bindings(eng, fi, con, variant)
    bindings = dict(vars_)
    for cl in con.pre:
        eng.run.assume(eng.eval_clause(cl, con.module, bindings))
    if res.vacuity is None:
        eng.run.assume(eng.str_axioms(), silent=True)
        r = runner.check_sat()
        res.vacuity = str(r)
        runner.oblige(f'vac:precondition-satisfiable/{eng.cur_fn}', 'vac', r != z3.unsat, 0,
                      detail=f'z3 says {r} for pre ∧ invariants ∧ shape validity')
        if r == z3.unsat:
            # force a refuted record
            runner.obligations[(f'vac:precondition-satisfiable/{eng.cur_fn}', runner.prefix())].verdict = 'refuted'
    eng.old_heap = eng.heap.snapshot()
    eng.heap.log = {}
    eng.entry_vars = dict(vars_)
    eng.clock0 = eng.clock
    eng.effects_base = list(eng.effects)
    bindings['old'] = OldNS(vars_, eng.old_heap)
    mods = eng.eval_modifies(con, bindings)
    fr = Frame(fi, fi.module, dict(vars_), vars_.get('self'), fi.cls)
    eng.depth = 0
    outcome = 'normal'
    result = None
    try:
        eng.exec_block(fi.node.body, fr)
    except ReturnEx as r:
        result = r.value
    except PyRaise as e:
        outcome = e
    eng.run.assume(eng.str_axioms(), silent=True)
    if outcome == 'normal':
        res.normal_paths += 1
        bindings['result'] = result
        for cl in con.post:
            t = eng.eval_clause(cl, con.module, bindings)
            runner.oblige(f'post:{cl.name}/{eng.cur_fn}', 'post', t, cl.lineno, model_probe=_probe(eng, bindings))
    else:
        res.exc_paths += 1
        e = outcome
        declared = [c for c in con.raises if eng.exc_isinstance(e.exc.cls, c)]
        if not declared:
            site = e.implicit if e.implicit else f'safe:{e.exc.cls}(raised)@{eng.cur_fn}:{e.lineno}'
            eng.safe_sites[site] = 'refuted'
            runner.oblige(site, 'safe', False, e.lineno, detail=f'{e.exc.cls} escapes {con.target}',
                          model_probe=_probe(eng, bindings))
        else:
            bindings['exc'] = e.exc
            for cl in con.exc.get(declared[0], []):
                t = eng.eval_clause(cl, con.module, bindings)
                runner.oblige(f'exc:{cl.name}/{eng.cur_fn}', 'post', t, cl.lineno, model_probe=_probe(eng, bindings))
    # frame: every write since entry is justified by the modifies clause (or hits an object allocated by the call)
    if mods is not None:
        allowed = eng.allowed_fn(mods)
        for name in sorted(eng.heap.log):
            if name == 'alloc':
                continue
            a = allowed(name)
            if a == 'all':
                continue
            claims = frame_claims(eng, name, a)
            if claims:
                runner.oblige(f'frame:{name}/{eng.cur_fn}', 'frame', z3.And(claims) if len(claims) > 1 else claims[0],
                              0, model_probe=_probe(eng, bindings))


def frame_claims(eng, name, a):
    """claims stating that the writes logged for heap array `name` since entry stay inside `a` (None: nothing allowed)
    or hit objects allocated since entry"""
    alloc0 = eng.old_heap.get('alloc', arr(Ref, B))
    new, old = eng.heap.get(name), eng.old_heap.get(name)
    events = eng.heap.log[name]
    claims = []
    general = False
    seen = set()
    for evn in events:
        if evn[0] == 'store':
            w = evn[1]
            if w.get_id() in seen:
                continue
            seen.add(w.get_id())
            claims.append(z3.Or(z3.Not(alloc0[w]), a(w) if a is not None else z3.BoolVal(False), new[w] == old[w]))
        elif evn[0] == 'havoc':
            ca = evn[1]
            if ca == 'all' or ca.preds:
                general = True
            else:
                for w in ca.refs:
                    if w.get_id() in seen:
                        continue
                    seen.add(w.get_id())
                    claims.append(z3.Or(z3.Not(alloc0[w]), a(w) if a is not None else z3.BoolVal(False), new[w] == old[w]))
        else:
            general = True
    if general:
        r = z3.Const('r!fr', Ref)
        cond = alloc0[r] if a is None else z3.And(alloc0[r], z3.Not(a(r)))
        claims = [z3.ForAll([r], z3.Implies(cond, new[r] == old[r]))]
    return claims


def _probe(eng, bindings):
    """model -> JSON scenario (object graph of the pre-state reachable from the parameters), see concrete.py"""
    def probe(model):
        vars_ = {k: v for k, v in eng.entry_vars.items()}
        try:
            from . import concrete
            return concrete.extract_scenario(eng, model, vars_)
        except Exception as e:   # extraction must never break a verdict
            out = {'extraction_error': f'{type(e).__name__}: {e}'}
            for k, v in vars_.items():
                try:
                    if isinstance(v, SV):
                        out[k] = str(model.eval(v.t, model_completion=True))
                except Exception:
                    pass
            return out
    return probe
