"""Seeded property-breaking changes (written by independent agents, kept under seeded/<id>/): the thorough tier applies
each one recorded as caught by this property to a scratch copy of /repo (outside /repo and /verif, removed right
afterwards) and requires the quick check to report a VIOLATION there.  `python -m pyvc.seeded [<id>...]` runs them all
against every property they list and prints a table (used to fill DESIGN.md)."""
import json
import os
import shutil
import subprocess
import sys
import tempfile

VERIF = os.path.dirname(os.path.dirname(os.path.abspath(__file__)))


def seeds():
    d = os.path.join(VERIF, 'seeded')
    out = []
    if not os.path.isdir(d):
        return out
    for n in sorted(os.listdir(d)):
        mp = os.path.join(d, n, 'meta.json')
        if os.path.exists(mp):
            m = json.load(open(mp))
            m['id'] = n
            m['dir'] = os.path.join(d, n)
            out.append(m)
    return out


def run_check_on(seed, prop, timeout=1500):
    """apply the seed to a scratch copy, run ./check <prop>; -> dict(exit, violations, tail)"""
    d = tempfile.mkdtemp(prefix='pyvc_seed_')
    try:
        shutil.copytree('/repo/supvisors', os.path.join(d, 'supvisors'),
                        ignore=shutil.ignore_patterns('__pycache__'))
        p = subprocess.run(['patch', '-p1', '-s', '-i', os.path.join(seed['dir'], 'patch.diff')], cwd=d, capture_output=True, text=True)
        if p.returncode != 0:
            return {'exit': None, 'violations': [], 'tail': 'patch does not apply: ' + (p.stdout + p.stderr)[-200:]}
        env = dict(os.environ, VERIF_REPO=d)
        r = subprocess.run([os.path.join(VERIF, 'check'), prop, '--tier', 'quick'], env=env, capture_output=True, text=True,
                           timeout=timeout)
        lines = r.stdout.splitlines()
        return {'exit': r.returncode, 'violations': [l for l in lines if l.startswith('VIOLATION')],
                'tail': '\n'.join(lines[-3:])[-600:]}
    except subprocess.TimeoutExpired:
        return {'exit': None, 'violations': [], 'tail': 'timeout'}
    finally:
        shutil.rmtree(d, ignore_errors=True)


def run_for_property(prop):
    """thorough tier: every seed recorded as caught by `prop` must still be caught"""
    out = {'seeds': 0, 'results': [], 'failures': []}
    for s in seeds():
        if prop not in s.get('caught_by', []):
            continue
        out['seeds'] += 1
        r = run_check_on(s, prop)
        ok = r['exit'] == 1 and bool(r['violations'])
        out['results'].append({'seed': s['id'], 'caught': ok, 'exit': r['exit'], 'violation': (r['violations'] or [''])[0][:200]})
        if not ok:
            out['failures'].append({'seed': s['id'], 'exit': r['exit'], 'tail': r['tail']})
    return out


if __name__ == '__main__':
    want = sys.argv[1:]
    for s in seeds():
        if want and s['id'] not in want:
            continue
        props = s.get('check_with') or [s['property']]
        for p_ in props:
            r = run_check_on(s, p_)
            print(f"{s['id']:24s} {p_} exit={r['exit']} violations={len(r['violations'])} {(r['violations'] or [r['tail'].splitlines()[-1] if r['tail'] else ''])[0][:160]}")
