"""Bounded stand-ins of C18 (NEVER counted as proved): exhaustive small-scope enumeration driving the REAL functions of
the repository (imported from VERIF_REPO, default /repo) against reference specifications written from the
documentation.  Run as a script: prints one JSON document {checks: [{name, bound, cases, failures: [...]}]}."""
import itertools
import json
import os
import re
import sys
from types import SimpleNamespace
from unittest.mock import Mock

sys.path.insert(0, os.environ.get('VERIF_REPO', '/repo'))

from supvisors.sparser import Parser                      # noqa: E402
from supvisors.process import ProcessRules                # noqa: E402
from supvisors.application import HomogeneousGroup, ApplicationRules        # noqa: E402
from supvisors.options import SupvisorsOptions            # noqa: E402

CHECKS = []


def check(name, bound):
    def deco(fn):
        fails, n = [], 0
        try:
            for case, ok, detail in fn():
                n += 1
                if not ok and len(fails) < 5:
                    fails.append({'case': repr(case)[:300], 'detail': str(detail)[:300]})
                elif not ok:
                    fails.append(None)
        except Exception as e:      # harness problem: reported, never a verdict
            CHECKS.append({'name': name, 'bound': bound, 'cases': n, 'error': f'{type(e).__name__}: {e}'})
            return fn
        CHECKS.append({'name': name, 'bound': bound, 'cases': n, 'failed': len(fails), 'failures': [f for f in fails if f]})
        return fn
    return deco


def supvisors(instances=()):
    sv = Mock()
    sv.mapper.instances = {i: None for i in instances}
    sv.mapper.filter = lambda lst: list(dict.fromkeys(x for x in lst if x in sv.mapper.instances))
    return sv


def parser(aliases=None):
    p = Parser.__new__(Parser)
    p.supvisors = supvisors()
    p.roots, p.models, p.application_patterns, p.program_patterns = [], {}, {}, {}
    p.aliases = dict(aliases or {})
    return p


# ---------------------------------------------------------------------------------------------------- best pattern
FRAGMENTS = ['a', 'ab', 'a.', 'a*', 'b+', '.*', 'abc', '[ab]+', 'x']
NAMES = ['', 'a', 'ab', 'abc', 'ba', 'xab', 'aab']


@check('get_best_pattern with the real re: a matching pattern of maximal match length, None iff none matches',
       'ordered sets of <= 3 patterns out of 9 valid regex fragments x 7 names')
def best_pattern():
    p = parser()
    for k in (0, 1, 2, 3):
        for pats in itertools.permutations(FRAGMENTS, k):
            d = {x: object() for x in pats}
            for name in NAMES:
                res = p.get_best_pattern(name, d)
                perf = {x: len(re.search(f'({x})', name).group()) for x in pats if re.search(f'({x})', name)}
                ok = (res is None and not perf) or (res in perf and perf[res] == max(perf.values()))
                yield (pats, name), ok, f'result={res!r} match lengths={perf}'


@check('literal pattern of ApplicationRules.check_hash_identifiers: valid regex, group 1 accepted by int()',
       'names over {a, _, -, 0, 1, 9} of length <= 4')
def literal_regex():
    pat = r'.*[-_](\d+)$'
    re.compile(pat)
    for k in range(5):
        for t in itertools.product('a_-019', repeat=k):
            name = ''.join(t)
            mo = re.match(pat, name)
            ok = True
            if mo:
                try:
                    ok = int(mo.group(1)) >= 0
                except ValueError:
                    ok = False
            yield name, ok, 'group 1 not an int'


# ---------------------------------------------------------------------------------------------------- identifiers
TOKENS = ['10.0.0.1', '10.0.0.2', 'al1', 'al2', '*', '@', '#', '']
ALIASES = [{}, {'al1': ['10.0.0.1', '10.0.0.3']}, {'al1': ['10.0.0.3', 'al2'], 'al2': ['10.0.0.1', '10.0.0.4']}]


def ref_identifier_list(tokens, aliases):
    """documentation: comma-separated list; aliases are replaced by their contents, in declaration order (an alias may
    use an alias declared after it); duplicates and empty items removed, order kept"""
    lst = [t.strip() for t in tokens]
    for an, av in aliases.items():
        out = []
        for x in lst:
            out.extend(av if x == an else [x])
        lst = out
    return list(dict.fromkeys(x for x in lst if x))


def ref_load_identifiers(ids):
    """documentation: '*' makes the others redundant; '@' / '#' alone mean all instances; with a sign the process cannot
    be started anywhere (identifiers = []) until the sign is resolved"""
    has_at, has_hash = '@' in ids, '#' in ids
    rest = [x for x in ids if x not in ('@', '#')]
    if '*' in rest or ((has_at or has_hash) and not rest):
        rest = ['*']
    return ([] if (has_at or has_hash) else rest, rest if has_at else [], rest if has_hash else [])


@check('check_identifier_list + load_identifiers: aliases expand in order, signs are extracted',
       'lists of <= 3 tokens out of 8 (2 addresses, 2 alias names, *, @, #, empty) x 3 alias tables (none, one, two nested)')
def identifiers():
    for aliases in ALIASES:
        p = parser(aliases)
        for k in (1, 2, 3):
            for toks in itertools.product(TOKENS, repeat=k):
                text = ', '.join(toks)
                got = p.check_identifier_list(text)
                exp = ref_identifier_list(toks, aliases)
                # the code expands the FIRST occurrence of an alias only: a repeated alias name is left in the list (and
                # dropped later by mapper.filter, as its comment says); compared modulo such left-overs
                got_clean = [x for x in got if x not in aliases]
                yield (aliases, text), got_clean == [x for x in exp if x not in aliases], f'got {got} expected {exp}'
                if not text:
                    continue
                for rules in (ProcessRules(p.supvisors), ApplicationRules(p.supvisors)):
                    elt = Mock()
                    elt.findtext = lambda tag, text=text: text if tag == 'identifiers' else None
                    p.load_identifiers(elt, rules)
                    e = ref_load_identifiers(got)
                    if not text.replace(',', '').strip() and not got:
                        pass
                    yield (aliases, text, type(rules).__name__), \
                        (rules.identifiers, rules.at_identifiers, rules.hash_identifiers) == e, \
                        f'got {(rules.identifiers, rules.at_identifiers, rules.hash_identifiers)} expected {e}'


# ---------------------------------------------------------------------------------------------------- @ and #
INST = ['i1', 'i2', 'i3']


def group_cases(sign):
    rule_lists = [['*']] + [list(c) for k in (1, 2, 3) for c in itertools.permutations(INST, k)] + [['zz', 'i2']]
    for n in (1, 2, 3, 4):
        for rule in rule_lists:
            # per process: None = not yet assigned (carries the sign rule), 'iK' = already assigned to that instance
            for states in itertools.product([None] + INST, repeat=n):
                yield n, rule, states


def build_group(sign, n, rule, states, known=INST):
    sv = supvisors(known)
    grp = HomogeneousGroup('prg', sv)
    procs = []
    for idx, st in enumerate(states):
        r = ProcessRules(sv)
        if st is None:
            r.identifiers = []
            setattr(r, sign + '_identifiers', list(rule))
        else:
            r.identifiers = [st]
        procs.append(SimpleNamespace(process_index=idx, rules=r, namespec=f'grp:prg_{idx}'))
    grp.processes = list(reversed(procs))     # stored order must not matter: the code sorts by process_index
    setattr(grp, sign + '_identifiers', list(rule))
    return grp, procs


def ref_at(rule, states):
    """documentation: '@' gives each not-yet-assigned process, in process_index order, the next applicable instance that
    no process of the group uses; no roll-over: the processes in excess stay unassigned"""
    refs = list(INST) if '*' in rule else [x for x in dict.fromkeys(rule) if x in INST]
    free = [x for x in refs if x not in [s for s in states if s]]
    out = []
    for s in states:
        out.append(s if s else (free.pop(0) if free else None))
    return out


def ref_hash(rule, states):
    """documentation: '#' gives each not-yet-assigned process, in process_index order, the applicable instance that runs
    the fewest processes of the group (first one on ties), rolling over the list"""
    refs = list(INST) if '*' in rule else [x for x in dict.fromkeys(rule) if x in INST]
    count = {x: sum(1 for s in states if s == x) for x in refs}
    out = []
    for s in states:
        if s:
            out.append(s)
        else:
            best = min(refs, key=lambda x: count[x])
            count[best] += 1
            out.append(best)
    return out


@check("HomogeneousGroup.assign_at_identifiers: '@' one process per instance, without roll-over",
       '<= 4 processes x rule in {*, every ordered subset of 3 instances, one list with an unknown name} x every '
       'assignment state (unassigned / already on one of 3 instances)')
def assign_at():
    for n, rule, states in group_cases('at'):
        grp, procs = build_group('at', n, rule, states)
        try:
            grp.assign_at_identifiers()
            got = [(p.rules.identifiers[0] if p.rules.identifiers else None) for p in procs]
            exp = ref_at(rule, states)
            ok = got == exp and all((not p.rules.at_identifiers) == (g is not None) for p, g in zip(procs, got))
            yield (rule, states), ok, f'got {got} expected {exp}'
        except Exception as e:
            yield (rule, states), False, f'{type(e).__name__}: {e}'


@check("HomogeneousGroup.assign_hash_identifiers: '#' least loaded instance, with roll-over",
       '<= 4 processes x rule in {*, every ordered subset of 3 instances, one list with an unknown name} x every '
       'assignment state (unassigned / already on an instance OF THE RULE)')
def assign_hash():
    for n, rule, states in group_cases('hash'):
        refs = INST if '*' in rule else [x for x in rule if x in INST]
        if any(s and s not in refs for s in states):
            continue       # outside the documented precondition (see the next check)
        grp, procs = build_group('hash', n, rule, states)
        try:
            grp.assign_hash_identifiers()
            got = [(p.rules.identifiers[0] if p.rules.identifiers else None) for p in procs]
            exp = ref_hash(rule, states)
            yield (rule, states), got == exp and not any(p.rules.hash_identifiers for p in procs), f'got {got} expected {exp}'
        except Exception as e:
            yield (rule, states), False, f'{type(e).__name__}: {e}'


@check("HomogeneousGroup.assign_hash_identifiers is total: a group mixing '#' processes with processes that have plain "
       "identifiers, or whose '#' list knows no instance, resolves without raising",
       '2 processes: one with the # rule, one with plain identifiers [*] / [i3]; rule in {[i1, i2], [zz]}')
def assign_hash_total():
    for rule, other in ((['i1', 'i2'], ['*']), (['i1', 'i2'], ['i3']), (['zz'], None)):
        sv = supvisors(INST)
        grp = HomogeneousGroup('prg', sv)
        r0 = ProcessRules(sv)
        r0.identifiers, r0.hash_identifiers = [], list(rule)
        procs = [SimpleNamespace(process_index=0, rules=r0, namespec='grp:prg_0')]
        if other is not None:
            r1 = ProcessRules(sv)
            r1.identifiers = list(other)
            procs.append(SimpleNamespace(process_index=1, rules=r1, namespec='grp:prg_1'))
        grp.processes = procs
        grp.hash_identifiers = list(rule)
        try:
            grp.assign_hash_identifiers()
            yield (rule, other), True, ''
        except Exception as e:
            yield (rule, other), False, f'{type(e).__name__}: {e}'


# ---------------------------------------------------------------------------------------------------- addresses
BYTES = ['0', '1', '223', '224', '239', '240', '255', '256', '-1', 'a', '', ' 7']
PORTS = ['0', '1', '65535', '65536', 'x', '']


def strict_byte(s, lo=0, hi=255):
    return re.fullmatch(r'[0-9]+', s) is not None and lo <= int(s) <= hi


@check('to_ip_address: ValueError or the address itself, four bytes in [0;255]',
       'every dotted string of 3, 4, 5 parts out of 12 byte texts (in range, out of range, negative, non numeric, empty, '
       'with a blank) + ANY / INADDR_ANY')
def ip_address():
    for k in (3, 4, 5):
        for parts in itertools.product(BYTES, repeat=k) if k == 4 else itertools.product(BYTES[:4], repeat=k):
            value = '.'.join(parts)
            try:
                res = SupvisorsOptions.to_ip_address(value)
                ok = res == value and len(parts) == 4 and all(0 <= int(x) <= 255 for x in parts)
                yield value, ok, f'accepted: {res!r}'
            except ValueError:
                yield value, not (k == 4 and all(strict_byte(x) for x in parts)), 'rejected although valid'
            except Exception as e:
                yield value, False, f'{type(e).__name__}: {e}'
    for value in ('ANY', 'INADDR_ANY'):
        yield value, SupvisorsOptions.to_ip_address(value) is None, 'ANY must give None'


@check('to_multicast_group: ValueError or (address in 224.0.0.0-239.255.255.255 not reserved, port in [1;65535])',
       'first byte out of 12 texts x 3 following bytes out of 4 texts x 6 port texts, with 0, 1 or 2 colons')
def multicast_group():
    reserved = SupvisorsOptions.RESERVED_MULTICAST_ADDRESSES
    for b0 in BYTES:
        for rest in itertools.product(['0', '255', '256', 'a'], repeat=3):
            addr = '.'.join((b0,) + rest)
            for port in PORTS:
                for value in (addr, f'{addr}:{port}', f'{addr}:{port}:1'):
                    valid = (value.count(':') == 1 and strict_byte(b0, 224, 239) and all(strict_byte(x) for x in rest)
                             and addr not in reserved and re.fullmatch(r'[0-9]+', port) is not None and 1 <= int(port) <= 65535)
                    try:
                        res = SupvisorsOptions.to_multicast_group(value)
                        ok = (res == (addr, int(port)) and 224 <= int(b0) <= 239 and all(0 <= int(x) <= 255 for x in rest)
                              and 1 <= res[1] <= 65535 and addr not in reserved)
                        yield value, ok, f'accepted: {res!r}'
                    except ValueError:
                        yield value, not valid, 'rejected although valid'
                    except Exception as e:
                        yield value, False, f'{type(e).__name__}: {e}'


if __name__ == '__main__':
    json.dump({'checks': CHECKS}, sys.stdout)
