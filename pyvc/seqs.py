"""Quantified summaries of sequence builtins over symbolic collections (no loop invariant needed)."""
import ast
from .core import *
from .interp import EXEC, GENERIC, SPEC, I, B, R, arr, Frame


def _sub_generic(eng, fn):
    """run fn() in GENERIC mode (no forking; partial operations become obligations)"""
    saved = eng.mode
    if eng.mode == EXEC:
        eng.mode = GENERIC
    try:
        return fn()
    finally:
        eng.mode = saved


def list_of(eng, v, line):
    """list(<collection>) : a fresh list enumerating the collection (order unspecified for sets, see DESIGN 1.3)"""
    if isinstance(v, ListV):
        n = eng.list_len(v)
        r = eng.alloc('list')
        nl = ListV(r, v.ety)
        ln = eng.heap.get('L.len', arr(Ref, I))
        eng.heap.set('L.len', z3.Store(ln, r, n))
        name, da = eng.list_data(nl)
        eng.heap.set(name, z3.Store(da, r, eng.list_data(v)[1][v.ref]))
        return nl
    if isinstance(v, (SetV, SymSet, DictV)) or (isinstance(v, ValuesView) and v.what == 'keys'):
        chi = eng.set_chi(v)
        ety = eng.elem_type(v)
        chi = as_array(chi)
        c = eng.card(chi)
        r = eng.alloc('list')
        nl = ListV(r, ety)
        ln = eng.heap.get('L.len', arr(Ref, I))
        eng.heap.set('L.len', z3.Store(ln, r, c))
        name, da = eng.list_data(nl)
        row = eng.run.fresh('enum', arr(I, sort_of(ety)))
        eng.heap.set(name, z3.Store(da, r, row))
        i, j = z3.Const('i!lo', I), z3.Const('j!lo', I)
        x = z3.Const('x!lo', sort_of(ety))
        eng.run.assume(z3.ForAll([i], z3.Implies(z3.And(0 <= i, i < c), chi[row[i]])), silent=True)
        eng.run.assume(z3.ForAll([x], z3.Implies(chi[x], z3.Exists([i], z3.And(0 <= i, i < c, row[i] == x)))), silent=True)
        eng.run.assume(z3.ForAll([i, j], z3.Implies(z3.And(0 <= i, i < j, j < c), row[i] != row[j])), silent=True)
        return nl
    if isinstance(v, ValuesView):
        d = v.d
        has, val = eng.dict_has(d)[1][d.ref], eng.dict_val(d)[1][d.ref]
        c = eng.card(has)
        if v.what == 'values':
            ety = d.vty
            r = eng.alloc('list')
            nl = ListV(r, ety)
            ln = eng.heap.get('L.len', arr(Ref, I))
            eng.heap.set('L.len', z3.Store(ln, r, c))
            name, da = eng.list_data(nl)
            row = eng.run.fresh('enumv', arr(I, sort_of(ety)))
            keys = eng.run.fresh('enumk', arr(I, sort_of(d.kty)))
            eng.heap.set(name, z3.Store(da, r, row))
            i, j = z3.Const('i!lo', I), z3.Const('j!lo', I)
            k = z3.Const('k!lo', sort_of(d.kty))
            eng.run.assume(z3.ForAll([i], z3.Implies(z3.And(0 <= i, i < c), z3.And(has[keys[i]], row[i] == val[keys[i]]))), silent=True)
            eng.run.assume(z3.ForAll([k], z3.Implies(has[k], z3.Exists([i], z3.And(0 <= i, i < c, keys[i] == k)))), silent=True)
            eng.run.assume(z3.ForAll([i, j], z3.Implies(z3.And(0 <= i, i < j, j < c), keys[i] != keys[j])), silent=True)
            return nl
        if v.what == 'items':
            # list(d.items()): a fresh list of (key, value) pairs enumerating the keys once each (same facts as 'values')
            ety = TTuple([d.kty, d.vty])
            mk = sort_of(ety).constructor(0)
            r = eng.alloc('list')
            nl = ListV(r, ety)
            ln = eng.heap.get('L.len', arr(Ref, I))
            eng.heap.set('L.len', z3.Store(ln, r, c))
            name, da = eng.list_data(nl)
            row = eng.run.fresh('enumi', arr(I, sort_of(ety)))
            keys = eng.run.fresh('enumk', arr(I, sort_of(d.kty)))
            eng.heap.set(name, z3.Store(da, r, row))
            i, j = z3.Const('i!lo', I), z3.Const('j!lo', I)
            k = z3.Const('k!lo', sort_of(d.kty))
            eng.run.assume(z3.ForAll([i], z3.Implies(z3.And(0 <= i, i < c), z3.And(has[keys[i]], row[i] == mk(keys[i], val[keys[i]])))), silent=True)
            eng.run.assume(z3.ForAll([k], z3.Implies(has[k], z3.Exists([i], z3.And(0 <= i, i < c, keys[i] == k)))), silent=True)
            eng.run.assume(z3.ForAll([i, j], z3.Implies(z3.And(0 <= i, i < j, j < c), keys[i] != keys[j])), silent=True)
            return nl
    raise Unsupported(f'list() of {type(v).__name__} at line {line}')


def flatten_values(eng, d, line):
    """sum(d.values(), []) for a dict of lists: a fresh list whose members are exactly the members of the lists stored
    in d (over-approximation: order and multiplicities of the concatenation are left unspecified)"""
    ety = d.vty.t
    has, val = eng.dict_has(d)[1][d.ref], eng.dict_val(d)[1][d.ref]
    r = eng.alloc('list')
    nl = ListV(r, ety)
    length = eng.run.fresh('flatlen', I)
    eng.run.assume(length >= 0, silent=True)
    ln = eng.heap.get('L.len', arr(Ref, I))
    eng.heap.set('L.len', z3.Store(ln, r, length))
    name, da = eng.list_data(nl)
    row = eng.run.fresh('flat', arr(I, sort_of(ety)))
    eng.heap.set(name, z3.Store(da, r, row))
    sub = ListV(None, ety, d.heap)
    sda = eng.list_data(sub)[1]
    sln = eng.H(d).get('L.len', arr(Ref, I))
    i, j = z3.Const('i!fl', I), z3.Const('j!fl', I)
    k = z3.Const('k!fl', sort_of(d.kty))
    inner = lambda kk, jj: z3.And(has[kk], 0 <= jj, jj < sln[val[kk]])
    eng.run.assume(z3.ForAll([i], z3.Implies(z3.And(0 <= i, i < length),
                                             z3.Exists([k, j], z3.And(inner(k, j), sda[val[k]][j] == row[i])))), silent=True)
    eng.run.assume(z3.ForAll([k, j], z3.Implies(inner(k, j),
                                                z3.Exists([i], z3.And(0 <= i, i < length, row[i] == sda[val[k]][j])))), silent=True)
    return nl


def sum_list(eng, l, start, line):
    """sum(<list of int>[, start]): the sum is not computed, it is the value of the uninterpreted function
    listsum(row, n) ("sum of row[0..n)"), known through facts every finite sum satisfies, stated for this term (closed
    over the bound variables when a comprehension is being summarised for a generic element):
      n = 0 -> 0;  n = 1 -> row[0];
      all cells >= 0 -> the sum is >= 0, >= every cell and >= the sum of any two distinct cells;
      append (syntactic shape of the row, like setsum): listsum(Store(r0, n-1, x), n) = listsum(r0, n-1) + x."""
    if l.ety != INT:
        raise Unsupported(f'sum() over a symbolic list of {l.ety} at line {line}')
    f = z3.Function('listsum', arr(I, I), I, I)
    facts = []

    def term(row, n, depth):
        row, n = z3.simplify(row), z3.simplify(n)
        s = f(row, n)
        j, j2 = z3.Const('j!sum', I), z3.Const('j2!sum', I)
        inr = lambda x: z3.And(0 <= x, x < n)
        nonneg = z3.ForAll([j], z3.Implies(inr(j), row[j] >= 0))
        facts.append(z3.Implies(n <= 0, s == 0))
        facts.append(z3.Implies(n == 1, s == row[0]))
        facts.append(z3.Implies(nonneg, z3.And(
            s >= 0, z3.ForAll([j], z3.Implies(inr(j), s >= row[j])),
            z3.ForAll([j, j2], z3.Implies(z3.And(0 <= j, j < j2, j2 < n), s >= row[j] + row[j2])))))
        if z3.is_store(row) and depth < 16:
            r0, i, x = row.children()
            if z3.is_true(z3.simplify(i + 1 == n)):
                facts.append(z3.Implies(i >= 0, s == term(r0, i, depth + 1) + x))
        return s
    total = term(eng.list_data(l)[1][l.ref], eng.list_len(l), 0)
    qvars = [v for vs, _ in eng.generic_scopes for v in vs]
    body = z3.And(facts)
    eng.run.assume(z3.ForAll(qvars, body) if qvars else body, silent=True)
    if start == 0 and not isinstance(start, bool):
        return SV(total, INT)
    return eng.binop(ast.Add(), start, SV(total, INT), line)


def sum_gen(eng, gen, start, line):
    """sum(<int expression> for ... in <symbolic collection(s)> [if ...]): the value is a fresh (Skolem, over the bound
    variables of an enclosing summarised comprehension) integer known through facts every finite sum satisfies - nothing
    selected -> 0; all selected terms >= 0 -> the sum is >= 0, >= every term and >= any two terms of distinct
    positions.  (Two evaluations of the same sum are not known to be equal: sound, lower bounds only.)"""
    q = eng.quantified_gen(gen, 'elems')
    if q[0] != 'sym':
        raise Unsupported(f'sum() of a generator over a constant sequence at line {line}')
    _, vars_, guard, elt, coll = q
    et = eng.num_term(elt, line)
    if et.sort() != I:
        raise Unsupported(f'sum() of non-integer terms at line {line}')
    qvars = [v for vs, _ in eng.generic_scopes for v in vs]
    if qvars:
        s = eng.skolem_value('gensum', INT, qvars, []).t
    else:
        s = eng.run.fresh('gensum', I)
    v2 = [z3.Const(f'{v.decl().name()}!2', v.sort()) for v in vars_]
    sub = list(zip(vars_, v2))
    guard2, et2 = z3.substitute(guard, *sub), z3.substitute(et, *sub)
    apart = (vars_[0] < v2[0]) if (len(vars_) == 1 and vars_[0].sort() == I) else z3.Or([a != b for a, b in sub])
    nonneg = z3.ForAll(vars_, z3.Implies(guard, et >= 0))
    facts = z3.And(
        z3.Implies(z3.Not(z3.Exists(vars_, guard)), s == 0),
        z3.Implies(nonneg, z3.And(s >= 0, z3.ForAll(vars_, z3.Implies(guard, s >= et)),
                                  z3.ForAll(vars_ + v2, z3.Implies(z3.And(guard, guard2, apart), s >= et + et2)))))
    eng.run.assume(z3.ForAll(qvars, facts) if qvars else facts, silent=True)
    if start == 0 and not isinstance(start, bool):
        return SV(s, INT)
    return eng.binop(ast.Add(), start, SV(s, INT), line)


def _key_of(eng, key, val, line):
    if key is None:
        return val
    return eng.call_value(key, [val], {}, line)


def _src_elems(eng, src):
    """-> (vars, guard, value, source collection) for a symbolic collection or a generator over one"""
    if isinstance(src, GenV):
        q = eng.quantified_gen(src, 'elems')
        if q[0] != 'sym':
            raise Unsupported('expected symbolic generator')
        return q[1], q[2], q[3], q[4]
    vars_, guard, val = eng.generic_iter(src)
    return vars_, guard, val, src


def minmax_symbolic(eng, src, key, default, is_min, line):
    v1, g1, e1, coll = _src_elems(eng, src)     # the chosen element
    v2, g2, e2, _ = _src_elems(eng, src)        # any other element
    nonempty = z3.Exists(v1, g1)
    if default is NotImplemented:
        eng.partial(nonempty, 'ValueError', line)
    elif eng.mode == EXEC:
        if not eng.run.decide(nonempty):
            return default
    else:
        raise Unsupported('min/max with default outside exec mode')
    eng.run.assume(g1)
    eng.assume_domain(e1)

    def keys():
        eng.run.push()
        eng.generic_scopes.append((list(v2), len(eng.run.scopes)))
        try:
            eng.run.assume(g2)
            eng.assume_domain(e2)
            k2 = _key_of(eng, key, e2, line)
        finally:
            eng.generic_scopes.pop()
            eng.run.pop()
        k1 = _key_of(eng, key, e1, line)
        return k1, k2
    k1, k2 = _sub_generic(eng, keys)
    le = eng.as_bool(eng.order(ast.LtE() if is_min else ast.GtE(), k1, k2, line))
    eng.run.assume(z3.ForAll(v2, z3.Implies(g2, le)))
    if isinstance(coll, ListV) and len(v1) == 1 and len(v2) == 1:
        # python returns the first optimal element of an ordered collection
        strict = eng.as_bool(eng.order(ast.Lt() if is_min else ast.Gt(), k1, k2, line))
        eng.run.assume(z3.ForAll(v2, z3.Implies(z3.And(g2, v2[0] < v1[0]), strict)))
    return e1


def next_symbolic(eng, q, has_default, default, line):
    if q[0] == 'plain':
        src = q[1]
        if isinstance(src, (SetV, SymSet, DictV, ValuesView, ListV)):
            vars_, guard, val = eng.generic_iter(src)
            ne = z3.Exists(vars_, guard)
            if has_default:
                if eng.mode != EXEC:
                    raise Unsupported('next(iter, default) outside exec mode')
                if not eng.run.decide(ne):
                    return default
            else:
                eng.partial(ne, 'StopIteration', line)
            eng.run.assume(guard)
            if isinstance(src, ListV):
                eng.run.assume(vars_[0] == 0)
            return eng.assume_domain(val)
        raise Unsupported(f'next() of {type(src).__name__}')
    _, vars_, guard, elt, coll = q
    ne = z3.Exists(vars_, guard)
    if has_default:
        if eng.mode != EXEC:
            raise Unsupported('next(gen, default) over a symbolic collection outside exec mode')
        if not eng.run.decide(ne):
            return default
    else:
        eng.partial(ne, 'StopIteration', line)
    eng.run.assume(guard)
    if isinstance(coll, (ListV, OrdIter)) and len(vars_) == 1:
        # first matching index (lists) / first matching position in insertion order (dicts)
        j = z3.Const('j!nx', I)
        eng.run.assume(z3.ForAll([j], z3.Implies(z3.And(0 <= j, j < vars_[0]), z3.Not(z3.substitute(guard, (vars_[0], j))))))
    return elt


def listcomp(eng, n, fr):
    gen = GenV(ast.GeneratorExp(elt=n.elt, generators=n.generators), fr)
    if len(n.generators) == 1:
        coll = eng.ev(n.generators[0].iter, fr)
        items = eng.iter_const(coll)
        if items is not None:
            return ConstSeq(eng.eval_gen_const(items, n.generators[0], n, fr))
    q = eng.quantified_gen(gen, 'elems')
    _, vars_, guard, elt, coll = q
    if has_list_literal(elt):
        if isinstance(coll, ListV) and len(vars_) == 1 and not n.generators[0].ifs:
            c = CompV('list', vars_[0], guard, elt, coll)
            c.length = eng.list_len(coll)     # length of the source when the comprehension is evaluated
            return c
        raise Unsupported('comprehension building fresh lists over a filtered / non-list source')
    if isinstance(elt, ConstDict) and elt.items and all(isinstance(k, str) for k, _ in elt.items) and len(vars_) == 1:
        # one str-keyed dict LITERAL per selected element (e.g. the payload list returned by StarterModel.feed_model):
        # the value expressions have been evaluated above (their `safe:` obligations are generated); the records
        # themselves are ABSTRACTED - element j is an opaque payload reference, nothing is known about its contents,
        # its freshness or its allocation.  Sound over-approximation: whatever is proved of the result holds for any
        # list of that length; a clause about the contents of these records is undecidable with it, never wrongly proved.
        ety = REC
        et = eng.run.fresh('reclit', arr(vars_[0].sort(), Ref))[vars_[0]]
    else:
        ety = eng.value_type(elt)
        if isinstance(ety, TOpt) or ety == NONE:
            raise Unsupported('list comprehension with None elements')
        et = eng.coerce_term(elt, ety)
    r = eng.alloc('list')
    nl = ListV(r, ety)
    name, da = eng.list_data(nl)
    row = eng.run.fresh('comp', arr(I, sort_of(ety)))
    eng.heap.set(name, z3.Store(da, r, row))
    ln = eng.heap.get('L.len', arr(Ref, I))
    g = n.generators[0]
    j = z3.Const('j!lc', I)
    if isinstance(coll, ListV) and not g.ifs and len(vars_) == 1:
        n_src = eng.list_len(coll)
        eng.heap.set('L.len', z3.Store(ln, r, n_src))
        eng.run.assume(z3.ForAll(vars_, z3.Implies(guard, row[vars_[0]] == et)), silent=True)
        return nl
    length = eng.run.fresh('complen', I)
    eng.run.assume(length >= 0, silent=True)
    eng.heap.set('L.len', z3.Store(ln, r, length))
    # every element comes from a selected source element (Skolem arrays src_v: result index -> source element, so that
    # the fact is triggered by row[j]), every selected source element appears
    src = [eng.run.fresh('src', arr(I, v.sort())) for v in vars_]
    sub_j = [(v, a[j]) for v, a in zip(vars_, src)]
    eng.run.assume(z3.ForAll([j], z3.Implies(z3.And(0 <= j, j < length),
                                             z3.And(z3.substitute(guard, *sub_j), row[j] == z3.substitute(et, *sub_j))),
                             patterns=[row[j]]), silent=True)
    eng.run.assume((length == 0) == z3.Not(z3.Exists(vars_, guard)), silent=True)
    if isinstance(coll, ListV) and len(vars_) == 1:
        # order-preserving embedding pos: selected source index -> result index (strictly monotone, onto)
        pos = eng.run.fresh('pos', arr(I, I))
        i1, i2 = z3.Const('i1!lc', I), z3.Const('i2!lc', I)
        g1 = z3.substitute(guard, (vars_[0], i1))
        g2 = z3.substitute(guard, (vars_[0], i2))
        e1 = z3.substitute(et, (vars_[0], i1))
        eng.run.assume(z3.ForAll([i1], z3.Implies(g1, z3.And(0 <= pos[i1], pos[i1] < length, row[pos[i1]] == e1))), silent=True)
        eng.run.assume(z3.ForAll([i1, i2], z3.Implies(z3.And(g1, g2, i1 < i2), pos[i1] < pos[i2])), silent=True)
        eng.run.assume(z3.ForAll([j], z3.Implies(z3.And(0 <= j, j < length), pos[src[0][j]] == j), patterns=[row[j]]), silent=True)
    else:
        posf = z3.Function(f'posf!{eng.run.fresh_n}', *([v.sort() for v in vars_] + [I]))
        pj = posf(*vars_)
        eng.run.assume(z3.ForAll(vars_, z3.Implies(guard, z3.And(0 <= pj, pj < length, row[pj] == et))), silent=True)
    return nl


def sorted_symbolic(eng, args, kw, line):
    src = args[0]
    key = kw.get('key')
    reverse = kw.get('reverse', False)
    if isinstance(src, GenV):
        items = eng.iter_const_of_gen(src)
        if items is not None:
            src = ConstSeq(items)
        else:
            src = listcomp(eng, ast.ListComp(elt=src.node.elt, generators=src.node.generators), src.frame)
    items = eng.iter_const(src)
    if items is not None and len(items) <= 1:
        return ConstSeq(list(items))
    if items is not None:
        src = eng.new_list(items, eng.value_type(items[0]))
    if not isinstance(src, ListV):
        src = list_of(eng, src, line)
    # result: a permutation of src (bijection perm on indices), ordered by key; stable
    n = eng.list_len(src)
    r = eng.alloc('sorted')
    out = ListV(r, src.ety)
    ln = eng.heap.get('L.len', arr(Ref, I))
    eng.heap.set('L.len', z3.Store(ln, r, n))
    name, da = eng.list_data(out)
    row = eng.run.fresh('sorted', arr(I, sort_of(src.ety)))
    eng.heap.set(name, z3.Store(da, r, row))
    perm = eng.run.fresh('perm', arr(I, I))      # result index -> source index
    inv = eng.run.fresh('perminv', arr(I, I))
    srow = eng.list_data(src)[1][src.ref]
    i, j = z3.Const('i!so', I), z3.Const('j!so', I)
    inr = lambda x: z3.And(0 <= x, x < n)
    eng.run.assume(z3.ForAll([i], z3.Implies(inr(i), z3.And(inr(perm[i]), inv[perm[i]] == i, row[i] == srow[perm[i]])),
                             patterns=[row[i], perm[i]]), silent=True)
    eng.run.assume(z3.ForAll([i], z3.Implies(inr(i), z3.And(inr(inv[i]), perm[inv[i]] == i, srow[i] == row[inv[i]])),
                             patterns=[srow[i], inv[i]]), silent=True)

    def keyterms():
        a = eng.wrap(row[i], src.ety)
        b = eng.wrap(row[j], src.ety)
        return _key_of(eng, key, a, line), _key_of(eng, key, b, line)
    eng.run.push()
    eng.generic_scopes.append(([i, j], len(eng.run.scopes)))
    try:
        eng.run.assume(z3.And(inr(i), inr(j)))
        ki, kj = _sub_generic(eng, keyterms)
    finally:
        eng.generic_scopes.pop()
        eng.run.pop()
    le = eng.as_bool(eng.order(ast.GtE() if reverse is True else ast.LtE(), ki, kj, line))
    eq = eng.as_bool(eng.eq(ki, kj))
    if eng.is_fp(ki):
        # IEEE keys: the result is only known to be ordered when no key is NaN (comparisons with NaN are all false,
        # the outcome of the sort is then unspecified beyond being a permutation)
        nonan = z3.ForAll([i], z3.Implies(inr(i), z3.Not(z3.fpIsNaN(ki.t))))
        le = z3.Implies(nonan, le)
        eq = z3.And(nonan, eq)
    eng.run.assume(z3.ForAll([i, j], z3.Implies(z3.And(inr(i), inr(j), i < j), le)), silent=True)
    # stability
    eng.run.assume(z3.ForAll([i, j], z3.Implies(z3.And(inr(i), inr(j), i < j, eq), perm[i] < perm[j])), silent=True)
    return out


def list_method(eng, l, name, args, kw, line):
    n = eng.list_len(l)
    nm, da = eng.list_data(l)
    ln = eng.heap.get('L.len', arr(Ref, I))
    if name == 'pop':
        if args:
            idx = args[0]
            if idx == 0 or (isinstance(idx, int) and idx >= 0):
                eng.partial(n > idx, 'IndexError', line)
                v = eng.list_get(l, z3.IntVal(idx))
                j = z3.Const('j!pop', I)
                # only the cells of the new list are defined (guarded quantifier: the finite counter-model search can expand it)
                row = eng.run.fresh('popped', da[l.ref].sort())
                eng.run.assume(z3.ForAll([j], z3.Implies(z3.And(0 <= j, j < n - 1),
                                                         row[j] == z3.If(j >= idx, da[l.ref][j + 1], da[l.ref][j]))), silent=True)
                eng.heap.set(nm, z3.Store(da, l.ref, row))
                eng.heap.set('L.len', z3.Store(ln, l.ref, n - 1))
                return v
            if idx != -1:
                raise Unsupported('list.pop(symbolic index)')
        eng.partial(n > 0, 'IndexError', line)
        v = eng.list_get(l, n - 1)
        eng.heap.set('L.len', z3.Store(ln, l.ref, n - 1))
        return v
    if name == 'extend':
        other = args[0]
        items = eng.iter_const(other)
        if items is not None:
            for it in items:
                eng.list_append(l, it)
            return None
        if isinstance(other, ListV):
            m = eng.list_len(other)
            orow = eng.list_data(other)[1][other.ref]
            j = z3.Const('j!ext', I)
            # only the cells of the new list are defined (guarded quantifier: the finite counter-model search can expand it)
            row = eng.run.fresh('ext', da[l.ref].sort())
            eng.run.assume(z3.ForAll([j], z3.Implies(z3.And(0 <= j, j < n + m),
                                                     row[j] == z3.If(j >= n, orow[j - n], da[l.ref][j]))), silent=True)
            # implied by the definition of row (source index -> new index), stated with a trigger on the appended row so
            # that "every element of the other list is in the result" is found by instantiation (j + n is no pattern)
            eng.run.assume(z3.ForAll([j], z3.Implies(z3.And(0 <= j, j < m), row[j + n] == orow[j]), patterns=[orow[j]]),
                           silent=True)
            eng.heap.set(nm, z3.Store(da, l.ref, row))
            eng.heap.set('L.len', z3.Store(ln, l.ref, n + m))
            return None
    if name == 'remove':
        x = eng.coerce_term(args[0], l.ety)
        i = eng.run.fresh('rm', I)
        j = z3.Const('j!rm', I)
        present = z3.Exists([j], z3.And(0 <= j, j < n, da[l.ref][j] == x))
        eng.partial(present, 'ValueError', line)
        eng.run.assume(z3.And(0 <= i, i < n, da[l.ref][i] == x,
                              z3.ForAll([j], z3.Implies(z3.And(0 <= j, j < i), da[l.ref][j] != x))))
        # only the cells of the new list are defined (guarded quantifier: the finite counter-model search can expand it;
        # the unguarded definition `forall j. row[j] == old[j + 1]` sends z3's model finder along j, j + 1, j + 2, ...)
        row = eng.run.fresh('removed', da[l.ref].sort())
        eng.run.assume(z3.ForAll([j], z3.Implies(z3.And(0 <= j, j < n - 1),
                                                 row[j] == z3.If(j >= i, da[l.ref][j + 1], da[l.ref][j]))), silent=True)
        # implied by the definition of row (old index -> new index), stated with a trigger on the OLD row so that
        # "every other element is still there" is found by instantiation
        orow = da[l.ref]
        eng.run.assume(z3.ForAll([j], z3.Implies(z3.And(0 <= j, j < n, j != i), row[z3.If(j < i, j, j - 1)] == orow[j]),
                                 patterns=[orow[j]]), silent=True)
        eng.heap.set(nm, z3.Store(da, l.ref, row))
        eng.heap.set('L.len', z3.Store(ln, l.ref, n - 1))
        return None
    if name == 'index':
        x = eng.coerce_term(args[0], l.ety)
        i = eng.run.fresh('idx', I)
        j = z3.Const('j!ix', I)
        present = z3.Exists([j], z3.And(0 <= j, j < n, da[l.ref][j] == x))
        eng.partial(present, 'ValueError', line)
        eng.run.assume(z3.And(0 <= i, i < n, da[l.ref][i] == x,
                              z3.ForAll([j], z3.Implies(z3.And(0 <= j, j < i), da[l.ref][j] != x))))
        return SV(i, INT)
    if name == 'insert' and args[0] == 0:
        j = z3.Const('j!ins', I)
        row = eng.run.fresh('inserted', da[l.ref].sort())
        eng.run.assume(z3.ForAll([j], z3.Implies(z3.And(0 <= j, j < n + 1),
                                                 row[j] == z3.If(j == 0, eng.coerce_term(args[1], l.ety), da[l.ref][j - 1]))),
                       silent=True)
        eng.heap.set(nm, z3.Store(da, l.ref, row))
        eng.heap.set('L.len', z3.Store(ln, l.ref, n + 1))
        return None
    raise Unsupported(f'list method {name} at line {line}')


# ---------------------------------------------------------------------------------------------------------------------
# comprehensions whose element is a literal of fresh lists: bulk allocation through Skolem functions
def has_list_literal(v):
    if isinstance(v, ConstSeq):
        return v.kind == 'list' or any(has_list_literal(x) for x in v.items)
    if isinstance(v, tuple):
        return any(has_list_literal(x) for x in v)
    return False


class _Bulk:
    """allocates, for every value of the bound variable `v` selected by `guard`, the lists of a literal: list number n
    of the literal is sk_n(v) (fresh, pairwise distinct, distinct from everything allocated before), inv_n its inverse;
    the heap arrays are redefined exactly on the range of the sk_n"""

    def __init__(self, eng, v, guard):
        self.eng, self.v, self.guard, self.sks = eng, v, guard, []

    def term(self, val, ty):
        eng = self.eng
        if isinstance(ty, TList) and isinstance(val, ConstSeq) and val.kind == 'list':
            return self.new_list([self.term(x, ty.t) for x in val.items], ty.t)
        if isinstance(ty, TTuple) and (isinstance(val, tuple) or isinstance(val, ConstSeq)):
            items = val.items if isinstance(val, ConstSeq) else list(val)
            if len(items) != len(ty.ts):
                raise Unsupported('tuple literal does not fit its declared type')
            return sort_of(ty).mk(*[self.term(x, t) for x, t in zip(items, ty.ts)])
        if has_list_literal(val):
            raise Unsupported(f'list literal inside a comprehension where {ty} is declared')
        return eng.coerce_term(val, ty)

    def new_list(self, item_terms, ety):
        eng, v, guard = self.eng, self.v, self.guard
        S = v.sort()
        eng.run.fresh_n += 1
        n = eng.run.fresh_n
        sk = z3.Function(f'sk!{n}', S, Ref)
        inv = z3.Function(f'skinv!{n}', Ref, S)
        al = eng.heap.get('alloc', arr(Ref, B))
        eng.run.assume(z3.ForAll([v], z3.Implies(guard, z3.And(z3.Not(al[sk(v)]), sk(v) != NULL, kind_of(sk(v)) == KINDS['list'],
                                                               inv(sk(v)) == v))), silent=True)
        v2 = z3.Const(f'v2!bulk{n}', S)
        for sk2 in self.sks:
            eng.run.assume(z3.ForAll([v, v2], z3.Implies(z3.And(guard, z3.substitute(guard, (v, v2))), sk(v) != sk2(v2))), silent=True)
        self.sks.append(sk)
        r = z3.Const(f'r!bulk{n}', Ref)
        owner = z3.And(z3.substitute(guard, (v, inv(r))), sk(inv(r)) == r)
        eng.heap.set('alloc', eng.def_array([r], z3.Or(al[r], owner)))
        ln = eng.heap.get('L.len', arr(Ref, I))
        eng.heap.set('L.len', eng.def_array([r], z3.If(owner, z3.IntVal(len(item_terms)), ln[r])))
        if item_terms:
            name, da = eng.list_data(ListV(NULL, ety))
            row = da[r]
            for i, it in enumerate(item_terms):
                row = z3.Store(row, i, z3.substitute(it, (v, inv(r))))
            eng.heap.set(name, eng.def_array([r], z3.If(owner, row, da[r])))
        return sk(v)


def bulk_materialize(eng, comp, ty):
    if isinstance(ty, TOpt):
        ty = ty.t
    v, guard = comp.var, comp.guard
    bulk = _Bulk(eng, v, guard)
    if comp.kind == 'list' and isinstance(ty, TList):
        et = bulk.term(comp.elt, ty.t)
        r = eng.alloc('list')
        nl = ListV(r, ty.t)
        ln = eng.heap.get('L.len', arr(Ref, I))
        eng.heap.set('L.len', z3.Store(ln, r, comp.length))
        name, da = eng.list_data(nl)
        row = eng.run.fresh('comp', arr(I, sort_of(ty.t)))
        eng.run.assume(z3.ForAll([v], z3.Implies(guard, row[v] == et)), silent=True)
        eng.heap.set(name, z3.Store(da, r, row))
        return nl
    if comp.kind == 'dict' and isinstance(ty, TDict) and sort_of(ty.k) == v.sort():
        vt = bulk.term(comp.elt, ty.v)
        d = eng.new_dict(ty.k, ty.v)
        hn, ha = eng.dict_has(d)
        eng.heap.set(hn, z3.Store(ha, d.ref, eng.def_array([v], guard)))
        vn, va = eng.dict_val(d)
        vals = eng.run.fresh('compv', va[d.ref].sort())
        eng.run.assume(z3.ForAll([v], z3.Implies(guard, vals[v] == vt)), silent=True)
        eng.heap.set(vn, z3.Store(va, d.ref, vals))
        return d
    raise Unsupported(f'comprehension of fresh lists stored where {ty} is declared')
