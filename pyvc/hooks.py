"""Registry: contracts, assumed externals and the engine's extension points (loops, sequence summaries)."""
import ast
from .core import *
from .interp import EXEC, GENERIC, SPEC, I, B, R, arr, Frame, PathEnd


class Contract:
    def __init__(self, target, props, node, module, kind='contract'):
        self.target, self.props, self.node, self.module, self.kind = target, props, node, module, kind
        self.pre, self.post, self.exc, self.loops = [], [], {}, {}
        self.comps = {}
        self.raises = ()
        self.modifies = None
        self.attrs = {}
        self.name = node.name
        for item in node.body:
            if isinstance(item, ast.FunctionDef):
                n = item.name
                if n.startswith('pre_') or n == 'pre':
                    self.pre.append(item)
                elif n.startswith('post_') or n == 'post':
                    self.post.append(item)
                elif n.startswith('exc_'):
                    cls = n.split('_')[1]
                    self.exc.setdefault(cls, []).append(item)
                elif n == 'modifies':
                    self.modifies = item
                elif n.startswith('comp') and n[4:5].isdigit():
                    # comp<k>_inv / comp<k>_modifies : comprehension #k (source order) executed as a loop with invariant
                    k, what = n[4:].split('_', 1)
                    self.comps.setdefault(int(k), {})[what] = item
                elif n.startswith('loop'):
                    # loop<k>_inv / loop<k>_modifies / loop<k>_decreases
                    k, what = n[4:].split('_', 1)
                    self.loops.setdefault(int(k), {})[what] = item
                else:
                    self.attrs[n] = item
            elif isinstance(item, ast.Assign) and isinstance(item.targets[0], ast.Name):
                try:
                    self.attrs[item.targets[0].id] = ast.literal_eval(item.value)
                except Exception:
                    self.attrs[item.targets[0].id] = item.value
        self.raises = tuple(self.attrs.get('raises', ()))
        self.variants = self.attrs.get('variants')
        # type_variants = [{'param': 'type', ...}, ...]: the function is verified once per entry, the entry overriding
        # `types` (a parameter whose run-time type is not fixed by the caller, e.g. Union[str, int] XML-RPC parameters);
        # the value 'class:Name' binds the parameter to the class object Name
        self.type_variants = self.attrs.get('type_variants')
        self.inline = set(self.attrs.get('inline', ()))
        self.types = self.attrs.get('types', {})
        self.returns = self.attrs.get('returns')
        self.effect = self.attrs.get('effect')
        self.assumed = bool(self.attrs.get('assumed', kind == 'external'))
        self.exact = self.attrs.get('exact', False)
        self.pure = bool(self.attrs.get('pure', False))

    def all_variants(self):
        """variant labels to verify: '<Class>' (exact class of self), '<Class>#<k>:<types>' / '#<k>:<types>' (k-th entry
        of type_variants; the text after ':' is informational), or None"""
        out = []
        for v in (self.variants or [None]):
            if self.type_variants:
                for k, tv in enumerate(self.type_variants):
                    out.append(f"{v or ''}#{k}:" + ','.join(f'{a}={t}' for a, t in tv.items()))
            else:
                out.append(v)
        return out

    def __repr__(self):
        return f'<Contract {self.target}>'


class Registry:
    def __init__(self, ct, ts):
        self.ct, self.ts = ct, ts
        self.contracts = {}      # qualname -> Contract
        self.externals = {}      # dotted name -> value or Contract
        self.ext_contracts = {}  # dotted name -> Contract
        self.invariants = {}     # class -> [FunctionDef]
        self.lemmas = []
        self.spec_funcs = {}
        self.current = None      # contract under verification
        self.pure_funcs = set()
        self.loop_contracts = {}
        self.duplicates = []
        self.facets = {}         # target -> every contract written for it (several properties may each carry one)

    # ---------------------------------------------------------------- policies
    def has_contract(self, fi, eng):
        return fi.qualname in self.contracts

    def dispatch_ok(self, fi, selfv):
        return False

    def add_contract(self, con):
        """several contracts may be written for one function (one per property group): each is verified on its own; at
        call sites all of them apply (every precondition is an obligation, every postcondition is assumed).  The primary
        one (frame, result type) is the first verified contract, else the first assumed one."""
        con.cid = f'{con.module}:{con.name}'
        fs = self.facets.setdefault(con.target, [])
        fs.append(con)
        if len(fs) > 1:
            self.duplicates.append((con.target, [c.cid for c in fs]))
        prim = next((c for c in fs if not c.assumed), fs[0])
        self.contracts[con.target] = prim

    def all_contracts(self):
        return [c for fs in self.facets.values() for c in fs]

    def by_cid(self, cid):
        return next(c for c in self.all_contracts() if c.cid == cid)

    def other_facets(self, con):
        """(kept for the call-site code) no other facet is conjoined: a call site uses ONE contract of the callee, see
        contract_for_call"""
        return []

    BASE_GROUPS = ('process',)    # contracts every group builds on (ProcessStatus, C11)
    BASE_MODULES = ('contracts.assumed_repo', 'contracts.assumed_transport')

    def cross_group_ok(self, cur, con):
        return con.target in cur.attrs.get('use_contracts', ())

    GROUPS = {}     # contract module -> group name (module-level GROUP = '...' of the contract file)

    def group_of(self, con):
        return self.GROUPS.get(con.module, con.module)

    def contract_for_call(self, fi, eng, selfv):
        con = self.contracts.get(fi.qualname)
        if con is None:
            return None
        cur = self.current
        fs = self.facets.get(fi.qualname, [])
        if cur is not None and (len(fs) > 1 or self.group_of(con) != self.group_of(cur)):
            # Contracts are written per property group, each group verified on its own with the preconditions its author
            # established at the call sites.  A call site uses: the callee contract of the caller's own file, else of its
            # group, else a shared one (ProcessStatus contracts of C11, general transport / Supervisor wrappers), else
            # one the caller names in `use_contracts`; otherwise the caller executes the callee's REAL code (inlining is
            # always sound).  Any single contract is sound at a call site (its pre is an obligation there).
            g = self.group_of(cur)
            # (a contract the caller NAMES takes precedence over the catch-all one of a base group / module: of the named
            # facets the first verified one is used, see below)
            same = ([c for c in fs if c.module == cur.module] or [c for c in fs if self.group_of(c) == g]
                    or [c for c in fs if c.target in cur.attrs.get('use_contracts', ())
                        and not (self.group_of(c) in self.BASE_GROUPS or c.module in self.BASE_MODULES)]
                    or [c for c in fs if self.group_of(c) in self.BASE_GROUPS or c.module in self.BASE_MODULES]
                    or [c for c in fs if c.target in cur.attrs.get('use_contracts', ())])
            if not same:
                return None
            con = next((c for c in same if not c.assumed), same[0])
        if cur is not None:
            if fi.qualname in cur.inline:
                return None
            if cur.target == con.target and eng.depth == 0 and not cur.attrs.get('recursive'):
                return None    # (contracts declaring `recursive = True` use their own contract at the recursive call:
                #                partial correctness, termination is not an obligation of the engine)
        if eng.mode == SPEC and not con.pure:
            return None
        return con

    def pure_in_spec(self, fi):
        return True

    def getter_override(self, cls, attr):
        return None

    def external_attr(self, cls, attr):
        # method of an external class (e.g. xml Element.findtext): assumed contract named 'Class.method' whose first
        # parameter is the receiver
        key = f'{cls}.{attr}'
        if key in self.ext_contracts:
            return lambda eng, obj: Builtin('ext:' + key, obj)
        return None

    # ---------------------------------------------------------------- default extension points
    def _unsup(self, what, line):
        raise Unsupported(f'{what} at line {line}')

    def getitem_hook(self, eng, base, key, line):
        return NotImplemented

    def slice_hook(self, eng, base, lo, hi, line):
        return NotImplemented

    def contains_hook(self, eng, coll, v, line):
        if isinstance(coll, SV) and coll.ty == STR or isinstance(coll, str):
            f = z3.Function('str_contains', Str, Str, B)
            return f(eng.lift(coll), eng.lift(v))
        return NotImplemented

    def delitem_hook(self, eng, base, key, line):
        return NotImplemented

    def construct_hook(self, eng, cname, args, kwargs, line):
        return NotImplemented

    def fstring_hook(self, eng, n, fr):
        return eng.opaque_str()

    def ghost_after(self, eng, s, fr):
        pass

    def str_method(self, eng, base, name, args, kw, line):
        ext = self.ext_contracts.get('str.' + name)
        if ext is not None:
            return eng.call_ext_contract(ext, [base] + list(args), kw, line)
        if isinstance(base, str) and all(isinstance(a, (str, int)) for a in args):
            return getattr(base, name)(*args)
        if name == 'format' and isinstance(base, str) and not kw:
            # 'literal {}'.format(scalars): a deterministic (uninterpreted) function of the arguments
            r = eng.template_str('fmt:' + base, list(args))
            if r is not None:
                return r
        self._unsup(f'str method {name}', line)

    def call_external(self, eng, name, args, kwargs, line):
        ext = self.ext_contracts.get(name)
        if ext is None:
            raise Unsupported(f'call of external {name} without assumed contract (contracts/externals.py), line {line}')
        return eng.call_ext_contract(ext, args, kwargs, line)

    def symbolic_range(self, eng, args, line):
        self._unsup('range() with symbolic bounds', line)

    def symbolic_zip(self, eng, args, line):
        if args and all(isinstance(a, ListV) for a in args):
            return ZipV(args)
        self._unsup('zip() of symbolic collections other than lists', line)

    def dict_of(self, eng, v, kw, line):
        self._unsup('dict() of symbolic collection', line)

    def dict_update(self, eng, d, args, kw, line):
        # d.update(other) with a heap dict of the same typing: keys of both, the other's value where it has the key;
        # the insertion order of the result is left unspecified (havoc of the order ghost)
        from .core import DictV, sort_of
        import z3
        if (len(args) == 1 and not kw and isinstance(args[0], DictV) and sort_of(args[0].kty) == sort_of(d.kty)
                and sort_of(args[0].vty) == sort_of(d.vty)):
            o = args[0]
            hn, ha = eng.dict_has(d)
            vn, va = eng.dict_val(d)
            oh, ov = eng.dict_has(o)[1][o.ref], eng.dict_val(o)[1][o.ref]
            k = z3.Const('k!upd', sort_of(d.kty))
            new_has = eng.def_array([k], z3.Or(ha[d.ref][k], oh[k]))
            new_val = eng.def_array([k], z3.If(oh[k], ov[k], va[d.ref][k]))
            eng.heap.set(hn, z3.Store(ha, d.ref, new_has))
            eng.heap.set(vn, z3.Store(va, d.ref, new_val))
            eng._dict_order_havoc(d)
            return None
        self._unsup('dict.update', line)

    def dictcomp(self, eng, n, fr, q):
        """{key: value for x in coll if ...}: a fresh dict with
        (1) has[k] for every selected element's key k,
        (2) every key comes from a selected element whose value it holds; for a list source that element is the LAST
            selected one with this key (later occurrences overwrite), which exists because lists are finite,
        (3) list source: insertion order = order of first occurrence (order ghost, see Interp.dict_order)."""
        _, vars_, guard, elt, coll = q
        k, v = elt
        kty, vty = eng.value_type(k), eng.value_type(v)
        if isinstance(kty, TOpt) or kty in (NONE, ANY) or vty in (NONE, ANY):
            raise Unsupported('dict comprehension with None / untyped keys or values')
        d = eng.new_dict(kty, vty)
        kt = eng.coerce_term(k, kty)
        vt = eng.coerce_term(eng.materialize(v, vty), vty)
        if len(vars_) == 1 and z3.eq(kt, vars_[0]) and not isinstance(coll, ListV):
            # exact summary when the key of the new dict is the iteration variable of a dict / set (pairwise distinct
            # keys): present exactly where the guard holds, with the value expression of that key
            hn, ha = eng.dict_has(d)
            eng.heap.set(hn, z3.Store(ha, d.ref, eng.def_array(vars_, guard)))
            vn, va = eng.dict_val(d)
            eng.heap.set(vn, z3.Store(va, d.ref, eng.def_array(vars_, vt)))
            eng._dict_order_havoc(d)
            return d
        hn, ha = eng.dict_has(d)
        has = eng.run.fresh('dc_has', ha[d.ref].sort())
        eng.heap.set(hn, z3.Store(ha, d.ref, has))
        vn, va = eng.dict_val(d)
        val = eng.run.fresh('dc_val', va[d.ref].sort())
        eng.heap.set(vn, z3.Store(va, d.ref, val))
        y = z3.Const('y!dc', sort_of(kty))
        eng.run.assume(z3.ForAll(vars_, z3.Implies(guard, has[kt])), silent=True)
        is_list = isinstance(coll, ListV) and len(vars_) == 1
        if is_list:
            i = vars_[0]
            i2 = z3.Const('i2!dc', I)
            later = z3.ForAll([i2], z3.Implies(z3.And(i2 > i, z3.substitute(guard, (i, i2))), z3.substitute(kt, (i, i2)) != y))
            eng.run.assume(z3.ForAll([y], z3.Implies(has[y], z3.Exists([i], z3.And(guard, kt == y, val[y] == vt, later)))), silent=True)
            # order of first occurrence: pos maps a selected source index to the position of its key; positions follow the
            # first occurrences monotonically
            row = eng.run.fresh('dc_ord', arr(I, sort_of(kty)))
            length = eng.run.fresh('dc_olen', I)
            eng.dict_order_set(d, row, length)
            first = eng.run.fresh('dc_first', arr(I, I))    # position -> source index of the first occurrence of that key
            j, j2 = z3.Const('j!dc', I), z3.Const('j2!dc', I)
            gf = z3.substitute(guard, (i, first[j]))
            kf = z3.substitute(kt, (i, first[j]))
            eng.run.assume(length >= 0, silent=True)
            eng.run.assume(z3.ForAll([j], z3.Implies(z3.And(0 <= j, j < length), z3.And(
                gf, kf == row[j],
                z3.ForAll([i2], z3.Implies(z3.And(i2 < first[j], z3.substitute(guard, (i, i2))), z3.substitute(kt, (i, i2)) != row[j]))))),
                silent=True)
            eng.run.assume(z3.ForAll([j, j2], z3.Implies(z3.And(0 <= j, j < j2, j2 < length), first[j] < first[j2])), silent=True)
            eng.run.assume(z3.ForAll([i], z3.Implies(guard, z3.Exists([j], z3.And(0 <= j, j < length, row[j] == kt)))), silent=True)
        else:
            eng.run.assume(z3.ForAll([y], z3.Implies(has[y], z3.Exists(vars_, z3.And(guard, kt == y, val[y] == vt)))), silent=True)
            eng._dict_order_havoc(d)
        return d

    def set_pop(self, eng, s, line):
        eng.partial(eng.nonempty(s), 'KeyError', line)
        x = eng.run.fresh('pop', sort_of(s.ety))
        eng.run.assume(eng.set_chi(s)[x])
        v = eng.wrap(x, s.ety)
        eng.set_update(s, v, False)
        return v

    def sum_symbolic(self, eng, v, start, line):
        if isinstance(start, ConstSeq) and not start.items and isinstance(v, ValuesView) and v.what == 'values' \
                and isinstance(v.d.vty, TList):
            from . import seqs
            return seqs.flatten_values(eng, v.d, line)
        if isinstance(v, GenV) and not isinstance(start, (ConstSeq, ListV, str)):
            from . import seqs
            return seqs.sum_gen(eng, v, start, line)
        if isinstance(v, ListV) and not isinstance(start, (ConstSeq, ListV, str)):
            from . import seqs
            return seqs.sum_list(eng, v, start, line)
        self._unsup('sum() over symbolic collection (give the enclosing function a contract)', line)

    def sorted_symbolic(self, eng, args, kw, line):
        from . import seqs
        return seqs.sorted_symbolic(eng, args, kw, line)

    def filter_symbolic(self, eng, args, kw, line):
        # filter(None, xs) == [x for x in xs if x] (consumed once by the code under proof: a list is an exact model)
        if len(args) == 2 and args[0] is None:
            x, src = ast.Name(id='x!flt', ctx=ast.Load()), ast.Name(id='src!flt', ctx=ast.Load())
            comp = ast.ListComp(elt=x, generators=[ast.comprehension(target=ast.Name(id='x!flt', ctx=ast.Store()), iter=src,
                                                                     ifs=[x], is_async=0)])
            ast.fix_missing_locations(comp)
            return self.listcomp(eng, comp, Frame(None, 'ttypes', {'src!flt': args[1]}, None, None))
        self._unsup('filter() with a function', line)

    def list_method(self, eng, l, name, args, kw, line):
        from . import seqs
        return seqs.list_method(eng, l, name, args, kw, line)

    def list_of(self, eng, v, line):
        from . import seqs
        return seqs.list_of(eng, v, line)

    def listcomp(self, eng, n, fr):
        from . import seqs
        return seqs.listcomp(eng, n, fr)

    def minmax_symbolic(self, eng, src, key, default, is_min, line):
        from . import seqs
        return seqs.minmax_symbolic(eng, src, key, default, is_min, line)

    def next_symbolic(self, eng, q, has_default, default, line):
        from . import seqs
        return seqs.next_symbolic(eng, q, has_default, default, line)

    def symbolic_for(self, eng, s, fr, it):
        from . import loops
        return loops.symbolic_for(eng, s, fr, it)

    def symbolic_while(self, eng, s, fr):
        from . import loops
        return loops.symbolic_while(eng, s, fr)
