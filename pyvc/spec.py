"""Vocabulary of the sidecar contract files, in its *concrete* reading (replay harness / run-time monitoring).
The symbolic reading of the same names is implemented by pyvc.builtins (bi_forall, bi_implies, ...)."""


def contract(target, props=()):
    def deco(cls):
        cls.__contract_target__ = target
        cls.__contract_props__ = list(props)
        return cls
    return deco


def external(target, props=()):
    return contract(target, props)


def invariant(cls_name):
    def deco(fn):
        fn.__invariant_of__ = cls_name
        return fn
    return deco


def lemma(**kw):
    def deco(fn):
        fn.__lemma__ = kw
        return fn
    return deco


def implies(a, b):
    return (not a) or bool(b)


def iff(a, b):
    return bool(a) == bool(b)


def ite(c, a, b):
    return a if c else b


def narrow(obj, cls):
    return obj


GHOST_IMPL = {}     # name -> python function: concrete reading of ghost_bool / ghost_int (replay, run-time monitoring)


def ghost_bool(name, *args):
    return bool(GHOST_IMPL[name](*args))


def ghost_int(name, *args):
    return int(GHOST_IMPL[name](*args))
