"""Vocabulary of the sidecar contract files, in its *concrete* reading (replay harness / run-time monitoring).
The symbolic reading of the same names is implemented by pyvc.builtins (bi_forall, bi_implies, ...)."""


def contract(target, props=()):
    def deco(cls):
        cls.__contract_target__ = target
        cls.__contract_props__ = list(props)
        return cls
    return deco


def external(target, props=()):
    return contract(target, props)


def invariant(cls_name):
    def deco(fn):
        fn.__invariant_of__ = cls_name
        return fn
    return deco


def lemma(**kw):
    def deco(fn):
        fn.__lemma__ = kw
        return fn
    return deco


def implies(a, b):
    return (not a) or bool(b)


def iff(a, b):
    return bool(a) == bool(b)


def ite(c, a, b):
    return a if c else b


def narrow(obj, cls):
    return obj


GHOST_IMPL = {}     # name -> python function: concrete reading of ghost_bool / ghost_int (replay, run-time monitoring)


def ghost_bool(name, *args):
    return bool(GHOST_IMPL[name](*args))


def ghost_int(name, *args):
    return int(GHOST_IMPL[name](*args))
UF_IMPL = {}


def uf_impl(name):
    """register the concrete reading of an uninterpreted function symbol used through uf(name, type, *args)"""
    def deco(fn):
        UF_IMPL[name] = fn
        return fn
    return deco


def uf(name, ty, *args):
    return UF_IMPL[name](*args)


def same(a, b):
    import math
    if isinstance(a, float) and isinstance(b, float) and math.isnan(a) and math.isnan(b):
        return True
    if isinstance(a, (list, dict, set)) or hasattr(a, '__dict__'):
        return a is b
    return a == b


def setsum(s, weight):
    """sum of weight(x) over the members of the set-like s (a dict = its keys)"""
    return sum(weight(x) for x in s)
def duplicate_free(l):
    """concrete reading of the spec predicate duplicate_free (identity for objects, equality for scalars)"""
    keys = [id(x) if hasattr(x, '__dict__') else x for x in l]
    return len(set(keys)) == len(keys)


def now(v):
    """concrete reading of now(v): objects have one (current) state"""
    return v
