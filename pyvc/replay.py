"""Counterexample files and their replay against the real classes."""
import json
import os
import re
import sys

VERIF = os.path.dirname(os.path.dirname(os.path.abspath(__file__)))


def _slug(s):
    return re.sub(r'[^A-Za-z0-9_.-]+', '_', s)[:150]


def write_replay(prop, function, variant, name, obls, world):
    """writes replays/<prop>/<obligation>.json ; returns (path, reproduced_on_real_code)"""
    d = os.path.join(VERIF, 'replays', prop)
    os.makedirs(d, exist_ok=True)
    path = os.path.join(d, _slug(f'{function}.{variant or ""}.{name}') + '.json')
    doc = {'property': prop, 'function': function, 'variant': variant, 'obligation': name,
           'verdict': 'refuted', 'instances': [{'path_decisions': o.get('path'), 'model': o.get('model'),
                                                 'detail': o.get('detail'), 'backend': o.get('backend')} for o in obls],
           'verifier_output': 'z3: sat for (path condition ∧ ¬obligation); SMT-LIB text of the first instance follows',
           'smt2': obls[0].get('smt2')}
    reproduced = False
    try:
        from . import concrete
        rep = concrete.try_replay(prop, function, variant, name, obls, world)
        if rep is not None:
            doc['replay'] = rep
            reproduced = bool(rep.get('reproduced'))
    except Exception as e:   # replay machinery must never turn a refutation into a crash
        doc['replay_error'] = f'{type(e).__name__}: {e}'
    with open(path, 'w') as f:
        json.dump(doc, f, indent=1, default=str)
    return os.path.relpath(path, VERIF), reproduced


def main(prop, path):
    doc = json.load(open(path if os.path.isabs(path) else os.path.join(VERIF, path)))
    print(f"replay of {doc['obligation']} ({doc['function']}) for property {prop}")
    from . import concrete
    rep = concrete.replay_doc(doc)
    print(json.dumps(rep, indent=1, default=str))
    if rep and rep.get('reproduced'):
        print(f'VIOLATION property={prop} replay={path}')
        return 1
    return 0
