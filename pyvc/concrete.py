"""Concrete side: rebuilds real objects from a counter-model and runs the REAL function (filled in incrementally)."""


def try_replay(prop, function, variant, name, obls, world):
    return None


def replay_doc(doc):
    return doc.get('replay') or {'reproduced': False, 'note': 'no concrete replay recorded for this obligation'}
