"""Concrete side of a refutation.

1. `extract_scenario` (runs in the verifying process, where the z3 model lives): walks the PRE-state heap from the
   parameters of the function under proof and writes the object graph of the counter-model as JSON.
2. `replay_scenario` (runs in a fresh interpreter: `python -m pyvc.concrete <replay.json>`): rebuilds REAL objects
   (real classes of /repo, `object.__new__` + attribute assignment, Mock for what the model does not constrain), calls
   the REAL function and evaluates the refuted contract clause natively on the result (the same contract text, read
   with the concrete vocabulary below).  `reproduced: true` means the real code violates the clause on that input.
"""
import copy
import fractions
import importlib
import itertools
import json
import os
import subprocess
import sys

VERIF = os.path.dirname(os.path.dirname(os.path.abspath(__file__)))
MAX_ITEMS = 10


# =====================================================================================================================
# 1. extraction (needs z3 + the engine)
# =====================================================================================================================
class Extractor:
    def __init__(self, eng, model):
        import z3
        from . import core
        self.z3, self.core, self.eng, self.m = z3, core, eng, model
        self.heap = eng.old_heap if eng.old_heap is not None else eng.heap
        self.objects = {}
        self.strs = {}
        self._str_universe()

    def ev(self, t):
        return self.m.eval(t, model_completion=True)

    def _str_universe(self):
        core = self.core
        try:
            uni = list(self.m.get_universe(core.Str) or [])
        except Exception:
            uni = []
        names = {}
        names[str(self.ev(core.STR_EMPTY))] = ''
        for lit, c in self.eng.str_lits.items():
            names.setdefault(str(self.ev(c)), lit)
        self.none_str = str(self.ev(core.STR_NONE))
        # remaining elements: names consistent with the rank order used for string comparison
        rest = [u for u in uni if str(u) not in names and str(u) != self.none_str]
        try:
            rest.sort(key=lambda u: self.ev(core.str_rank(u)).as_long())
        except Exception:
            pass
        for i, u in enumerate(rest):
            names[str(u)] = f'id{i:02d}'
        self.str_names = names
        self.universe = uni

    def string(self, term):
        v = str(self.ev(term))
        if v == self.none_str:
            return None
        if v not in self.str_names:
            self.str_names[v] = f'idx{len(self.str_names):02d}'
        return self.str_names[v]

    def scalar(self, term, ty):
        core, z3 = self.core, self.z3
        if isinstance(ty, core.TOpt):
            s = term.sort()
            if s == core.Ref:
                return self.value(self.eng.wrap(term, ty.t)) if str(self.ev(term)) != str(self.ev(core.NULL)) else {'none': True}
            if s == core.Str:
                st = self.string(term)
                return {'none': True} if st is None else {'str': st}
            if z3.is_true(self.ev(s.recognizer(0)(term))):
                return {'none': True}
            return self.scalar(s.accessor(1, 0)(term), ty.t)
        v = self.ev(term)
        if ty == core.INT:
            return {'int': v.as_long()}
        if ty == core.BOOL:
            return {'bool': z3.is_true(v)}
        if ty == core.REAL:
            try:
                fr = v.as_fraction()
                return {'real': float(fr)}
            except Exception:
                return {'real': 0.0}
        if ty == core.STR:
            st = self.string(term)
            return {'none': True} if st is None else {'str': st}
        if isinstance(ty, core.TEnum):
            info = self.eng.ts.enum_info(ty.name)
            code = v.as_long()
            if not info['is_enum']:
                return {'int': code}
            for n, c, _ in info['members']:
                if c == code:
                    return {'enum': [ty.name, n]}
            return {'enum': [ty.name, info['members'][0][0]]}
        if isinstance(ty, core.TTuple):
            s = term.sort()
            return {'tuple': [self.typed(s.accessor(0, i)(term), t) for i, t in enumerate(ty.ts)]}
        return {'unknown': str(v)}

    def typed(self, term, ty):
        core = self.core
        if core.is_ref_type(ty) and not isinstance(ty, core.TOpt):
            return self.value(self.eng.wrap(term, ty))
        return self.scalar(term, ty)

    def value(self, v):
        core = self.core
        if isinstance(v, core.SV):
            return self.scalar(v.t, v.ty)
        if isinstance(v, core.HeapVal):
            rid = str(self.ev(v.ref))
            if rid == str(self.ev(core.NULL)):
                return {'none': True}
            if rid not in self.objects:
                self.objects[rid] = {'kind': 'pending'}
                self.objects[rid] = self.obj(v)
            return {'ref': rid}
        if isinstance(v, tuple):
            return {'tuple': [self.value(x) for x in v]}
        if isinstance(v, core.EnumMember):
            return {'enum': [v.cls, v.name]}
        if v is None:
            return {'none': True}
        if isinstance(v, bool):
            return {'bool': v}
        if isinstance(v, int):
            return {'int': v}
        if isinstance(v, float):
            return {'real': v}
        if isinstance(v, str):
            return {'str': v}
        return {'unknown': repr(v)[:60]}

    def keys_of(self, has_row, ksort, kty):
        """members of a set / keys of a dict given the characteristic array row"""
        core, z3 = self.core, self.z3
        out = []
        if ksort == core.Str:
            # strings that are values of scalar parameters first (they are the interesting keys)
            first = []
            for v in self.eng.entry_vars.values():
                if isinstance(v, core.SV) and v.ty == core.STR:
                    first.append(self.ev(v.t))
            cands = first + [u for u in self.universe if all(str(u) != str(f) for f in first)]
        elif ksort == core.Ref:
            try:
                cands = list(self.m.get_universe(core.Ref) or [])
            except Exception:
                cands = []
        elif ksort == z3.IntSort():
            cands = [z3.IntVal(i) for i in range(-2, 12)]
            if isinstance(kty, core.TEnum):
                cands = [z3.IntVal(c) for _, c, _ in self.eng.ts.enum_info(kty.name)['members']]
        else:
            cands = []
        for c in cands:
            if z3.is_true(self.ev(has_row[c])):
                out.append(c)
            if len(out) >= MAX_ITEMS:
                break
        return out

    def obj(self, v):
        core, z3, eng = self.core, self.z3, self.eng
        H = self.heap
        pinned = eng.pin(v, H)
        if isinstance(v, core.ObjV):
            fields = {}
            cls = v.cls
            names = set(H.arr) | set(eng.heap.arr)
            for nme in sorted(names):
                if not nme.startswith('F:'):
                    continue
                _, fname, sortname = nme.split(':', 2)
                ty = eng.ts.field_type(cls, fname)
                if ty is None or ty == 'logger' or ty == core.ANY:
                    continue
                if cls in eng.ct.classes and not (eng.ct.is_field(cls, fname) or (cls, fname) in eng.ts.shapes.FIELD_TYPES
                                                  or ('*', fname) in eng.ts.shapes.FIELD_TYPES):
                    continue
                try:
                    if str(core.sort_of(ty)) != sortname:
                        continue
                    a = H.get(nme)
                    fields[fname] = self.typed(a[v.ref], ty)
                except Exception:
                    continue
            ci = eng.ct.classes.get(cls)
            return {'kind': 'obj', 'cls': cls, 'module': ci.module if ci else None, 'fields': fields}
        if isinstance(v, core.ListV):
            n = self.ev(eng.list_len(pinned)).as_long()
            n = max(0, min(n, MAX_ITEMS))
            _, da = eng.list_data(pinned)
            return {'kind': 'list', 'items': [self.typed(da[v.ref][i], v.ety) for i in range(n)]}
        if isinstance(v, core.SetV):
            if v.ety == core.ANY:
                return {'kind': 'set', 'items': []}
            row = eng.set_arr(pinned)[1][v.ref]
            ks = self.keys_of(row, core.sort_of(v.ety), v.ety)
            return {'kind': 'set', 'items': [self.typed(k, v.ety) for k in ks]}
        if isinstance(v, core.DictV):
            row = eng.dict_has(pinned)[1][v.ref]
            ks = self.keys_of(row, core.sort_of(v.kty), v.kty)
            val = eng.dict_val(pinned)[1][v.ref]
            return {'kind': 'dict', 'items': [[self.typed(k, v.kty), self.typed(val[k], v.vty)] for k in ks]}
        if isinstance(v, core.RecV):
            items = {}
            for key, ty in eng.ts.shapes.REC_KEYS.items():
                hn = f'R.has.{key}'
                if hn not in H.arr and hn not in eng.heap.arr:
                    continue
                if z3.is_true(self.ev(H.get(hn, z3.ArraySort(core.Ref, z3.BoolSort()))[v.ref])):
                    a, _, _ = eng.rec_field(key, H)
                    items[key] = self.typed(a[v.ref], ty)
            return {'kind': 'rec', 'items': items}
        return {'kind': 'unknown'}


def extract_scenario(eng, model, vars_):
    ex = Extractor(eng, model)
    params = {k: ex.value(v) for k, v in vars_.items()}
    externals = []
    for name, term in getattr(eng, 'external_results', []):
        try:
            externals.append([name, ex.scalar(term.t, term.ty) if hasattr(term, 't') else ex.value(term)])
        except Exception:
            externals.append([name, {'unknown': True}])
    return {'params': params, 'objects': ex.objects, 'externals': externals,
            'strings': sorted(set(ex.str_names.values()) | {''})}


# =====================================================================================================================
# 2. replay on the real classes (no z3 needed)
# =====================================================================================================================
class Universe:
    mocks = 0          # objects the model did not describe (rebuilt as mocks) / attributes the run touched without model
    strings = []
    ints = list(range(-2, 8))
    objects = []
    fresh_ids = set()
    clock = 0.0
    effects = []


U = Universe()


def _domain(d):
    if d is str:
        return list(U.strings) + ['~other~']
    if d is int:
        return list(U.ints)
    if d is bool:
        return [False, True]
    if d is float:
        return [float(i) for i in U.ints]
    if isinstance(d, type):
        import enum
        if issubclass(d, enum.Enum):
            return list(d)
        return [o for o in U.objects if isinstance(o, d)]
    if isinstance(d, dict):
        return list(d.keys())
    return list(d)


_PARTIAL = (KeyError, TypeError, AttributeError, IndexError, ValueError)


def _total(lam, xs, unspecified):
    """specifications are total (a partial operation yields an unspecified value): an instance whose evaluation hits
    one counts as satisfied under forall and as not satisfied under exists, so only definite violations are reported"""
    try:
        return bool(lam(*xs))
    except _PARTIAL:
        return unspecified


def forall(*args):
    *doms, lam = args
    n = lam.__code__.co_argcount
    if len(doms) == 1 and n > 1:
        doms = doms * n
    return all(_total(lam, xs, True) for xs in itertools.product(*[_domain(d) for d in doms]))


def exists(*args):
    *doms, lam = args
    n = lam.__code__.co_argcount
    if len(doms) == 1 and n > 1:
        doms = doms * n
    return any(_total(lam, xs, False) for xs in itertools.product(*[_domain(d) for d in doms]))


def implies(a, b):
    return (not a) or bool(b)


def iff(a, b):
    return bool(a) == bool(b)


def ite(c, a, b):
    return a if c else b


def card(s):
    return len(s)


def rank(s):
    return s


def keys(d):
    return list(d.keys())


def clock():
    return U.clock


def was_fresh(o):
    return id(o) in U.fresh_ids or id(o) not in U.pre_ids


def is_alloc(o):
    return True


def no_effect(*names):
    if not names:
        return not U.effects
    return not any(e[0] in names for e in U.effects)


def count_effects(*names):
    return sum(1 for e in U.effects if e[0] in names)


def effect_at(name, k=0):
    sel = [e[1] for e in U.effects if e[0] == name]
    return tuple(sel[k]) if k < len(sel) else None


def contract(*a, **k):
    return lambda cls: cls


external = contract


def invariant(cls_name):
    def deco(fn):
        INVARIANTS.setdefault(cls_name, []).append(fn)
        return fn
    return deco


def lemma(**kw):
    return lambda fn: fn


INVARIANTS = {}


def inv(obj):
    return all(fn(obj) for c in type(obj).__mro__ for fn in INVARIANTS.get(c.__name__, []))


class _Names(dict):
    """globals of a contract module read natively: repo enums / constants resolve without import"""
    MODULES = ['supvisors.ttypes', 'supervisor.states', 'supvisors.utils', 'supervisor.xmlrpc', 'supvisors.process',
               'supvisors.application', 'supvisors.instancestatus', 'supvisors.commander', 'supvisors.strategy',
               'supvisors.statemodes', 'supvisors.statemachine', 'supvisors.context', 'supvisors.options',
               'supvisors.statscompiler', 'supvisors.sparser', 'supvisors.rpcinterface', 'supvisors.listener',
               'supvisors.internal_com.mapper', 'supvisors.internal_com.supervisorproxy']

    def __missing__(self, k):
        for m in self.MODULES:
            try:
                mod = importlib.import_module(m)
            except Exception:
                continue
            if hasattr(mod, k):
                return getattr(mod, k)
        import builtins
        if hasattr(builtins, k):
            return getattr(builtins, k)
        raise NameError(k)


def load_contract_namespace(path):
    ns = _Names()
    for k in ('forall', 'exists', 'implies', 'iff', 'ite', 'card', 'rank', 'keys', 'clock', 'was_fresh', 'is_alloc',
              'no_effect', 'count_effects', 'effect_at', 'contract', 'external', 'invariant', 'lemma', 'inv'):
        ns[k] = globals()[k]
    ns['field'] = ns['contents'] = ns['whole'] = lambda *a: None
    ns['everything'] = lambda: None
    import ast
    src = open(path).read().replace('from pyvc.spec import *', '')
    tree = ast.parse(src, filename=path)

    class Lazy(ast.NodeTransformer):
        """implies / ite are lazy in the concrete reading (python would evaluate both arguments eagerly)"""

        def visit_Call(self, n):
            self.generic_visit(n)
            if isinstance(n.func, ast.Name) and n.func.id == 'implies' and len(n.args) == 2:
                return ast.BoolOp(op=ast.Or(), values=[ast.UnaryOp(op=ast.Not(), operand=n.args[0]), n.args[1]])
            if isinstance(n.func, ast.Name) and n.func.id == 'ite' and len(n.args) == 3:
                return ast.IfExp(test=n.args[0], body=n.args[1], orelse=n.args[2])
            return n
    tree = ast.fix_missing_locations(Lazy().visit(tree))
    exec(compile(tree, path, 'exec'), ns)
    return ns


class Builder:
    def __init__(self, scn):
        self.scn = scn
        self.objs = {}

    def value(self, j):
        if 'none' in j:
            return None
        if 'int' in j:
            return j['int']
        if 'bool' in j:
            return j['bool']
        if 'real' in j:
            return j['real']
        if 'str' in j:
            return j['str']
        if 'enum' in j:
            cls, name = j['enum']
            return getattr(_Names()[cls], name)
        if 'tuple' in j:
            return tuple(self.value(x) for x in j['tuple'])
        if 'ref' in j:
            return self.ref(j['ref'])
        from unittest.mock import Mock
        return Mock()

    def ref(self, rid):
        if rid in self.objs:
            return self.objs[rid]
        from unittest.mock import Mock, MagicMock
        o = self.scn['objects'].get(rid, {'kind': 'unknown'})
        k = o['kind']
        if k == 'obj':
            cls = None
            if o.get('module') and not o['module'].startswith('supervisor.'):
                try:
                    cls = getattr(importlib.import_module('supvisors.' + o['module']), o['cls'])
                except Exception:
                    cls = None
            if cls is None or not o['fields']:
                U.mocks += 1
                inst = MagicMock(name=o['cls'])
                self.objs[rid] = inst
                for f, v in o['fields'].items():
                    setattr(inst, f, self.value(v))
                return inst
            inst = object.__new__(cls)
            self.objs[rid] = inst
            for f, v in o['fields'].items():
                try:
                    object.__setattr__(inst, f, self.value(v))
                except Exception:
                    pass
            if o['cls'] == 'Supvisors' or 'logger' not in o['fields']:
                try:
                    if not hasattr(inst, 'logger'):
                        object.__setattr__(inst, 'logger', Mock(level=0))
                except Exception:
                    pass
            # anything the model does not constrain is a Mock (assumed callees, transport, Supervisor internals)
            return _Lenient.wrap(inst)
        if k == 'list':
            out = []
            self.objs[rid] = out
            out.extend(self.value(x) for x in o['items'])
            return out
        if k == 'set':
            out = set()
            self.objs[rid] = out
            out.update(self.value(x) for x in o['items'])
            return out
        if k == 'dict':
            out = {}
            self.objs[rid] = out
            for kk, vv in o['items']:
                out[self.value(kk)] = self.value(vv)
            return out
        if k == 'rec':
            out = {}
            self.objs[rid] = out
            for kk, vv in o['items'].items():
                out[kk] = self.value(vv)
            return out
        U.mocks += 1
        m = MagicMock()
        self.objs[rid] = m
        return m


class _Lenient:
    """missing attributes of a rebuilt real object (fields the symbolic run never touched) read as Mocks"""

    @staticmethod
    def wrap(inst):
        cls = type(inst)
        if getattr(cls, '_pyvc_lenient', False):
            return inst
        from unittest.mock import MagicMock

        def __getattr__(self, name):
            if name.startswith('__'):
                raise AttributeError(name)
            m = MagicMock(name=f'{type(self).__name__}.{name}')
            if name == 'logger':
                m.level = 0
            else:
                U.mocks += 1
            object.__setattr__(self, name, m)
            return m
        try:
            sub = type(cls.__name__, (cls,), {'__getattr__': __getattr__, '_pyvc_lenient': True})
            inst.__class__ = sub
        except TypeError:
            pass
        return inst


def replay_scenario(doc):
    """-> dict(reproduced=bool|None, outcome=..., detail=...)"""
    import warnings
    warnings.filterwarnings('ignore')
    from unittest.mock import patch
    scn = doc.get('scenario')
    if not scn:
        return {'reproduced': None, 'detail': 'no scenario (model) attached to this refutation'}
    target, name = doc['function'], doc['obligation']
    if name.startswith('bounded:'):
        name = name[len('bounded:'):]
    modname, rest = target.split(':')
    kind = 'plain'
    if rest.endswith(']'):
        rest, kind = rest[:-1].split('[')
    mod = importlib.import_module('supvisors.' + modname)
    U.mocks = 0
    b = Builder(scn)
    params = {k: b.value(v) for k, v in scn['params'].items()}
    U.strings = list(scn.get('strings', []))
    U.objects = [o for o in b.objs.values()]
    U.pre_ids = {id(o) for o in b.objs.values()}
    U.fresh_ids = set()
    U.effects = []
    ext = [e for e in scn.get('externals', [])]
    mono = [e[1].get('real', 0.0) for e in ext if e[0] == 'time.monotonic']
    walls = [e[1].get('real', 0.0) for e in ext if e[0] == 'time.time']
    U.clock = min(mono) if mono else 0.0

    def seq(vals, default):
        it = iter(vals)
        last = [default]

        def f():
            try:
                last[0] = next(it)
            except StopIteration:
                pass
            return last[0]
        return f
    if '.' in rest:
        cname, fname = rest.split('.')
        cls = getattr(mod, cname)
        attr = cls.__dict__.get(fname)
        if kind == 'getter':
            fn = attr.fget
        elif kind == 'setter':
            fn = attr.fset
        elif isinstance(attr, staticmethod):
            fn = attr.__func__
        else:
            fn = attr
    else:
        fn = getattr(mod, rest)
    cpath = doc.get('contract_file')
    ns = load_contract_namespace(os.path.join(VERIF, cpath)) if cpath else None
    old_copy = copy.deepcopy(params)

    class Old:
        pass
    old = Old()
    for k, v in old_copy.items():
        setattr(old, k, v)
    # the rebuilt pre-state must satisfy the contract's preconditions natively, else the replay proves nothing
    pre_failed = None
    if ns is not None and doc.get('contract_class') and ns.get(doc['contract_class']) is not None:
        import inspect
        con_cls = ns.get(doc['contract_class'])
        for cname_ in [n for n in vars(con_cls) if n.startswith('pre')]:
            cfn = getattr(con_cls, cname_)
            try:
                args = {p_: params[p_] for p_ in inspect.signature(cfn).parameters}
                if not cfn(**args):
                    pre_failed = cname_
                    break
            except Exception as e:
                pre_failed = f'{cname_} ({type(e).__name__}: {e})'
                break
    outcome, result, exc = 'normal', None, None
    with patch('time.monotonic', side_effect=seq(mono, U.clock)), patch('time.time', side_effect=seq(walls, 0.0)):
        try:
            result = fn(**params)
        except Exception as e:   # the real code raised
            outcome, exc = 'raised', e
    rep = {'outcome': outcome, 'exception': f'{type(exc).__name__}: {exc}' if exc else None,
           'result': repr(result)[:200], 'mocked_objects_involved': U.mocks}
    if pre_failed:
        rep['reproduced'] = None
        rep['detail'] = f'the object graph rebuilt from the model does not satisfy precondition {pre_failed} natively ' \
                        f'(model truncated or abstraction not representable): replay inconclusive'
        return rep
    if name == 'all:':
        # bounded stand-in: every postcondition evaluated natively, undeclared exceptions reported
        import inspect
        failed = []
        if exc is not None:
            mro = [c.__name__ for c in type(exc).__mro__]
            if not any(r in mro for r in doc.get('raises', [])):
                failed.append(f'safe:{type(exc).__name__}')
        elif ns is not None and ns.get(doc.get('contract_class')) is not None:
            con_cls = ns.get(doc['contract_class'])
            bind = dict(params)
            bind.update({'result': result, 'old': old, 'exc': exc})
            for cname_ in [n for n in vars(con_cls) if n.startswith('post')]:
                cfn = getattr(con_cls, cname_)
                try:
                    args = {p_: bind[p_] for p_ in inspect.signature(cfn).parameters}
                    if not cfn(**args):
                        failed.append('post:' + cname_)
                except Exception:
                    pass
        if U.mocks:
            # the run went through objects the model does not describe (externals, unmodelled attributes rebuilt as
            # mocks): the native run is not a faithful execution, nothing is concluded from it
            rep['failed'] = []
            rep['reproduced'] = None
            rep['detail'] = f'not faithful: {U.mocks} mocked object(s)/attribute(s) involved'
            return rep
        rep['failed'] = failed
        rep['reproduced'] = bool(failed)
        rep['detail'] = f'native run of the real function on a pre-state generated from the precondition: failing {failed}'
        return rep
    if name.startswith('safe:'):
        want = name[5:].split('@')[0].split('/')[0].replace('(raised)', '')
        got = type(exc).__name__ if exc else None
        rep['reproduced'] = bool(exc is not None and (got == want or want in [c.__name__ for c in type(exc).__mro__])
                                 and want not in doc.get('raises', []))
        rep['detail'] = f'expected {want} to escape the real function; got {got}'
        return rep
    if (name.startswith('post:') or name.startswith('exc:')) and ns is not None:
        clause = name.split(':', 1)[1].split('/')[0]
        con_cls = ns.get(doc.get('contract_class'))
        cfn = getattr(con_cls, clause, None) if con_cls else None
        if cfn is None:
            rep['reproduced'] = None
            rep['detail'] = f'clause {clause} not found'
            return rep
        if name.startswith('post:') and outcome != 'normal':
            rep['reproduced'] = None
            rep['detail'] = 'the real function raised on this input'
            return rep
        import inspect
        bind = dict(params)
        bind.update({'result': result, 'old': old, 'exc': exc})
        U.objects = U.objects + [result] if result is not None else U.objects
        args = {p: bind[p] for p in inspect.signature(cfn).parameters}
        try:
            holds = bool(cfn(**args))
            rep['reproduced'] = not holds
            rep['detail'] = f'clause {clause} evaluated natively on the real post-state: {holds}'
        except Exception as e:
            rep['reproduced'] = None
            rep['detail'] = f'native evaluation of {clause} failed: {type(e).__name__}: {e}'
        return rep
    rep['reproduced'] = None
    rep['detail'] = 'obligation kind has no concrete reading (invariant / frame / call-site precondition)'
    return rep


def try_replay(prop, function, variant, name, obls, world):
    """called by the driver for a refuted obligation: replay every instance that carries a scenario"""
    con = world.reg.contracts.get(function)
    for o in obls:
        scn = o.get('model')
        if not isinstance(scn, dict) or 'params' not in scn:
            continue
        doc = {'function': function, 'variant': variant, 'obligation': name, 'scenario': scn,
               'contract_file': os.path.relpath(world.ct.modules[con.module].path, VERIF) if con else None,
               'contract_class': con.name if con else None, 'raises': list(con.raises) if con else []}
        rep = run_subprocess(doc)
        rep['scenario'] = scn
        rep['doc'] = {k: doc[k] for k in ('contract_file', 'contract_class', 'raises')}
        if rep.get('reproduced'):
            return rep
        last = rep
    return locals().get('last')


def run_subprocess(doc, repo=None):
    """repo: run against the package found under this directory instead of the tree under test"""
    import tempfile
    with tempfile.NamedTemporaryFile('w', suffix='.json', delete=False) as f:
        json.dump(doc, f, default=str)
        path = f.name
    try:
        env = dict(os.environ)
        if repo or os.environ.get('VERIF_REPO'):    # scratch copy of the repository under test (mutation self-test)
            env['PYTHONPATH'] = (repo or os.environ['VERIF_REPO']) + os.pathsep + env.get('PYTHONPATH', '')
        p = subprocess.run([sys.executable, '-W', 'ignore', '-m', 'pyvc.concrete', path], cwd=VERIF, capture_output=True,
                           text=True, timeout=120, env=env)
        for line in reversed(p.stdout.strip().splitlines()):
            if line.startswith('{') or line.startswith('['):
                return json.loads(line)
        return {'reproduced': None, 'detail': 'replay process gave no result: ' + (p.stderr or p.stdout)[-400:]}
    except Exception as e:
        return {'reproduced': None, 'detail': f'replay process failed: {e}'}
    finally:
        os.unlink(path)


def replay_doc(doc):
    """./check <id> --replay <file>"""
    rep = doc.get('replay')
    if not rep or 'scenario' not in rep:
        return {'reproduced': False, 'note': 'no concrete scenario recorded for this obligation',
                'verifier_output': doc.get('verifier_output')}
    d = {'function': doc['function'], 'variant': doc.get('variant'), 'obligation': doc['obligation'],
         'scenario': rep['scenario']}
    d.update(rep.get('doc', {}))
    return run_subprocess(d)


if __name__ == '__main__':
    sys.path.insert(0, VERIF)
    d = json.load(open(sys.argv[1]))
    if 'scenarios' in d:     # batch mode (bounded fallback)
        outs = []
        for scn in d['scenarios']:
            one = dict(d, scenario=scn)
            try:
                outs.append(replay_scenario(one))
            except Exception as e:
                outs.append({'reproduced': None, 'detail': f'replay harness error: {type(e).__name__}: {e}'})
        print(json.dumps(outs, default=str))
        sys.exit(0)
    try:
        out = replay_scenario(d)
    except Exception as e:
        import traceback
        out = {'reproduced': None, 'detail': f'replay harness error: {type(e).__name__}: {e}', 'trace': traceback.format_exc()[-800:]}
    print(json.dumps(out, default=str))
