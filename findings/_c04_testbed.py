"""Real single-instance Supvisors for the C04 / C14 demonstrations: real Context, Starter, Stopper, mapper, strategies
(the recipe of supvisors/tests/conftest.py without pytest); only the transport (rpc_handler) is a Mock."""
import warnings
warnings.filterwarnings('ignore')
from unittest.mock import Mock, patch
from supvisors.tests.base import DummySupervisor, MockedSupvisors
from supvisors.internal_com.mapper import LocalNetwork

OPTS = {'software_name': 'x', 'event_link': 'none', 'event_port': '25200', 'synchro_timeout': '20',
        'inactivity_ticks': '2', 'core_identifiers': '', 'disabilities_file': '/tmp/strategy_demo_disabilities.json',
        'auto_fence': 'on', 'rules_files': 'my_movies.xml', 'starting_strategy': 'CONFIG',
        'conciliation_strategy': 'USER', 'stats_enabled': 'false', 'stats_periods': '5,15,60', 'stats_histo': '10',
        'stats_irix_mode': 'False', 'logfile': 'AUTO', 'logfile_maxbytes': '10000', 'logfile_backups': '12',
        'loglevel': 'blather'}


def mk(file_nodes=True):
    def gethostbyaddr(x):
        ident = x.split('.')[-1]
        return f'supv0{ident}.bzh', [f'cliche0{ident}', f'supv0{ident}'], [x]
    ioctl_map = {'lo': ('127.0.0.1', '255.0.0.0'), 'eth0': ('10.0.0.1', '255.255.255.0')}
    with patch('socket.gethostname', return_value='supv01.bzh'), patch('socket.getfqdn', return_value='supv01.bzh'), \
            patch('socket.gethostbyaddr', side_effect=gethostbyaddr), \
            patch('socket.if_nameindex', return_value=[(1, 'lo'), (2, 'eth0')]), \
            patch('uuid.getnode', return_value=1250999896491), \
            patch('supvisors.internal_com.mapper.get_interface_info', side_effect=lambda x: ioctl_map[x]):
        supv = MockedSupvisors(DummySupervisor(), dict(OPTS))
        for sup_id in supv.mapper.instances.values():
            sup_id.local_view = LocalNetwork(supv.logger)
            machine_id = '01:23:45:67:89:ab' if int(sup_id.ip_address.split('.')[-1]) % 2 else 'ab:cd:ef:01:23:45'
            sup_id.local_view.machine_id = machine_id
            if file_nodes:
                supv.mapper.nodes.setdefault(machine_id, []).append(sup_id.identifier)
    supv.parser = None
    from supvisors.commander import Starter, Stopper, StarterModel
    supv.rpc_handler = Mock()
    supv.starter = Starter(supv)
    supv.stopper = Stopper(supv)
    supv.starter_model = StarterModel(supv)
    return supv


def info(group, name, state=0, now=100.0, **kw):
    d = {'group': group, 'name': name, 'state': state, 'statename': '', 'description': '', 'pid': 0, 'expected': True,
         'spawnerr': '', 'now': now, 'now_monotonic': now, 'start': 0, 'start_monotonic': 0.0, 'stop': 0,
         'stop_monotonic': 0.0, 'startsecs': 0, 'stopwaitsecs': 0, 'extra_args': '', 'disabled': False,
         'program_name': name, 'process_index': 0, 'has_stdout': False, 'has_stderr': False}
    d.update(kw)
    return d
