"""C17 / DESIGN A15: RPCInterface.restart_application on an application that is NOT managed (not in the rules file)
does not raise SupvisorsFaults.NOT_MANAGED (statement and the method's own docstring) but is served: a stop request is
sent.  start_application and stop_application reject the same application with NOT_MANAGED.
Run: /venv/bin/python -W ignore findings/C17_restart_application_unmanaged_demo.py   (exit 1 = defect present)"""
import os
import sys
sys.path.insert(0, os.path.dirname(os.path.abspath(__file__)))
from _c17_testbed import make_supvisors, process_info
from supervisor.states import ProcessStates
from supervisor.xmlrpc import RPCError
from supvisors.rpcinterface import RPCInterface
from supvisors.ttypes import SupvisorsFaults, SupvisorsInstanceStates, SupvisorsStates

supv = make_supvisors()
ctx, local = supv.context, supv.mapper.local_identifier
ctx.instances[local]._state = SupvisorsInstanceStates.RUNNING
proc = ctx.setdefault_process(local, process_info('unmanaged_app', 'p', state=ProcessStates.RUNNING))
ctx.instances[local].add_process(proc)
app = ctx.applications['unmanaged_app']
app.update_sequences()
app.update()
assert not app.rules.managed
supv.state_modes.local_state_modes.state = SupvisorsStates.OPERATION
rpc = RPCInterface(supv)
codes = {}
for name, call in (('start_application', lambda: rpc.start_application(0, 'unmanaged_app', False)),
                   ('stop_application', lambda: rpc.stop_application('unmanaged_app', False)),
                   ('restart_application', lambda: rpc.restart_application(0, 'unmanaged_app', False))):
    try:
        codes[name] = ('served', call())
    except RPCError as e:
        codes[name] = ('RPCError', e.code)
    print(name, '->', codes[name])
print('stop requests sent:', supv.rpc_handler.send_stop_process.call_args_list)
ok = codes['restart_application'] == ('RPCError', SupvisorsFaults.NOT_MANAGED.value) \
    and not supv.rpc_handler.send_stop_process.called
sys.exit(0 if ok else 1)
