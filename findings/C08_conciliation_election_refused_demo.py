"""C08 clause 1 (A17): ConciliationState.next() decides ELECTION (the Master is lost, or a CHECKED instance is activated)
but CONCILIATION -> ELECTION is not in FiniteStateMachine._Transitions: the instance stays in CONCILIATION with no Master,
logging 'unexpected transition' on every tick.
Run: /venv/bin/python -W ignore findings/C08_conciliation_election_refused_demo.py   (exit 1 = defect present)"""
import os
import sys
sys.path.insert(0, os.path.dirname(os.path.abspath(__file__)))
from fsm_testbed import mk
from supvisors.ttypes import SupvisorsInstanceStates as S, SupvisorsStates as F
from supvisors.statemachine import ConciliationState, FiniteStateMachine

supv = mk()
ctx, sm = supv.context, supv.state_modes
ids = list(ctx.instances)
loc, mst = ids[0], ids[1]
for i in (loc, mst):
    ctx.instances[i]._state = S.RUNNING
    sm.local_state_modes.instance_states[i] = S.RUNNING
sm.local_state_modes.master_identifier = mst
sm.instance_state_modes[mst].master_identifier = mst
sm.instance_state_modes[mst].state = F.CONCILIATION
sm.local_state_modes.state = F.CONCILIATION
supv.fsm.instance = ConciliationState(supv)
ctx.on_instance_failure(ctx.instances[mst])           # the Master is lost
decisions = []
for tick in range(5):
    decisions.append(supv.fsm.instance.next())
    supv.fsm.next()
    print('tick', tick, 'decision', decisions[-1], 'fsm', supv.fsm.state.name, 'master', repr(sm.master_identifier),
          'peer', ctx.instances[mst].state.name)
print('critical logs:', [str(c)[:110] for c in supv.logger.critical.call_args_list][:2])
refused = all(d == F.ELECTION for d in decisions) and F.ELECTION not in FiniteStateMachine._Transitions[F.CONCILIATION]
parked = supv.fsm.state == F.CONCILIATION and sm.master_identifier == ''
sys.exit(1 if (refused and parked) else 0)
