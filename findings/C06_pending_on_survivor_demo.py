"""Native demonstration (property C06): a process whose start is in flight on a SURVIVING instance is not left to that job
when the instance where it was (again) running is lost.

Scenario of the docstring of Commander.on_instances_invalidation, one step later: P (running failure strategy
STOP_APPLICATION) was lost with instance N2 and is being restarted on N1: the request has been SENT (the command is in
ApplicationJobs.current_jobs, target N1, no STARTING event received yet).  N2 comes back with P RUNNING, then N2 is lost
again: Context.invalidate_failed declares P in failure.  ApplicationJobs.on_instances_invalidation only removes from
failed_processes the processes of the commands it DROPS (target lost) and of the commands still PLANNED; the command in
flight on N1 is neither, so P stays in failed_processes, the Master's RunningFailureHandler registers STOP_APPLICATION
and - once the start job has completed (P RUNNING on N1) - stops the application that the job has just started.
Statement: 'a process that already has a start or stop job planned is left to that job'; docstring of
ApplicationJobs.on_instances_invalidation: 'clear the processes from failed_processes if a corresponding request is
pending or planned'.
Run: /venv/bin/python -W ignore findings/C06_pending_on_survivor_demo.py   (exit 1 = defect present)"""
import os, sys, warnings
warnings.filterwarnings('ignore')
sys.path.insert(0, os.path.dirname(os.path.abspath(__file__)))
from fsm_testbed import mk, info
from supvisors.ttypes import SupvisorsInstanceStates, StartingStrategies, RunningFailureStrategies
from supvisors.application import ApplicationStatus, ApplicationRules
from supvisors.process import ProcessStatus, ProcessRules

supv = mk()
n1 = supv.mapper.local_identifier
n2 = [i for i in supv.context.instances if i != n1][0]
for ident, st in supv.context.instances.items():
    st._state = SupvisorsInstanceStates.RUNNING if ident in (n1, n2) else SupvisorsInstanceStates.STOPPED
rules = ApplicationRules(supv)
rules.managed, rules.start_sequence = True, 1
app = supv.context.applications['A'] = ApplicationStatus('A', rules, supv)
pr = ProcessRules(supv)
pr.start_sequence, pr.identifiers, pr.expected_load = 1, [n1], 10
pr.running_failure_strategy = RunningFailureStrategies.STOP_APPLICATION
p = ProcessStatus('A', 'p', pr, supv)
p.add_info(n1, info('A', 'p', 0))
p.add_info(n2, info('A', 'p', 0))
app.add_process(p)
app.update_sequences()
app.update()
supv.context.instances[n1].add_process(p)
supv.context.instances[n2].add_process(p)

# 1. P is requested on N1: the command is in flight (request sent, no event yet)
supv.starter.start_process(StartingStrategies.CONFIG, p)
job = supv.starter.current_jobs['A']
print('1. in flight:', [(c.process.namespec, c.identifier) for c in job.current_jobs])
# 2. N2 comes back with P RUNNING, then N2 is lost
p.update_info(n2, info('A', 'p', 20, now=110.0))
supv.context.instances[n2]._state = SupvisorsInstanceStates.FAILED
lost, failed = supv.context.invalidate_failed()
print('2. lost', lost, '- processes in failure:', [x.namespec for x in failed])
# 3. what the state machine does on the next evaluation (_common_next, then the Master's _master_next)
supv.starter.on_instances_invalidation(lost, failed)
supv.stopper.on_instances_invalidation(lost, failed)
still_in_flight = [(c.process.namespec, c.identifier) for c in supv.starter.current_jobs['A'].current_jobs]
print('3. still in flight:', still_in_flight, '- left to the running failure handler:', [x.namespec for x in failed])
for x in failed:
    supv.failure_handler.add_default_job(x)
# 4. the start job completes: P RUNNING on N1; the deferred STOP_APPLICATION is then applied to the application
p.update_info(n1, info('A', 'p', 10, now=120.0))
supv.starter.on_event(p, n1)
p.update_info(n1, info('A', 'p', 20, now=121.0))
supv.starter.on_event(p, n1)
supv.failure_handler.trigger_jobs()
stops = [c[1] for c in supv.rpc_handler.method_calls if c[0] == 'send_stop_process']
print('4. P is', p.state_string(), 'on', sorted(p.running_identifiers), '- stop requests sent:', stops)
defect = bool(still_in_flight) and p in failed
sys.exit(1 if defect else 0)
