"""C04 (Appendix A8): two applications started together, one program each with expected_loading=60, one RUNNING instance.
process_job passes the pending requests of ITS OWN application job only (self.get_load_requests()), so the second
request goes to the same instance: 120 % on a node capped at 100.
Run: /venv/bin/python -W ignore findings/C04_concurrent_applications_demo.py   (exit 1 = defect present)"""
import os
import sys
sys.path.insert(0, os.path.dirname(os.path.abspath(__file__)))
from _c04_testbed import mk, info
from supvisors.ttypes import SupvisorsInstanceStates as S

supv = mk()
ctx = supv.context
loc = supv.mapper.local_identifier
ctx.instances[loc]._state = S.RUNNING
for app in ['A', 'B']:
    p = ctx.setdefault_process(loc, info(app, 'p'))
    ctx.instances[loc].add_process(p)
    a = ctx.applications[app]
    a.rules.managed = True
    a.rules.start_sequence = 1
    p.rules.start_sequence = 1
    p.rules.expected_load = 60
    a.update_sequences()
    a.update()
supv.starter.start_applications()
calls = supv.rpc_handler.send_start_process.call_args_list
targets = [c.args[0] for c in calls]
print('start requests:', calls)
print('pending load requested on', loc, '=', 60 * targets.count(loc), '% (cap 100)')
sys.exit(1 if targets.count(loc) * 60 > 100 else 0)
