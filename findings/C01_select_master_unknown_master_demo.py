"""Native demonstration (property C01, Appendix A24): SupvisorsStateModes.select_master raises KeyError when a peer seen
RUNNING declares a Master that the local mapper does not know (discovery mode: the peer has discovered - and elected -
an instance whose discovery the local instance has not received yet).

History with the real classes: the local instance and one peer go CHECKING -> CHECKED -> RUNNING; the peer publishes its
state and modes (real StateModes.serial of the peer's own view) with master_identifier = an instance discovered by the
peer only; the publication is stored unchecked by SupvisorsStateModes.on_instance_state_event -> StateModes.update.
The local FSM then reaches ElectionState.next -> select_master: the recognised Masters are the candidates and
min(candidates, key=lambda x: self.mapper.instances[x].nick_identifier) looks the unknown identifier up in the mapper.
Run: /venv/bin/python -W ignore findings/C01_select_master_unknown_master_demo.py   (exit 1 = defect present)"""
import os
import sys
sys.path.insert(0, os.path.dirname(os.path.abspath(__file__)))
from members_testbed import make_supvisors
from supvisors.ttypes import SupvisorsInstanceStates as S

supv = make_supvisors()
ctx = supv.context
sms = supv.state_modes
local = ctx.local_status
peer = next(st for st in ctx.instances.values() if st is not local)
for st in (local, peer):
    st.state = S.CHECKING
    st.state = S.CHECKED
    st.state = S.RUNNING
UNKNOWN = 'discovered_by_the_peer_only:60000'
assert UNKNOWN not in supv.mapper.instances
# publication of the peer: its own view (same instances RUNNING, plus the one it discovered), its elected Master
event = sms.instance_state_modes[peer.identifier].serial()
event['instance_states'] = {identifier: state.name for identifier, state in sms.local_state_modes.instance_states.items()}
event['instance_states'][UNKNOWN] = 'RUNNING'
event['master_identifier'] = UNKNOWN
sms.on_instance_state_event(peer.identifier, event)
print('Masters declared by the instances seen RUNNING:', sorted(sms.get_master_identifiers()))
try:
    sms.select_master()
    print('no exception, Master selected:', repr(sms.master_identifier))
    sys.exit(0)
except KeyError as exc:
    print('KeyError escapes SupvisorsStateModes.select_master:', exc)
    sys.exit(1)
