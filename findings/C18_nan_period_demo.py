"""Native demonstration (property C18, DESIGN Appendix A6): the period converters accept 'nan'.
The range test is written as two negated comparisons (`1.0 > period or period > 3600.0`), both false for NaN, so
float('nan') is returned as a valid period instead of falling back to the default.
Run: /venv/bin/python -W ignore findings/C18_nan_period_demo.py   (exit 1 = defect present)"""
import math
import sys
from unittest.mock import Mock
from supvisors.options import SupvisorsOptions

bad = []
try:
    p = SupvisorsOptions.to_period('nan')
    print("to_period('nan') ->", p)
    bad.append(not (1.0 <= p <= 3600.0))
except ValueError as exc:
    print("to_period('nan') rejected:", exc)
try:
    ps = SupvisorsOptions.to_periods('nan, 5')
    print("to_periods('nan, 5') ->", ps)
    bad.append(any(not (1.0 <= x <= 3600.0) for x in ps))
except ValueError as exc:
    print("to_periods('nan, 5') rejected:", exc)
# end to end: the option value that reaches the statistics collector
supervisord = Mock()
supervisord.options.here = '.'
supervisord.options.environ_expansions = {}
opt = SupvisorsOptions(supervisord, Mock(), stats_collecting_period='nan', supvisors_list='h1')
print('collecting_period =', opt.collecting_period, '(default 5 expected for an out-of-range value)')
bad.append(isinstance(opt.collecting_period, float) and math.isnan(opt.collecting_period))
sys.exit(1 if any(bad) else 0)
