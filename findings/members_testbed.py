"""Real single-instance testbed for the native demonstrations of C07 / C01 / C13 findings: the real Context,
SupvisorsStateModes, SupvisorsMapper ... of /repo built with the recipe of supvisors/tests/conftest.py (no pytest, no
network; transport mocked)."""
import warnings
warnings.filterwarnings('ignore')
from unittest.mock import Mock, patch
from supvisors.tests.base import DummySupervisor, MockedSupvisors
from supvisors.internal_com.mapper import LocalNetwork

OPTS = {'software_name': 'x', 'event_link': 'none', 'event_port': '25200', 'synchro_timeout': '20',
        'inactivity_ticks': '2', 'core_identifiers': '', 'disabilities_file': '/tmp/members_demo_disabilities.json',
        'auto_fence': 'off', 'rules_files': 'my_movies.xml', 'starting_strategy': 'CONFIG',
        'conciliation_strategy': 'USER', 'stats_enabled': 'false', 'stats_periods': '5,15,60', 'stats_histo': '10',
        'stats_irix_mode': 'False', 'logfile': 'AUTO', 'logfile_maxbytes': '10000', 'logfile_backups': '12',
        'loglevel': 'blather'}


def make_supvisors(**over):
    def gethostbyaddr(x):
        ident = x.split('.')[-1]
        return f'supv0{ident}.bzh', [f'cliche0{ident}', f'supv0{ident}'], [x]
    ioctl_map = {'lo': ('127.0.0.1', '255.0.0.0'), 'eth0': ('10.0.0.1', '255.255.255.0')}
    opts = dict(OPTS)
    opts.update(over)
    with patch('socket.gethostname', return_value='supv01.bzh'), patch('socket.getfqdn', return_value='supv01.bzh'), \
            patch('socket.gethostbyaddr', side_effect=gethostbyaddr), \
            patch('socket.if_nameindex', return_value=[(1, 'lo'), (2, 'eth0')]), \
            patch('uuid.getnode', return_value=1250999896491), \
            patch('supvisors.internal_com.mapper.get_interface_info', side_effect=lambda x: ioctl_map[x]):
        supv = MockedSupvisors(DummySupervisor(), opts)
    supv.parser = None
    supv.rpc_handler = Mock()
    supv.external_publisher = None
    return supv


def process_info(group, name, state=0, now=100.0, **kw):
    d = {'group': group, 'name': name, 'state': state, 'statename': '', 'description': '', 'pid': 0, 'expected': True,
         'spawnerr': '', 'now': now, 'now_monotonic': now, 'start': 0, 'start_monotonic': 0.0, 'stop': 0,
         'stop_monotonic': 0.0, 'startsecs': 0, 'stopwaitsecs': 0, 'extra_args': '', 'disabled': False,
         'program_name': name, 'process_index': 0, 'has_stdout': False, 'has_stderr': False}
    d.update(kw)
    return d
