"""C09 clause 3 (A20): Master in RESTARTING, its Stopper still busy (a process is RUNNING, its stop has been requested); a
required non-Master instance is lost and supvisors_failure_strategy=RESYNC: _EndingState._check_consistence turns the
SYNCHRONIZATION proposed by _check_failure_strategy into FINAL, and exit() sends the Supervisor restart order while the stop
sequence is still in progress.
Statement: 'each live instance's Supervisor receives exactly one restart/shutdown order, only after the Master has finished
stopping everything (or given up on timeouts)'.
Run: /venv/bin/python -W ignore findings/C09_final_before_stopper_done_demo.py   (exit 1 = defect present)"""
import os
import sys
sys.path.insert(0, os.path.dirname(os.path.abspath(__file__)))
from fsm_testbed import mk, info
from supervisor.states import ProcessStates
from supvisors.ttypes import SupvisorsInstanceStates as S, SupvisorsStates as F
from supvisors.statemachine import OperationState

supv = mk(synchro_options='CORE', core_identifiers='10.0.0.2:25000', supvisors_failure_strategy='RESYNC')
supv.mapper._core_identifiers = ['10.0.0.2:25000']
ctx, sm = supv.context, supv.state_modes
ids = list(ctx.instances)
loc, peer = ids[0], ids[1]
for i in (loc, peer):
    ctx.instances[i]._state = S.RUNNING
    sm.local_state_modes.instance_states[i] = S.RUNNING
sm.local_state_modes.master_identifier = loc
sm.instance_state_modes[peer].master_identifier = loc
sm.instance_state_modes[peer].instance_states = dict(sm.local_state_modes.instance_states)
p = ctx.setdefault_process(loc, info('A', 'p', state=ProcessStates.RUNNING, stopwaitsecs=100))
ctx.instances[loc].add_process(p)
a = ctx.applications['A']
a.update_sequences()
a.update()
sm.local_state_modes.state = F.OPERATION
supv.fsm.instance = OperationState(supv)
supv.fsm.on_restart()
print('entered', supv.fsm.state.name, 'stopper busy', supv.stopper.in_progress(), 'stop requests',
      supv.rpc_handler.send_stop_process.call_args_list)
assert supv.fsm.state == F.RESTARTING and supv.stopper.in_progress()
ctx.on_instance_failure(ctx.instances[peer])          # required non-Master peer lost during the ending phase
supv.fsm.next()
busy = supv.stopper.in_progress()
print('after the loss: state', supv.fsm.state.name, 'stopper busy', busy, 'process state', p.state,
      'restart orders', supv.rpc_handler.send_restart.call_args_list)
sys.exit(1 if (supv.fsm.state == F.FINAL and busy and supv.rpc_handler.send_restart.called) else 0)
