"""C15 / DESIGN A3: a string leaf that is not a valid regular expression makes ApplicationStatus.update() raise
re.error instead of reporting a major failure ("a pattern matching nothing yields a major failure").

Runs the REAL classes of /repo (exit 1 while the defect is present, 0 once it is repaired).
usage: /venv/bin/python -W ignore findings/C15_invalid_regex_leaf_demo.py
"""
import sys
from unittest.mock import Mock
from supervisor.states import ProcessStates
from supvisors.application import ApplicationRules, ApplicationStatus
from supvisors.process import ProcessRules, ProcessStatus
from supvisors.ttypes import ApplicationStatusParseError


def application(formula):
    """a real ApplicationStatus with processes p1, p2 (RUNNING) and q (FATAL); the formula goes through the real
    status_formula setter exactly as Parser.load_status does (ApplicationStatusParseError = formula refused at load)"""
    supv = Mock()
    rules = ApplicationRules(supv)
    try:
        rules.status_formula = formula
    except ApplicationStatusParseError as exc:
        print(f'formula {formula!r:.60} refused at load: {exc}')
    app = ApplicationStatus('app', rules, supv)
    for name, state in (('p1', ProcessStates.RUNNING), ('p2', ProcessStates.RUNNING), ('q', ProcessStates.FATAL)):
        p = ProcessStatus('app', name, ProcessRules(supv), supv)
        p._state = state
        app.processes[name] = p
    return app


bad = 0
for formula in ('"("', 'all("[")', '"p1" and "*"'):
    app = application(formula)
    try:
        app.update()
        print(f'{formula!r}: major_failure={app.major_failure}')
        bad += not app.major_failure
    except Exception as exc:
        print(f'DEFECT {formula!r}: update() raised {type(exc).__name__}: {exc}')
        bad += 1
sys.exit(1 if bad else 0)
