"""Native demonstration (property C18, found by the bounded stand-in of HomogeneousGroup.assign_hash_identifiers):
the '#' resolution of a homogeneous group is not total.
 1. a group where one process got the '#' rule from a pattern and another process of the same program has plain
    identifiers (default ['*'], or an instance outside the '#' list) -> KeyError (the code assumes, in a NOTE, that every
    assigned identifier belongs to the '#' list);
 2. a '#' list that knows no instance yet (unresolved alias, or discovery mode before the instance shows up)
    -> ValueError: min() of an empty list.
fn-level: real HomogeneousGroup / ProcessRules, process objects reduced to the attributes the method reads.
Run: /venv/bin/python -W ignore findings/C18_hash_group_demo.py   (exit 1 = defect present)"""
import sys
from types import SimpleNamespace
from unittest.mock import Mock
from supvisors.application import HomogeneousGroup
from supvisors.process import ProcessRules

INSTANCES = ['i1', 'i2', 'i3']


def run(rule, other):
    sv = Mock()
    sv.mapper.instances = {i: None for i in INSTANCES}
    sv.mapper.filter = lambda lst: [x for x in dict.fromkeys(lst) if x in sv.mapper.instances]
    grp = HomogeneousGroup('prg', sv)
    r0 = ProcessRules(sv)
    r0.identifiers, r0.hash_identifiers = [], list(rule)
    procs = [SimpleNamespace(process_index=0, rules=r0, namespec='grp:prg_00', program_name='prg')]
    if other is not None:
        r1 = ProcessRules(sv)
        r1.identifiers = list(other)
        procs.append(SimpleNamespace(process_index=1, rules=r1, namespec='grp:prg_10', program_name='prg'))
    for p in procs:
        grp.add_process(p)
    try:
        grp.resolve_rules()
        print(f'# rule {rule}, other process identifiers {other}: resolved ->', [p.rules.identifiers for p in procs])
        return True
    except (KeyError, ValueError) as exc:
        print(f'# rule {rule}, other process identifiers {other}: {type(exc).__name__}: {exc}')
        return False


results = [run(['i1', 'i2'], ['*']), run(['*'], ['*']), run(['i1', 'i2'], ['i3']), run(['unknown_alias'], None)]
sys.exit(0 if all(results) else 1)
