"""C12 finding (native): two instances that hold the SAME last report from every instance disagree on where a process
runs when that report is STOPPING: the one that saw RUNNING -> STOPPING keeps the copy listed, the one that received
STOPPING as a handshake snapshot (late joiner) does not.  Exit 1 while the disagreement exists."""
import sys
from unittest.mock import Mock
from supvisors.process import ProcessStatus, ProcessRules


def info(state, now=10.0):
    return {'group': 'g', 'name': 'p', 'state': state, 'statename': '', 'description': '', 'pid': 1, 'expected': True,
            'spawnerr': '', 'now': now, 'now_monotonic': now, 'start': 1, 'start_monotonic': 1.0, 'stop': 0,
            'stop_monotonic': 0.0, 'startsecs': 0, 'stopwaitsecs': 0, 'extra_args': '', 'disabled': False,
            'program_name': 'p', 'process_index': 0, 'has_stdout': False, 'has_stderr': False}


def event(state, now):
    return {'group': 'g', 'name': 'p', 'state': state, 'extra_args': '', 'now': now, 'now_monotonic': now, 'pid': 1,
            'expected': True, 'spawnerr': ''}


supvisors = Mock()
supvisors.logger.level = 100
# instance 1 was there all along: snapshot RUNNING from X, then the STOPPING event from X
p1 = ProcessStatus('g', 'p', ProcessRules(supvisors), supvisors)
p1.add_info('X', info(20))
p1.update_info('X', event(40, 11.0))
# instance 2 joins while the process is STOPPING on X: it receives the snapshot STOPPING
p2 = ProcessStatus('g', 'p', ProcessRules(supvisors), supvisors)
p2.add_info('X', info(40, 11.0))
print('instance 1 lists', p1.running_identifiers, 'state', p1.state, '| instance 2 lists', p2.running_identifiers, 'state', p2.state)
sys.exit(0 if p1.running_identifiers == p2.running_identifiers else 1)
