"""C14 / C04 / C16 (DESIGN Appendix A23): SINGLE_NODE application with two programs, each known by a DIFFERENT Supervisor
of the chosen node.  possible_node_identifiers() accepts the node (every program has a solution on it), but
distribute_to_single_node chooses, for every command, among ALL the selected instances of the node - not among those
that know the command's program: p2 is assigned to the instance that only knows p1 and update_identifier raises
TypeError ('NoneType' object is not subscriptable) out of Starter.start_application.
Run: /venv/bin/python -W ignore findings/C14_single_node_unknown_program_demo.py   (exit 1 = defect present)"""
import os
import sys
sys.path.insert(0, os.path.dirname(os.path.abspath(__file__)))
from _c04_testbed import mk, info
from supvisors.ttypes import SupvisorsInstanceStates as S, DistributionRules, StartingStrategies

supv = mk()
ctx = supv.context
node = next(iter(supv.mapper.nodes.values()))
X, Y = node[0], node[1]
for i in (X, Y):
    ctx.instances[i]._state = S.RUNNING
p1 = ctx.setdefault_process(X, info('A', 'p1'))
ctx.instances[X].add_process(p1)
p2 = ctx.setdefault_process(Y, info('A', 'p2'))
ctx.instances[Y].add_process(p2)
a = ctx.applications['A']
a.rules.managed = True
a.rules.start_sequence = 1
a.rules.distribution = DistributionRules.SINGLE_NODE
a.rules.identifiers = ['*']
p1.rules.start_sequence = p2.rules.start_sequence = 1
p1.rules.expected_load = p2.rules.expected_load = 10
a.update_sequences()
a.update()
print('possible_node_identifiers:', a.possible_node_identifiers(), ' p1 known on', list(p1.info_map), ' p2 known on',
      list(p2.info_map))
try:
    supv.starter.start_application(StartingStrategies.CONFIG, a)
except Exception as exc:
    print('escaped from Starter.start_application:', type(exc).__name__, exc)
    sys.exit(1)
calls = supv.rpc_handler.send_start_process.call_args_list
print('requests:', calls)
bad = [c for c in calls if c.args[0] not in ctx.get_process(c.args[1]).info_map]
sys.exit(1 if bad else 0)
