"""Native demonstration (property C07, Appendix A13): Context.on_instance_failure raises InvalidTransition when the
queued XML-RPC failure notification of a peer is read after that peer has already been invalidated (STOPPED).

History with the real classes: the peer goes CHECKING -> CHECKED -> RUNNING, falls silent, is declared FAILED by the
periodic check and STOPPED by invalidate_failed.  The INSTANCE_FAILURE notification pushed meanwhile by its proxy thread
(SupervisorProxyThread.handle_exception tested has_active_state() in the proxy thread) is then read by the main thread:
Context.is_valid accepts the origin (not ISOLATED) and on_instance_failure is called with a STOPPED status.
Run: /venv/bin/python -W ignore findings/C07_on_instance_failure_demo.py   (exit 1 = defect present)"""
import os
import sys
sys.path.insert(0, os.path.dirname(os.path.abspath(__file__)))
from members_testbed import make_supvisors
from supvisors.ttypes import SupvisorsInstanceStates as S, InvalidTransition

supv = make_supvisors()
ctx = supv.context
local = ctx.local_status
peer = next(st for st in ctx.instances.values() if st is not local)
# local instance running, peer admitted
for st in (local, peer):
    st.state = S.CHECKING
    st.state = S.CHECKED
    st.state = S.RUNNING
ctx.on_local_tick_event({'sequence_counter': 1, 'when': 10.0, 'when_monotonic': 10.0})
ctx.on_tick_event(peer, {'sequence_counter': 7, 'when': 10.0, 'when_monotonic': 10.0})
# the peer falls silent: more than inactivity_ticks (2) local ticks later it is FAILED, then STOPPED
ctx.on_local_tick_event({'sequence_counter': 4, 'when': 25.0, 'when_monotonic': 25.0})
ctx.on_timer_event({'sequence_counter': 4})
assert peer.state == S.FAILED, peer.state
ctx.invalidate_failed()
assert peer.state == S.STOPPED, peer.state
# the failure notification queued by the proxy thread is read now
status = ctx.is_valid(*peer.supvisors_id.source)
print('origin accepted by Context.is_valid:', status is peer)
try:
    ctx.on_instance_failure(peer)
    print('no exception, peer state:', peer.state.name)
    sys.exit(0)
except InvalidTransition as exc:
    print('InvalidTransition escapes Context.on_instance_failure:', exc)
    sys.exit(1)
