"""Native demonstration of finding C20-cpu-count-shrinks (DESIGN Appendix A18), property C20 (also C16).
HostStatisticsInstance.push_statistics pops one CPU value per history created by the FIRST sample: a later sample
with fewer CPU entries (hot-unplugged / offlined core, or a remote instance restarted on a smaller host under the same
identifier) raises IndexError after `times` (and some cpu lists) were already extended: the series are misaligned and
stay so, and every following push raises again.
Run: /venv/bin/python -W ignore findings/C20_cpu_count_demo.py   (exit 1 = defect present)"""
import sys
from unittest.mock import Mock
from supvisors.statscompiler import HostStatisticsInstance


def sample(now, nb_cpu):
    return {'now': now, 'cpu': [(10.0 * now, 5.0 * now)] * nb_cpu, 'mem': 50.0,
            'net_io': {'eth0': (100 * now, 200 * now)}, 'disk_io': {'sda': (10 * now, 20 * now)},
            'disk_usage': {'/': 40.0}}


inst = HostStatisticsInstance('10.0.0.1', 5.0, 10, Mock())
inst.push_statistics(sample(0.0, 3))          # first sample: average + 2 cores
error = None
try:
    inst.push_statistics(sample(5.0, 2))      # one core less
except IndexError as exc:
    error = exc
lens = [len(lst) for lst in inst.cpu]
aligned = all(n == len(inst.times) for n in lens) and len(inst.mem) == len(inst.times)
print(f'error={error!r} len(times)={len(inst.times)} len(cpu[*])={lens} len(mem)={len(inst.mem)} aligned={aligned}')
sys.exit(0 if error is None and aligned else 1)
