"""C17 / DESIGN A14: RPCInterface.restart() and shutdown() with no known Master let RuntimeError / ValueError escape
instead of RPCError(BAD_SUPVISORS_STATE) (their docstrings: 'BAD_SUPVISORS_STATE if Supvisors ... has no Master instance
to perform the request').  The state (OPERATION, master_identifier == '') is the one left by
SupvisorsStateModes.update_instance_state when the Master instance fails, until the next FSM tick.
Run: /venv/bin/python -W ignore findings/C17_restart_no_master_demo.py   (exit 1 = defect present)"""
import os
import sys
sys.path.insert(0, os.path.dirname(os.path.abspath(__file__)))
from _c17_testbed import make_supvisors
from supervisor.xmlrpc import RPCError
from supvisors.rpcinterface import RPCInterface
from supvisors.ttypes import SupvisorsFaults, SupvisorsInstanceStates, SupvisorsStates

supv = make_supvisors()
local = supv.mapper.local_identifier
master = [i for i in supv.mapper.instances if i != local][0]
# a non-Master instance in OPERATION whose Master has just been declared failed
supv.state_modes.local_state_modes.state = SupvisorsStates.OPERATION
supv.state_modes.local_state_modes.master_identifier = master
supv.state_modes.update_instance_state(master, SupvisorsInstanceStates.FAILED)
assert supv.fsm.state == SupvisorsStates.OPERATION and supv.state_modes.master_identifier == ''
rpc = RPCInterface(supv)
bad = 0
for name in ('restart', 'shutdown'):
    try:
        getattr(rpc, name)()
        print(f'{name}(): served')
    except RPCError as e:
        print(f'{name}(): RPCError code={e.code}', '(expected)' if e.code == SupvisorsFaults.BAD_SUPVISORS_STATE.value else '')
        bad += e.code != SupvisorsFaults.BAD_SUPVISORS_STATE.value
    except Exception as e:
        print(f'{name}(): {type(e).__name__} escapes the XML-RPC: {e}')
        bad += 1
sys.exit(1 if bad else 0)
