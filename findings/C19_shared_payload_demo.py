"""C19 (DESIGN Appendix A9), repaired by a fix: commit in /repo: the model command of a start prediction shared the
per-instance payloads with the live ProcessStatus (shallow copy of info_map), so that StarterModel.feed_model wrote the
predicted states into the live information.  Exit 1 while the payloads are shared."""
import sys
from unittest.mock import Mock
from supvisors.process import ProcessStatus, ProcessRules
from supvisors.commander import ProcessStartCommandModel
from supvisors.ttypes import StartingStrategies


def info(state):
    return {'group': 'g', 'name': 'p', 'state': state, 'statename': '', 'description': '', 'pid': 0, 'expected': True,
            'spawnerr': '', 'now': 10.0, 'now_monotonic': 10.0, 'start': 0, 'start_monotonic': 0.0, 'stop': 0,
            'stop_monotonic': 0.0, 'startsecs': 0, 'stopwaitsecs': 0, 'extra_args': '', 'disabled': False,
            'program_name': 'p', 'process_index': 0, 'has_stdout': False, 'has_stderr': False}


supvisors = Mock()
supvisors.logger.level = 100
supvisors.context.valid_identifiers.return_value = ['A']
live = ProcessStatus('g', 'p', ProcessRules(supvisors), supvisors)
live.add_info('A', info(0))
command = ProcessStartCommandModel(live, StartingStrategies.CONFIG)
# what StarterModel.feed_model does with the mocked process of the command
command.process.info_map['A']['state'] = 20
print('live per-instance state after the prediction wrote its model:', live.info_map['A']['state'])
sys.exit(0 if live.info_map['A']['state'] == 0 else 1)
