"""C17: RPCInterface.start_any_process(strategy, regex) passes the caller's string to re.search
(Context.find_runnable_processes) without validation: an invalid pattern such as '(' lets re.error escape the XML-RPC
instead of an RPCError ('fail cleanly': every fault of a request is an RPCError with a documented code).
Run: /venv/bin/python -W ignore findings/C17_start_any_process_regex_demo.py   (exit 1 = defect present)"""
import os
import sys
sys.path.insert(0, os.path.dirname(os.path.abspath(__file__)))
from _c17_testbed import make_supvisors, process_info
from supervisor.states import ProcessStates
from supervisor.xmlrpc import RPCError
from supvisors.rpcinterface import RPCInterface
from supvisors.ttypes import SupvisorsInstanceStates, SupvisorsStates

supv = make_supvisors()
ctx, local = supv.context, supv.mapper.local_identifier
ctx.instances[local]._state = SupvisorsInstanceStates.RUNNING
proc = ctx.setdefault_process(local, process_info('app', 'p', state=ProcessStates.STOPPED))
ctx.instances[local].add_process(proc)
supv.state_modes.local_state_modes.state = SupvisorsStates.OPERATION
rpc = RPCInterface(supv)
try:
    print('served:', rpc.start_any_process(0, '(', '', False))
    sys.exit(0)
except RPCError as e:
    print('RPCError code', e.code)
    sys.exit(0)
except Exception as e:
    print(f'{type(e).__module__}.{type(e).__name__} escapes the XML-RPC: {e}')
    sys.exit(1)
