"""Native demonstration (property C13 / C16, Appendix A12): Context.on_identification_event(None) raises TypeError.
SupervisorProxy._transfer_network_info pushes the IDENTIFICATION notification with network_info = None when the remote
get_network_info XML-RPC answered with a Fault (xml_rpc returns None); read_notification hands it to
fsm.on_identification_event -> Context.on_identification_event before any validity check.
Run: /venv/bin/python -W ignore findings/C13_identification_none_demo.py   (exit 1 = defect present)"""
import os
import sys
sys.path.insert(0, os.path.dirname(os.path.abspath(__file__)))
from members_testbed import make_supvisors

supv = make_supvisors()
try:
    supv.context.on_identification_event(None)
    print('ignored')
    sys.exit(0)
except TypeError as exc:
    print('TypeError escapes Context.on_identification_event(None):', exc)
    sys.exit(1)
