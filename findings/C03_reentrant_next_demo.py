"""Native demonstration (property C03): a re-entrant Commander.next retires an application job whose start sequence is
still being triggered, and starts the next application sequence first.

Application A (start_sequence 1) has ONE process group: p1 cannot be placed anywhere (its only allowed instance is not
there), p2 can run locally.  Application B has start_sequence 2.  ApplicationJobs.next pops A's group (plan now empty,
nothing in flight yet), process_job(p1) finds no resource -> fail_command -> listener.force_process_state ->
fsm.on_process_state_event -> starter.on_event -> Commander.next (RE-ENTERED): A's job is not in_progress() -> after(),
removed from Starter.current_jobs, B's sequence is popped and B:q1 is requested.  Back in the outer loop A:p2 is requested,
but A's job is no longer tracked by the Starter.
Statement: 'an application only begins once all applications with a lower positive start_sequence are done'.
Run: /venv/bin/python -W ignore findings/C03_reentrant_next_demo.py   (exit 1 = defect present)"""
import sys, warnings
warnings.filterwarnings('ignore')
from unittest.mock import Mock, patch
from supvisors.tests.base import DummySupervisor, MockedSupvisors
from supvisors.internal_com.mapper import LocalNetwork
from supvisors.commander import Starter, Stopper, StarterModel
from supvisors.strategy import RunningFailureHandler
from supvisors.statemachine import FiniteStateMachine
from supvisors.listener import SupervisorListener
from supvisors.ttypes import SupvisorsInstanceStates, StartingStrategies
from supvisors.application import ApplicationStatus, ApplicationRules
from supvisors.process import ProcessStatus, ProcessRules

OPTS = {'software_name': 'x', 'event_link': 'none', 'event_port': '25200', 'synchro_timeout': '20',
        'inactivity_ticks': '2', 'core_identifiers': '', 'disabilities_file': '/tmp/commander_demo_disabilities.json',
        'auto_fence': 'on', 'rules_files': 'my_movies.xml', 'starting_strategy': 'CONFIG',
        'conciliation_strategy': 'USER', 'stats_enabled': 'false', 'stats_periods': '5,15,60', 'stats_histo': '10',
        'stats_irix_mode': 'False', 'logfile': 'AUTO', 'logfile_maxbytes': '10000', 'logfile_backups': '12',
        'loglevel': 'blather'}


def make_supvisors():
    """one real Supvisors instance (the recipe of supvisors/tests/conftest.py without pytest): real Context, Starter,
    Stopper, FiniteStateMachine and SupervisorListener.force_process_state; only the transport (rpc_handler) is a Mock"""
    def gethostbyaddr(x):
        ident = x.split('.')[-1]
        return f'supv0{ident}.bzh', [f'cliche0{ident}', f'supv0{ident}'], [x]
    ioctl_map = {'lo': ('127.0.0.1', '255.0.0.0'), 'eth0': ('10.0.0.1', '255.255.255.0')}
    with patch('socket.gethostname', return_value='supv01.bzh'), patch('socket.getfqdn', return_value='supv01.bzh'), \
            patch('socket.gethostbyaddr', side_effect=gethostbyaddr), \
            patch('socket.if_nameindex', return_value=[(1, 'lo'), (2, 'eth0')]), \
            patch('uuid.getnode', return_value=1250999896491), \
            patch('supvisors.internal_com.mapper.get_interface_info', side_effect=lambda x: ioctl_map[x]):
        supv = MockedSupvisors(DummySupervisor(), dict(OPTS))
    for sup_id in supv.mapper.instances.values():
        sup_id.local_view = LocalNetwork(supv.logger)
        machine_id = '01:23:45:67:89:ab' if int(sup_id.ip_address.split('.')[-1]) % 2 else 'ab:cd:ef:01:23:45'
        sup_id.local_view.machine_id = machine_id
        supv.mapper.nodes.setdefault(machine_id, []).append(sup_id.identifier)
    supv.parser = None
    supv.rpc_handler = Mock()
    supv.starter, supv.stopper, supv.starter_model = Starter(supv), Stopper(supv), StarterModel(supv)
    supv.failure_handler = RunningFailureHandler(supv)
    supv.fsm = FiniteStateMachine(supv)

    class Listener:
        pass
    lst = Listener()
    lst.supvisors, lst.logger, lst.fsm, lst.rpc_handler = supv, supv.logger, supv.fsm, supv.rpc_handler
    lst.local_status = supv.context.local_status
    lst.force_process_state = SupervisorListener.force_process_state.__get__(lst)
    supv.listener = lst
    return supv


def info(group, name, state=0, now=100.0):
    return {'group': group, 'name': name, 'state': state, 'statename': '', 'description': '', 'pid': 0, 'expected': True,
            'spawnerr': '', 'now': now, 'now_monotonic': now, 'start': 0, 'start_monotonic': 0.0, 'stop': 0,
            'stop_monotonic': 0.0, 'startsecs': 0, 'stopwaitsecs': 0, 'extra_args': '', 'disabled': False,
            'program_name': name, 'process_index': 0, 'has_stdout': False, 'has_stderr': False}


def add_application(supv, name, seq, procs, where):
    """procs: (process name, sequence, identifiers allowed by the rules, state reported by `where`)"""
    rules = ApplicationRules(supv)
    rules.managed, rules.start_sequence, rules.stop_sequence = True, seq, seq
    app = supv.context.applications[name] = ApplicationStatus(name, rules, supv)
    for pname, pseq, idents, state in procs:
        pr = ProcessRules(supv)
        pr.start_sequence, pr.stop_sequence, pr.identifiers, pr.expected_load = pseq, pseq, idents, 10
        p = ProcessStatus(name, pname, pr, supv)
        for w in where:
            p.add_info(w, info(name, pname, state))
        app.add_process(p)
    app.update_sequences()
    app.update()
    return app


supv = make_supvisors()
local = supv.mapper.local_identifier
for ident, st in supv.context.instances.items():
    st._state = SupvisorsInstanceStates.RUNNING if ident == local else SupvisorsInstanceStates.STOPPED
add_application(supv, 'A', 1, [('p1', 1, ['nowhere'], 0), ('p2', 1, [local], 0)], [local])
add_application(supv, 'B', 2, [('q1', 1, [local], 0)], [local])
supv.starter.start_applications()
requests = [c[1][1] for c in supv.rpc_handler.method_calls if c[0] == 'send_start_process']
print('start requests in order:', requests)
print('jobs tracked by the Starter:', list(supv.starter.current_jobs), '(A:p2 was requested and is still STOPPED)')
ok = requests.index('A:p2') < requests.index('B:q1') and 'A' in supv.starter.current_jobs
sys.exit(0 if ok else 1)
