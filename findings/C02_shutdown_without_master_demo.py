"""C02 clause 3 (A19): with supvisors_failure_strategy=SHUTDOWN an instance decides SHUTTING_DOWN on its own.
(a) ELECTION, no Master known, a required (CORE) instance missing: one fsm.next() goes ELECTION -> SHUTTING_DOWN -> FINAL and
    sends the Supervisor shutdown, master_identifier == '' throughout;
(b) a SLAVE in OPERATION whose Master is alive and still in OPERATION enters SHUTTING_DOWN before its Master has.
Statement: 'DISTRIBUTION, OPERATION, CONCILIATION, RESTARTING and SHUTTING_DOWN are only entered with a known Master that the
instance sees RUNNING, and an instance that is not the Master enters each of them only after its Master has.'
Run: /venv/bin/python -W ignore findings/C02_shutdown_without_master_demo.py   (exit 1 = defect present)"""
import os
import sys
sys.path.insert(0, os.path.dirname(os.path.abspath(__file__)))
from fsm_testbed import mk
from supvisors.ttypes import SupvisorsInstanceStates as S, SupvisorsStates as F
from supvisors.statemachine import ElectionState, OperationState

entered = []


def spy(supv):
    """record every value written by the single writer of the FSM state together with the Master view at that time"""
    sm = supv.state_modes
    orig = type(sm).state.fset

    def setter(self, value):
        if self.local_state_modes.state != value:
            entered.append((value, self.master_identifier, self.master_state))
        orig(self, value)
    type(sm).state = type(sm).state.setter(setter)


# (a) ELECTION without Master
supv = mk(synchro_options='CORE', core_identifiers='10.0.0.2:25000', supvisors_failure_strategy='SHUTDOWN')
supv.mapper._core_identifiers = ['10.0.0.2:25000']
ctx, sm = supv.context, supv.state_modes
loc = list(ctx.instances)[0]
ctx.instances[loc]._state = S.RUNNING
sm.local_state_modes.instance_states[loc] = S.RUNNING
sm.local_state_modes.state = F.ELECTION
supv.fsm.instance = ElectionState(supv)
spy(supv)
supv.fsm.next()
print('(a) after one next():', supv.fsm.state.name, 'master', repr(sm.master_identifier), 'writes', entered,
      'shutdown orders', supv.rpc_handler.send_shutdown.call_args_list)
bad_a = any(v == F.SHUTTING_DOWN and m == '' for v, m, _ in entered)

# (b) slave in OPERATION, Master alive in OPERATION
entered.clear()
supv = mk(synchro_options='CORE', core_identifiers='10.0.0.3:25000', supvisors_failure_strategy='SHUTDOWN')
supv.mapper._core_identifiers = ['10.0.0.3:25000']
ctx, sm = supv.context, supv.state_modes
ids = list(ctx.instances)
loc, mst = ids[0], ids[1]
for i in (loc, mst):
    ctx.instances[i]._state = S.RUNNING
    sm.local_state_modes.instance_states[i] = S.RUNNING
sm.local_state_modes.master_identifier = mst
sm.instance_state_modes[mst].master_identifier = mst
sm.instance_state_modes[mst].state = F.OPERATION
sm.instance_state_modes[mst].instance_states = dict(sm.local_state_modes.instance_states)
sm.local_state_modes.state = F.OPERATION
supv.fsm.instance = OperationState(supv)
supv.fsm.next()     # core instance 10.0.0.3 is not RUNNING -> SHUTDOWN strategy
print('(b) slave after one next():', supv.fsm.state.name, 'master', sm.master_identifier, 'master state',
      sm.master_state.name, 'writes', entered)
bad_b = any(v == F.SHUTTING_DOWN and ms != F.SHUTTING_DOWN for v, m, ms in entered)
sys.exit(1 if (bad_a or bad_b) else 0)
