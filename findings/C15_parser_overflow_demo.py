"""C15: a very deep formula makes ast.parse raise RecursionError / MemoryError (not SyntaxError); the
status_formula setter lets them escape, and Parser.load_status only catches ApplicationStatusParseError, so
loading the rules file fails with an internal error instead of refusing the formula.

Runs the REAL classes of /repo (exit 1 while the defect is present, 0 once it is repaired).
usage: /venv/bin/python -W ignore findings/C15_parser_overflow_demo.py
"""
import sys
from unittest.mock import Mock
from supervisor.states import ProcessStates
from supvisors.application import ApplicationRules, ApplicationStatus
from supvisors.process import ProcessRules, ProcessStatus
from supvisors.ttypes import ApplicationStatusParseError


def application(formula):
    """a real ApplicationStatus with processes p1, p2 (RUNNING) and q (FATAL); the formula goes through the real
    status_formula setter exactly as Parser.load_status does (ApplicationStatusParseError = formula refused at load)"""
    supv = Mock()
    rules = ApplicationRules(supv)
    try:
        rules.status_formula = formula
    except ApplicationStatusParseError as exc:
        print(f'formula {formula!r:.60} refused at load: {exc}')
    app = ApplicationStatus('app', rules, supv)
    for name, state in (('p1', ProcessStates.RUNNING), ('p2', ProcessStates.RUNNING), ('q', ProcessStates.FATAL)):
        p = ProcessStatus('app', name, ProcessRules(supv), supv)
        p._state = state
        app.processes[name] = p
    return app


bad = 0
for formula in ('not ' * 3000 + '"p1"', '-' * 100000 + '1'):
    rules = ApplicationRules(Mock())
    try:
        rules.status_formula = formula
        print(f'{formula[:20]!r}...: accepted')
    except ApplicationStatusParseError as exc:
        print(f'{formula[:20]!r}...: refused at load: {exc}')
    except BaseException as exc:
        print(f'DEFECT {formula[:20]!r}... ({len(formula)} chars): setter raised {type(exc).__name__}: {str(exc)[:70]}')
        bad += 1
sys.exit(1 if bad else 0)
