"""Native demonstration (property C07 clause 4 / C06, Appendix A11): a process whose only copy is STOPPING on an instance
that is lost stays STOPPING and listed on that instance for ever after Context.invalidate_failed(): running_processes()
selects with ProcessStatus.running() (STARTING / BACKOFF / RUNNING), so the STOPPING copy is never handed to
invalidate_identifier; the process is not in the returned failed set and stopped() stays False (it can never be started
again).  NOTE: reproduced natively; the corresponding obligation is not yet part of ./check C07 (see
contracts/pending_c07_invalidate_failed.txt).
Run: /venv/bin/python -W ignore findings/C07_invalidate_failed_stopping_demo.py   (exit 1 = defect present)"""
import os
import sys
sys.path.insert(0, os.path.dirname(os.path.abspath(__file__)))
from members_testbed import make_supvisors, process_info
from supvisors.ttypes import SupvisorsInstanceStates as S

supv = make_supvisors()
ctx = supv.context
local = ctx.local_status
peer = next(st for st in ctx.instances.values() if st is not local)
for st in (local, peer):
    st.state = S.CHECKING
    st.state = S.CHECKED
    st.state = S.RUNNING
# the peer runs a process, then reports it STOPPING
ctx.load_processes(peer, [process_info('app', 'proc', state=20, pid=123)], check_state=False)
process = ctx.get_process('app:proc')
ctx.on_process_state_event(peer, {'group': 'app', 'name': 'proc', 'state': 40, 'now': 110.0, 'now_monotonic': 110.0,
                                  'pid': 123, 'expected': True, 'spawnerr': '', 'extra_args': '', 'disabled': False,
                                  'identifier': peer.identifier, 'nick_identifier': peer.nick_identifier})
assert process.state == 40 and peer.identifier in process.running_identifiers
# the peer is lost
peer.state = S.FAILED
invalidated, failed = ctx.invalidate_failed()
print('invalidated:', invalidated, 'peer state:', peer.state.name)
print('process state:', process.state_string(), 'listed on:', process.running_identifiers, 'in failed set:', process in failed,
      'stopped():', process.stopped())
ok = peer.identifier not in process.running_identifiers and process.info_map[peer.identifier]['state'] == 200
sys.exit(0 if ok else 1)
