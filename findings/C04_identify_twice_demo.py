"""C04 / C14 (Appendix A22): a peer that restarts goes through the handshake again; SupvisorsMapper.identify appends its
identifier to mapper.nodes[machine] once more, and Context.get_nodes_load (which sums over that list) counts the load
of the instance twice.
Run: /venv/bin/python -W ignore findings/C04_identify_twice_demo.py   (exit 1 = defect present)"""
import os
import sys
sys.path.insert(0, os.path.dirname(os.path.abspath(__file__)))
from _c04_testbed import mk, info
from supervisor.states import ProcessStates
from supvisors.ttypes import SupvisorsInstanceStates as S

supv = mk(file_nodes=False)
ctx = supv.context
ids = list(ctx.instances)
peer = ids[1]
lv = supv.mapper.local_instance.local_view
payload = {'identifier': peer, 'nick_identifier': 'x', 'now_monotonic': 1.0, 'network': lv.serial(), 'stereotypes': []}
supv.mapper.identify(payload)      # first handshake
supv.mapper.identify(payload)      # the peer restarted: second handshake
print('mapper.nodes after two handshakes of', peer, ':', supv.mapper.nodes)
ctx.instances[peer]._state = S.RUNNING
p = ctx.setdefault_process(peer, info('A', 'p', state=ProcessStates.RUNNING))
ctx.instances[peer].add_process(p)
p.rules.expected_load = 30
inst_load, nodes_load = ctx.instances[peer].get_load(), ctx.get_nodes_load()
print('instance load', inst_load, 'nodes load', nodes_load)
filed = supv.mapper.nodes[lv.machine_id]
sys.exit(1 if filed.count(peer) > 1 or nodes_load[lv.machine_id] != inst_load else 0)
