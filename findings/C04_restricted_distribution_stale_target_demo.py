"""C04: for a SINGLE_INSTANCE (or SINGLE_NODE) application the target of every command is chosen once, in before();
process_job then sends the request without looking at the target again.  Here program p2 (start sequence 2) is disabled
on the chosen instance while p1 (sequence 1) is starting: the request for p2 still goes to the instance where the
program is disabled ('whose Supervisor knows the program and has it enabled').
Run: /venv/bin/python -W ignore findings/C04_restricted_distribution_stale_target_demo.py   (exit 1 = defect present)"""
import os
import sys
sys.path.insert(0, os.path.dirname(os.path.abspath(__file__)))
from _c04_testbed import mk, info
from supervisor.states import ProcessStates
from supvisors.ttypes import SupvisorsInstanceStates as S, DistributionRules, StartingStrategies

supv = mk()
ctx = supv.context
ids = list(ctx.instances)
for i in ids[:2]:
    ctx.instances[i]._state = S.RUNNING
X = ids[1]
p1 = ctx.setdefault_process(X, info('A', 'p1'))
ctx.instances[X].add_process(p1)
p2 = ctx.setdefault_process(X, info('A', 'p2'))
ctx.instances[X].add_process(p2)
a = ctx.applications['A']
a.rules.managed = True
a.rules.start_sequence = 1
a.rules.distribution = DistributionRules.SINGLE_INSTANCE
a.rules.identifiers = ['*']
p1.rules.start_sequence, p2.rules.start_sequence = 1, 2
p1.rules.expected_load = p2.rules.expected_load = 10
a.update_sequences()
a.update()
supv.starter.start_application(StartingStrategies.CONFIG, a)
p2.update_disability(X, True)        # supvisors.disable('p2') reaches instance X
print('instances where p2 may be started now:', p2.possible_identifiers())
p1.update_info(X, info('A', 'p1', state=ProcessStates.STARTING))
supv.starter.on_event(p1, X)
p1.update_info(X, info('A', 'p1', state=ProcessStates.RUNNING))
supv.starter.on_event(p1, X)         # sequence 1 done: sequence 2 is triggered
calls = supv.rpc_handler.send_start_process.call_args_list
print('start requests:', calls)
bad = [c for c in calls if c.args[1] == 'A:p2' and c.args[0] not in p2.possible_identifiers()]
sys.exit(1 if bad else 0)
