"""Native demonstration (property C18, DESIGN Appendix A7): resolving the options of ONE instance changes the class-level
default list SupvisorsOptions.SYNCHRO_DEFAULT_OPTIONS for the rest of the process.
_get_value returns the default OBJECT when the option is absent; check_options then removes CORE / STRICT from it in place.
Run: /venv/bin/python -W ignore findings/C18_class_default_demo.py   (exit 1 = defect present)"""
import sys
from unittest.mock import Mock
from supvisors.options import SupvisorsOptions
from supvisors.ttypes import SynchronizationOptions

supervisord = Mock()
supervisord.options.here = '.'
supervisord.options.environ_expansions = {}
before = list(SupvisorsOptions.SYNCHRO_DEFAULT_OPTIONS)
first = SupvisorsOptions(supervisord, Mock())            # no synchro_options, no core_identifiers, no supvisors_list
after = list(SupvisorsOptions.SYNCHRO_DEFAULT_OPTIONS)
print('class default before:', [x.name for x in before])
print('class default after one SupvisorsOptions():', [x.name for x in after])
print('the instance list IS the class attribute:', first.synchro_options is SupvisorsOptions.SYNCHRO_DEFAULT_OPTIONS)
# a second instance of the same process that does declare core identifiers and a list no longer gets CORE / STRICT
second = SupvisorsOptions(supervisord, Mock(), supvisors_list='h1,h2', core_identifiers='h1')
print('second instance (supvisors_list and core_identifiers set) synchro_options:', [x.name for x in second.synchro_options])
ok = after == before and SynchronizationOptions.CORE in second.synchro_options
sys.exit(0 if ok else 1)
