"""C08 clause 1 (A16): DistributionState.next() decides SYNCHRONIZATION (RESYNC strategy, a required CORE instance missing)
but DISTRIBUTION -> SYNCHRONIZATION is not in FiniteStateMachine._Transitions: set_state refuses it on every tick.  As
DISTRIBUTION never activates CHECKED instances, the Master stays in DISTRIBUTION for ever, even after the peer is back.
Statement: 'No instance remains parked in SYNCHRONIZATION, ELECTION or DISTRIBUTION, provided the configured synchronization
condition can be met ... and supvisors_failure_strategy is not SHUTDOWN.'
Run: /venv/bin/python -W ignore findings/C08_distribution_resync_refused_demo.py   (exit 1 = defect present)"""
import os
import sys
sys.path.insert(0, os.path.dirname(os.path.abspath(__file__)))
from fsm_testbed import mk
from supvisors.ttypes import SupvisorsInstanceStates as S, SupvisorsStates as F
from supvisors.statemachine import DistributionState, FiniteStateMachine

supv = mk(synchro_options='CORE', core_identifiers='10.0.0.2:25000', supvisors_failure_strategy='RESYNC')
supv.mapper._core_identifiers = ['10.0.0.2:25000']
ctx, sm = supv.context, supv.state_modes
ids = list(ctx.instances)
loc, peer = ids[0], ids[1]


def set_inst(i, st):
    ctx.instances[i]._state = st
    sm.local_state_modes.instance_states[i] = st


set_inst(loc, S.RUNNING)
sm.local_state_modes.master_identifier = loc          # the local instance is the Master, in DISTRIBUTION
sm.local_state_modes.state = F.DISTRIBUTION
supv.fsm.instance = DistributionState(supv)
set_inst(peer, S.CHECKED)                             # the core peer is back and authorized, waiting to be activated
decisions = []
for tick in range(6):
    decisions.append(supv.fsm.instance.next())
    supv.fsm.next()
    print('tick', tick, 'decision', decisions[-1], 'fsm state', supv.fsm.state.name, 'peer', ctx.instances[peer].state.name,
          'starter busy', supv.starter.in_progress())
print('critical logs:', [str(c)[:110] for c in supv.logger.critical.call_args_list][:2])
refused = all(d == F.SYNCHRONIZATION for d in decisions) and F.SYNCHRONIZATION not in FiniteStateMachine._Transitions[F.DISTRIBUTION]
parked = supv.fsm.state == F.DISTRIBUTION and ctx.instances[peer].state == S.CHECKED and not supv.starter.in_progress()
sys.exit(1 if (refused and parked) else 0)
