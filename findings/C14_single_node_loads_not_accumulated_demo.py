"""C14 ('LESS_LOADED ... the one with the lowest instance load ...; loads include starts already requested'):
distribute_to_single_node computes the request map ONCE before the loop over the commands, so the target given to a
command a moment earlier does not count for the next one (although get_load_requests() counts exactly these planned
commands as soon as the loop is over).  Three programs of 20% each, two idle instances X, Y of one node, strategy
LESS_LOADED: all three are sent to X; with the starts already requested taken into account the second one goes to Y.
Run: /venv/bin/python -W ignore findings/C14_single_node_loads_not_accumulated_demo.py   (exit 1 = defect present)"""
import os
import sys
sys.path.insert(0, os.path.dirname(os.path.abspath(__file__)))
from _c04_testbed import mk, info
from supvisors.ttypes import SupvisorsInstanceStates as S, DistributionRules, StartingStrategies

supv = mk()
ctx = supv.context
node = next(iter(supv.mapper.nodes.values()))
X, Y = node[0], node[1]
for i in (X, Y):
    ctx.instances[i]._state = S.RUNNING
procs = []
for name in ('p1', 'p2', 'p3'):
    p = ctx.setdefault_process(X, info('A', name))
    ctx.instances[X].add_process(p)
    p.add_info(Y, info('A', name))
    ctx.instances[Y].add_process(p)
    procs.append(p)
a = ctx.applications['A']
a.rules.managed = True
a.rules.start_sequence = 1
a.rules.distribution = DistributionRules.SINGLE_NODE
a.rules.identifiers = ['*']
for p in procs:
    p.rules.start_sequence = 1
    p.rules.expected_load = 20
a.update_sequences()
a.update()
supv.starter.start_application(StartingStrategies.LESS_LOADED, a)
targets = [(c.args[1], c.args[0]) for c in supv.rpc_handler.send_start_process.call_args_list]
print('requests:', targets)
# independent computation: instance load including the starts already requested, lowest first
pending = {X: 0, Y: 0}
expected = []
for p in procs:
    t = min((X, Y), key=lambda i: (ctx.instances[i].get_load() + pending[i], (X, Y).index(i)))
    pending[t] += p.rules.expected_load
    expected.append((p.namespec, t))
print('expected:', expected)
sys.exit(1 if targets != expected else 0)
