"""C14 / C16: ApplicationStartJobs.distribute_to_single_node passes the result of get_supvisors_instance to
update_identifier without testing it.  When no instance of the chosen node can take ONE process (here: the program is
started on demand, it is not part of the start sequence whose load get_node checked; the node is at 95%), the result is
None and update_identifier(None) raises KeyError(None) out of Starter.start_process (XML-RPC start_process: a
non-RPCError fault) instead of the clean 'No resource available' failure.
Run: /venv/bin/python -W ignore findings/C14_single_node_none_target_demo.py   (exit 1 = defect present)"""
import os
import sys
sys.path.insert(0, os.path.dirname(os.path.abspath(__file__)))
from _c04_testbed import mk, info
from supervisor.states import ProcessStates
from supvisors.ttypes import SupvisorsInstanceStates as S, DistributionRules, StartingStrategies

supv = mk()
ctx = supv.context
node = next(iter(supv.mapper.nodes.values()))
X, Y = node[0], node[1]
for i in (X, Y):
    ctx.instances[i]._state = S.RUNNING
big = ctx.setdefault_process(X, info('B', 'big', state=ProcessStates.RUNNING))
ctx.instances[X].add_process(big)
big.rules.expected_load = 95
q = ctx.setdefault_process(X, info('A', 'q'))
ctx.instances[X].add_process(q)
a = ctx.applications['A']
a.rules.managed = True
a.rules.start_sequence = 1
a.rules.distribution = DistributionRules.SINGLE_NODE
a.rules.identifiers = ['*']
q.rules.start_sequence = 0       # not auto-started: started on demand (supvisors.start_process)
q.rules.expected_load = 10
a.update_sequences()
a.update()
print('node loads:', ctx.get_nodes_load())
try:
    supv.starter.start_process(StartingStrategies.CONFIG, q)
except Exception as exc:
    print('escaped from Starter.start_process:', type(exc).__name__, repr(exc))
    sys.exit(1)
print('no exception; requests:', supv.rpc_handler.send_start_process.call_args_list, 'state:', q.state_string())
sys.exit(0)
