"""C06 ('When an instance is lost, the Master ... applies to each managed process that was running only there its
running_failure_strategy', 'for all instants at which an instance is lost (including ... conciliation)'):
ConciliationState._master_next() overrides _WorkingState._master_next() WITHOUT calling super()._master_next() (the
DISTRIBUTION and OPERATION overrides do).  When a non-Master instance is lost while the Master is in CONCILIATION, the
processes that were running only there are reported by Context.invalidate_failed() into `lost_processes`, and nobody
reads them: no failure job is registered (RunningFailureHandler.add_default_job is never called), the report is
overwritten by the next evaluation, and the process stays FATAL although its strategy is RESTART_PROCESS.  The same
scenario in OPERATION registers and triggers the job.
Run: /venv/bin/python -W ignore findings/C06_conciliation_lost_processes_dropped_demo.py   (exit 1 = defect present)"""
import os
import sys
sys.path.insert(0, os.path.dirname(os.path.abspath(__file__)))
from unittest.mock import Mock
from fsm_testbed import mk, info
from supvisors.ttypes import (SupvisorsInstanceStates as S, SupvisorsStates as F, RunningFailureStrategies as R)
from supvisors.statemachine import ConciliationState, OperationState


def scenario(state, state_class):
    """the local instance is the Master, in `state`; a peer runs app:proc (RESTART_PROCESS) and another process of the
    application keeps running locally; app:other runs twice (a conflict, so that CONCILIATION is legitimate); the peer is
    then lost.  Returns what the Master did in the evaluation that detected the loss and in the following one."""
    supv = mk(conciliation_strategy='USER')
    ctx, sm = supv.context, supv.state_modes
    ids = list(ctx.instances)
    loc, peer, third = ids[0], ids[1], ids[2]
    for i in (loc, peer, third):
        st = ctx.instances[i]
        st.state = S.CHECKING
        st.state = S.CHECKED
        st.state = S.RUNNING
    for i in (loc, peer, third):
        sm.instance_state_modes[i].master_identifier = loc
        sm.instance_state_modes[i].state = state
        sm.instance_state_modes[i].instance_states.update({j: S.RUNNING for j in (loc, peer, third)})
    sm.local_state_modes.state = state
    sm.evaluate_stability()
    # processes: app:proc runs on the peer only; app:other runs on the local instance AND on the third one (conflict)
    ctx.load_processes(ctx.instances[peer], [info('app', 'proc', state=20, pid=11)], check_state=False)
    ctx.load_processes(ctx.instances[loc], [info('app', 'proc', state=0), info('app', 'other', state=20, pid=12)],
                       check_state=False)
    ctx.load_processes(ctx.instances[third], [info('app', 'proc', state=0), info('app', 'other', state=20, pid=13)],
                       check_state=False)
    process = ctx.get_process('app:proc')
    process.rules.running_failure_strategy = R.RESTART_PROCESS
    ctx.applications['app'].rules.managed = True
    assert process.running_identifiers == {peer} and ctx.conflicting()
    supv.fsm.instance = state_class(supv)
    # observe the failure handler (real object, wrapped)
    handler = supv.failure_handler
    real_add = handler.add_default_job
    calls = []
    handler.add_default_job = lambda p: (calls.append(p.namespec), real_add(p))[1]
    # the peer is lost: its ticks stop, on_timer_event / proxy failure marks it FAILED
    ctx.on_instance_failure(ctx.instances[peer])
    assert ctx.instances[peer].state == S.FAILED
    supv.fsm.next()
    first = {'fsm': supv.fsm.state.name, 'lost_processes': sorted(p.namespec for p in supv.fsm.instance.lost_processes),
             'add_default_job': list(calls),
             'restart_process_jobs': sorted(p.namespec for p in handler.restart_process_jobs),
             'starter_jobs': sorted(supv.starter.get_application_job_names())}
    supv.fsm.next()
    second = {'fsm': supv.fsm.state.name, 'lost_processes': sorted(p.namespec for p in supv.fsm.instance.lost_processes),
              'add_default_job': list(calls), 'process_state': process.state_string(),
              'starter_jobs': sorted(supv.starter.get_application_job_names())}
    return first, second


op1, op2 = scenario(F.OPERATION, OperationState)
co1, co2 = scenario(F.CONCILIATION, ConciliationState)
print('OPERATION    evaluation detecting the loss:', op1)
print('OPERATION    next evaluation              :', op2)
print('CONCILIATION evaluation detecting the loss:', co1)
print('CONCILIATION next evaluation              :', co2)
reference_ok = op1['add_default_job'] == ['app:proc']
dropped = (co1['fsm'] == 'CONCILIATION' and co1['lost_processes'] == ['app:proc'] and co1['add_default_job'] == []
           and co2['lost_processes'] == [] and co2['add_default_job'] == [] and co2['process_state'] == 'FATAL')
print('reference (OPERATION registers the failure job):', reference_ok, '| CONCILIATION drops the lost process:', dropped)
sys.exit(1 if (reference_ok and dropped) else 0)
