"""Native demonstration (property C18, DESIGN Appendix A25): an XSD-valid rules file whose pattern attribute is not a
valid regular expression makes every lookup that is not an exact name raise re.error out of the parser
(get_best_pattern calls re.search on every pattern; the XSD accepts any string).
Run: /venv/bin/python -W ignore findings/C18_invalid_pattern_demo.py   (exit 1 = defect present)"""
import os
import re
import sys
import tempfile
from unittest.mock import Mock
from supvisors.application import ApplicationRules
from supvisors.process import ProcessRules
from supvisors.sparser import Parser

XML = """<?xml version="1.0" encoding="UTF-8" standalone="no"?>
<root>
    <application name="good">
        <programs>
            <program name="exact"><start_sequence>1</start_sequence></program>
            <program pattern="prg_["><start_sequence>2</start_sequence></program>
        </programs>
    </application>
    <application pattern="app_("><start_sequence>1</start_sequence></application>
</root>
"""
with tempfile.TemporaryDirectory() as d:
    path = os.path.join(d, 'rules.xml')
    with open(path, 'w') as f:
        f.write(XML)
    supvisors = Mock()
    supvisors.options.rules_files = [path]
    parser = Parser(supvisors)          # lxml validates the file against rules.xsd: accepted
bad = 0
for call, args in ((parser.load_application_rules, ('other_app', ApplicationRules(supvisors))),
                   (parser.load_program_rules, ('good:prg_1', ProcessRules(supvisors)))):
    try:
        call(*args)
        print(call.__name__, args[0], '-> ok')
    except re.error as exc:
        bad += 1
        print(call.__name__, args[0], '-> re.error:', exc)
sys.exit(1 if bad else 0)
