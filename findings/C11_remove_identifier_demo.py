"""Native demonstration of the defect repaired by /repo commit 11792e3 (property C11).
Run: /venv/bin/python findings/C11_remove_identifier_demo.py   (exit 1 = defect present)"""
import sys
from unittest.mock import Mock
from supvisors.process import ProcessStatus, ProcessRules


def info(state):
    return {'group': 'g', 'name': 'p', 'state': state, 'statename': '', 'description': '', 'pid': 1, 'expected': True,
            'spawnerr': '', 'now': 10.0, 'now_monotonic': 10.0, 'start': 1, 'start_monotonic': 1.0, 'stop': 0,
            'stop_monotonic': 0.0, 'startsecs': 0, 'stopwaitsecs': 0, 'extra_args': '', 'disabled': False,
            'program_name': 'p', 'process_index': 0, 'has_stdout': False, 'has_stderr': False}


supvisors = Mock()
supvisors.logger.level = 100
p = ProcessStatus('g', 'p', ProcessRules(supvisors), supvisors)
p.add_info('A', info(20))
p.add_info('B', info(20))
assert p.conflicting()
p.remove_identifier('A')          # the program disappears from instance A
ok = p.running_identifiers == {'B'} and not p.conflicting()
print('running_identifiers after removal of A:', p.running_identifiers, 'conflicting:', p.conflicting())
sys.exit(0 if ok else 1)
