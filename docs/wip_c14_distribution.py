"""WORK IN PROGRESS - NOT LOADED by the verifier (kept under docs/ on purpose; move to contracts/ to activate).
Contracts for ApplicationStartJobs.before / distribute_to_single_instance / distribute_to_single_node / on_command_added
and the assumed candidate lists of ApplicationStatus.  State: every call precondition is discharged and the exceptional
outcomes of update_identifier are proved impossible in distribute_to_single_instance, but the loop-preservation
obligation is not decided within the budget (the frame of the modular update_identifier call is guarded by alloc[r]; the
allocation of commands[j], an element of the summarised nested comprehension, needs a chain of ~8 quantifier
instantiations through ~1800 path facts).  Ways out: type planned_jobs of ApplicationStartJobs as lists of
ProcessStartCommand in shapes.py (update_identifier is then inlined: plain stores, no alloc guard) or de-duplicate the
validity facts of the path condition."""

from pyvc.spec import *

GROUP = 'strategy'
from contracts.c04 import *


# --------------------------------------------------------------------------------------------------------------------
# the plan of an application job
def every_planned(jobs, prop):
    """prop(c) holds for every command c of the planned groups of the application job"""
    return forall(int, int, lambda s, j: implies(s in jobs.planned_jobs and 0 <= j and j < len(jobs.planned_jobs[s]),
                                                 prop(jobs.planned_jobs[s][j])))


def belongs(process, application):
    """the process is one of the processes of the application (ApplicationStatus.processes is keyed by process name)"""
    return process.process_name in application.processes and application.processes[process.process_name] is process


def plan_wf(jobs):
    """call sites (Starter.store_application / start_process build the plan with Starter.command_class =
    ProcessStartCommand over processes of the application; ApplicationJobs.add_commands appends such commands)"""
    return every_planned(jobs, lambda c: (
        isinstance(c, ProcessStartCommand) and c.process.supvisors is jobs.supvisors and info_shape(c.process)
        and belongs(c.process, jobs.application)))


def all_know_and_enable(application, i):
    """C04: 'whose Supervisor knows the program and has it enabled' - for every program of the application"""
    return forall(application.processes, lambda n: knows_and_enabled(application.processes[n], i))


def node_running_load(supvisors, i):
    """'the expected_loading of everything running on that node' for the machine of instance i"""
    m = machine_of(supvisors, i)
    return supvisors.context.ghost_node_load[m] if m in supvisors.mapper.nodes else 0


# --------------------------------------------------------------------------------------------------------------------
@contract('commander:ProcessCommand.update_identifier', props=['C14', 'C04'])
class UpdateIdentifierDispatch:
    """ASSUMED dispatch point: `command.update_identifier(x)` on a command of an application START job (its static type
    is the base class ProcessCommand).  The clauses are those PROVED on the override ProcessStartCommand.update_identifier
    below; the precondition restricts the receiver to that class (ProcessStopCommand is never planned by a Starter)."""
    assumed = True
    raises = ('KeyError', 'TypeError')
    types = {'identifier': 'Optional[str]'}

    def modifies(self, identifier):
        return [field(self, 'identifier'), field(self, 'instance_status'), field(self, '_wait_ticks')]

    def pre_start_command(self, identifier):
        return isinstance(self, ProcessStartCommand) and info_shape(self.process)

    def post_target(self, identifier):
        return (identifier is not None and self.identifier == identifier
                and identifier in self.process.supvisors.context.instances
                and self.instance_status is self.process.supvisors.context.instances[identifier]
                and identifier in self.process.info_map)

    def exc_KeyError_unknown_instance(self, identifier):
        return identifier is None or identifier not in self.process.supvisors.context.instances

    def exc_TypeError_unknown_program(self, identifier):
        return identifier is None or identifier not in self.process.info_map


# --------------------------------------------------------------------------------------------------------------------
@contract('application:ApplicationStatus.get_start_sequence_expected_load', props=['C14'])
class StartSequenceLoad:
    """ASSUMED abstraction: sum(expected_load of the start-sequenced processes) - python sum() over a generator is not
    unfolded; its value is the ghost ApplicationStatus.ghost_start_sequence_load"""
    assumed = True
    raises = ()

    def modifies(self):
        return []

    def post_value(self, result):
        return result == self.ghost_start_sequence_load


@contract('application:ApplicationStatus.possible_identifiers', props=['C04', 'C14'])
class ApplicationPossibleIdentifiers:
    """ASSUMED (DESIGN C04.3; the code intersects, with set.intersection(*sets), the per-process sets of instances where
    the program is known and enabled - star-arguments over a symbolic list are out of the engine's reach): the
    identifiers permitted by the APPLICATION's rule ('*' -> every mapper instance, else mapper.filter) where EVERY
    program of the application is known and enabled; empty when the application has no process."""
    assumed = True
    raises = ()

    def modifies(self):
        return []

    def post_exactly(self, result):
        return forall(str, lambda i: (i in result) == (len(self.processes) > 0
                                                       and rule_permits(self.supvisors.mapper, self.rules.identifiers, i)
                                                       and all_know_and_enable(self, i)))

    def post_fresh(self, result):
        return was_fresh(result)


@contract('application:ApplicationStatus.possible_node_identifiers', props=['C04', 'C14'])
class ApplicationPossibleNodeIdentifiers:
    """ASSUMED (nested loops with for/else over sets): identifiers permitted by the APPLICATION's rule, filed under a node
    of mapper.nodes on which every program of the application has at least one permitted instance that knows and enables
    it, and that know and enable at least one program themselves.  (NOT: every returned instance knows every program -
    the docstring of the method says so: 'Some elements ... may not fit'.)"""
    assumed = True
    raises = ()

    def modifies(self):
        return []

    def post_permitted_and_filed(self, result):
        mapper = self.supvisors.mapper
        return forall(result, lambda i: rule_permits(mapper, self.rules.identifiers, i)
                      and exists(mapper.nodes, lambda m: i in mapper.nodes[m]))

    def post_knows_some_program(self, result):
        return forall(result, lambda i: exists(self.processes, lambda n: knows_and_enabled(self.processes[n], i)))

    def post_fresh(self, result):
        return was_fresh(result)


# --------------------------------------------------------------------------------------------------------------------
def distribution_pre(jobs):
    return (graph_wf(jobs.supvisors) and nodes_wf(jobs.supvisors) and running_are_identified(jobs.supvisors)
            and jobs.supvisors.mapper.local_identifier is not None
            and '' not in jobs.supvisors.context.instances
            and jobs.application.supvisors is jobs.supvisors)


@contract('commander:ApplicationStartJobs.distribute_to_single_instance', props=['C14', 'C04'])
class DistributeToSingleInstance:
    """C14: 'For an application whose distribution is SINGLE_INSTANCE all its started processes are sent to one instance
    able to carry the whole start sequence, ... the program identifiers rule being replaced by the application's';
    C04: that instance is seen RUNNING, knows and enables every program, is permitted by the application's rule."""
    raises = ()
    variants = ['ApplicationStartJobs']

    def modifies(self):
        """frame at field granularity: the three target fields of commands (of any command: the loop frame is not
        narrowed to the commands of the plan) and the selection of the job"""
        return [field(self, 'identifiers'), whole('F:identifier:'), whole('F:instance_status:'), whole('F:_wait_ticks:')]

    def pre_placement(self):
        return distribution_pre(self)

    def pre_plan(self):
        return plan_wf(self)

    def post_one_instance_or_nothing(self, old):
        """either a new one-element selection, or nothing at all is changed"""
        return ((was_fresh(self.identifiers) and len(self.identifiers) == 1)
                or (self.identifiers is old.self.identifiers and unchanged()))

    def post_all_commands_on_it(self):
        """'all its started processes are sent to one instance'"""
        return implies(was_fresh(self.identifiers), every_planned(self, lambda c: (
            c.identifier == self.identifiers[0]
            and c.instance_status is self.supvisors.context.instances[self.identifiers[0]])))

    def post_target_eligible(self):
        """C04 eligibility with 'the program identifiers rule being replaced by the application's'"""
        t = self.identifiers[0]
        return implies(was_fresh(self.identifiers),
                       is_running(self.supvisors, t)
                       and rule_permits(self.supvisors.mapper, self.application.rules.identifiers, t)
                       and all_know_and_enable(self.application, t))

    def post_carries_the_whole_start_sequence(self):
        """'one instance able to carry the whole start sequence' (over the running load of its node, see module doc)"""
        t = self.identifiers[0]
        return implies(was_fresh(self.identifiers),
                       node_running_load(self.supvisors, t) + self.application.ghost_start_sequence_load <= 100)

    def loop0_inv(self, k, commands, identifier):
        return (forall(int, lambda j: implies(0 <= j and j < len(commands), is_alloc(commands[j])))
                and forall(int, lambda j: implies(0 <= j and j < k, commands[j].identifier == identifier))
                and forall(int, lambda j: implies(0 <= j and j < k, commands[j].instance_status
                                                  is self.supvisors.context.instances[identifier])))

    def loop0_modifies(self):
        return [whole('F:identifier:'), whole('F:instance_status:'), whole('F:_wait_ticks:')]


@contract('commander:ApplicationStartJobs.distribute_to_single_node', props=['C14', 'C04'])
class DistributeToSingleNode:
    """C14: '... and for SINGLE_NODE to instances of one single node, the program identifiers rule being replaced by the
    application's'.  raises = (): C16/C17 - nothing may escape into Starter.next / the XML-RPC start_application."""
    raises = ()
    variants = ['ApplicationStartJobs']

    def modifies(self):
        return [field(self, 'identifiers'), whole('F:identifier:'), whole('F:instance_status:'), whole('F:_wait_ticks:')]

    def pre_placement(self):
        return distribution_pre(self)

    def pre_plan(self):
        return plan_wf(self)

    def post_selection_on_one_node(self):
        """'instances of one single node': the selection is filed under one machine and permitted by the application rule"""
        mapper = self.supvisors.mapper
        return (was_fresh(self.identifiers)
                and (len(self.identifiers) == 0
                     or exists(mapper.nodes, lambda m: forall(self.identifiers, lambda i: i in mapper.nodes[m])))
                and forall(self.identifiers, lambda i: rule_permits(mapper, self.application.rules.identifiers, i)))

    def post_all_commands_in_the_selection(self):
        """'all its started processes are sent ... to instances of one single node'"""
        return implies(len(self.identifiers) > 0, every_planned(self, lambda c: (
            c.identifier in self.identifiers and is_running(self.supvisors, c.identifier))))

    def loop0_inv(self, k, commands):
        return forall(int, lambda j: implies(0 <= j and j < k, commands[j].identifier in self.identifiers
                                             and is_running(self.supvisors, commands[j].identifier)))

    def loop0_modifies(self):
        return [whole('F:identifier:'), whole('F:instance_status:'), whole('F:_wait_ticks:')]


@contract('commander:ApplicationStartJobs.before', props=['C14'])
class Before:
    """dispatch on the distribution rule: SINGLE_NODE / SINGLE_INSTANCE place the whole plan, ALL_INSTANCES leaves every
    command without target (process_job chooses one per process with the PROGRAM's rule)"""
    raises = ()
    variants = ['ApplicationStartJobs']

    def modifies(self):
        return [field(self, 'identifiers'), whole('F:identifier:'), whole('F:instance_status:'), whole('F:_wait_ticks:')]

    def pre_placement(self):
        return distribution_pre(self)

    def pre_plan(self):
        return plan_wf(self)

    def post_all_instances_untouched(self):
        return implies(self.distribution == DistributionRules.ALL_INSTANCES, unchanged())

    def post_single_instance(self):
        return implies(self.distribution == DistributionRules.SINGLE_INSTANCE and was_fresh(self.identifiers),
                       len(self.identifiers) == 1 and every_planned(self, lambda c: c.identifier == self.identifiers[0]))

    def post_single_node(self):
        return implies(self.distribution == DistributionRules.SINGLE_NODE and len(self.identifiers) > 0,
                       every_planned(self, lambda c: c.identifier in self.identifiers))


@contract('commander:ApplicationStartJobs.on_command_added', props=['C14', 'C04'])
class OnCommandAdded:
    """C14: a command added to a job whose application is not distributed stays on the selection made by before()
    ('sent to one instance' / 'to instances of one single node'); C04: RUNNING, node keeps spare load.  Nothing is
    assigned for ALL_INSTANCES or when there is no selection."""
    raises = ()
    variants = ['ApplicationStartJobs']

    def modifies(self, command):
        return [field(command, 'identifier'), field(command, 'instance_status'), field(command, '_wait_ticks')]

    def pre_placement(self, command):
        return distribution_pre(self)

    def pre_command(self, command):
        """call site (ApplicationJobs.add_commands): a start command of a process of the application.  Eligibility
        rely: the selection was made among instances that know the program (SINGLE_INSTANCE: possible_identifiers);
        for SINGLE_NODE this does not hold - see finding C14-single-node-unknown-program - hence no such assumption."""
        return (isinstance(command, ProcessStartCommand) and command.process.supvisors is self.supvisors
                and info_shape(command.process))

    def post_stays_on_the_selection(self, command, old):
        return (command.identifier == old.command.identifier and unchanged()) or (
            self.distribution != DistributionRules.ALL_INSTANCES and command.identifier in self.identifiers
            and is_running(self.supvisors, command.identifier))

    def post_spare_load(self, command, old):
        """C04 cap over the running load of the node (pending requests: see module doc)"""
        return unchanged() or node_running_load(self.supvisors, command.identifier) + command.process.rules.expected_load <= 100
