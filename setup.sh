#!/bin/sh
# Builds the single interpreter used by every check: a Python 3.12 venv layered over /venv (repo deps)
# with the offline wheelhouse's solver/contract tooling. Offline, ~15 s. Idempotent.
set -e
cd "$(dirname "$0")"
V=.venv312
if [ -x "$V/bin/python" ] && "$V/bin/python" -c "import z3, cvc5, supvisors, supervisor" 2>/dev/null; then
  echo "setup: $V already usable"; exit 0
fi
rm -rf "$V"
/venv/bin/python -m venv "$V"
echo "import site; site.addsitedir('/venv/lib/python3.12/site-packages')" > "$V/lib/python3.12/site-packages/_repo_overlay.pth"
PIP_NO_INDEX=1 "$V/bin/python" -m pip install -q --no-index --find-links /opt/veriftools/wheels \
   z3-solver cvc5 crosshair-tool deal icontract hypothesis jsonschema
"$V/bin/python" -c "import z3, cvc5, supvisors, supervisor; print('setup: ok, z3', z3.get_version_string(), 'supvisors from', supvisors.__file__)"
