"""C04 - Start requests only go to eligible instances with spare load (commander / process / application / mapper side).
The strategy-level clauses (validity predicate, RUNNING filter, None iff nobody qualifies) are in c14.py, whose
specification functions (qualifies, fits, node_requests, placement_pre, ...) are reused here.

Abstractions (see also c14.py): the sums are ghost quantities -
  node_requests(mapper, lrm, m)              per machine sum of the request map lrm (NR, a setsum proved on the code)
  Starter.ghost_node_requests[m]             AllPending(m): 'the starts already requested there', over ALL the jobs of the
                                             Starter (the statement's quantity), see GetLoadRequests
"""
from pyvc.spec import *

GROUP = 'strategy'   # contracts of one group use each other's contracts at call sites (pyvc/hooks.py contract_for_call)
from contracts.c14 import *


# --------------------------------------------------------------------------------------------------------------------
# which identifiers a rule permits (meaning of SupvisorsMapper.filter)
def resolves(mapper, name, i):
    """one element `name` of an identifiers rule designates instance i: an identifier, else a nick identifier, else a
    stereotype (the order of the tests in SupvisorsMapper.filter)"""
    return ((name in mapper._instances and i == name)
            or (name not in mapper._instances and name in mapper._nick_identifiers and i == mapper._nick_identifiers[name])
            or (name not in mapper._instances and name not in mapper._nick_identifiers and name in mapper.stereotypes
                and i in mapper.stereotypes[name]))


def rule_permits(mapper, rule, i):
    """C04: 'that the applicable identifiers rule permits': '*' = every known instance, else the resolution of the rule"""
    return (i in mapper._instances) if '*' in rule else exists(rule, lambda name: resolves(mapper, name, i))


@contract('internal_com.mapper:SupvisorsMapper.filter', props=['C04'])
class MapperFilter:
    """ASSUMED (string-level resolution, C18 territory): the instances designated by the elements of the list, without
    duplicates, in the order of the list"""
    assumed = True
    raises = ()

    def modifies(self):
        return []

    def post_members(self, identifier_list, result):
        return forall(str, lambda i: (i in result) == exists(identifier_list, lambda name: resolves(self, name, i)))

    def post_no_duplicates(self, result):
        return forall(int, int, lambda a, b: implies(0 <= a and a < b and b < len(result), result[a] != result[b]))

    def post_fresh(self, result):
        return was_fresh(result)


def knows_and_enabled(process, i):
    """C04: 'whose Supervisor knows the program and has it enabled'"""
    return i in process.info_map and not process.info_map[i]['disabled']


def info_shape(process):
    """payload shape: every per-instance info carries the keys read here (REC_KEYS; checked at run time)"""
    return forall(process.info_map, lambda i: 'disabled' in process.info_map[i] and 'startsecs' in process.info_map[i])


@contract('process:ProcessStatus.possible_identifiers', props=['C04'])
class ProcessPossibleIdentifiers:
    """C04 / DESIGN C04.3: 'exactly the identifiers permitted by the rule ('*' -> all mapper instances, else
    mapper.filter(rule)) that are in info_map (the Supervisor knows the program) and not disabled there'"""
    raises = ()

    def modifies(self):
        return []

    def pre_shape(self):
        return info_shape(self)

    def post_exactly(self, result):
        return forall(str, lambda i: (i in result) == (rule_permits(self.supvisors.mapper, self.rules.identifiers, i)
                                                       and knows_and_enabled(self, i)))

    def post_fresh(self, result):
        return was_fresh(result)


# --------------------------------------------------------------------------------------------------------------------
# the single emission site
@contract('internal_com.rpchandler:RpcHandler.send_start_process', props=['C04'])
class SendStartProcess:
    """ASSUMED transport: queues the request for the proxy thread of `identifier`; recorded in the ghost effect log"""
    assumed = True
    raises = ()
    effect = 'send_start_process'

    def modifies(self):
        return []


@contract('commander:ProcessStartCommand.start', props=['C04'])
class StartCommandStart:
    """the one call site of rpc_handler.send_start_process (structural scan, pyvc/structural_c04.py): exactly one request,
    for this process, to the instance recorded in the command"""
    raises = ()
    effect = 'start_command'

    def modifies(self):
        return [field(self, 'request_sequence_counter')]

    def pre_target(self):
        return self.identifier is not None and self.instance_status is not None

    def post_one_request_to_the_target(self):
        return (count_effects('send_start_process') == 1
                and effect_at('send_start_process', 0)[0] == self.identifier
                and effect_at('send_start_process', 0)[1] == self.process.namespec)


@contract('commander:ApplicationJobs.fail_command', props=['C04'])
class FailCommand:
    """ASSUMED: forces the failure state through the listener (published to all instances, fed back to the state machine).
    No frame is given: the re-entrant event handling may change anything (the callers below use nothing afterwards but
    the ghost effect log)."""
    assumed = True
    raises = ()
    effect = 'fail_command'


def all_pending(supvisors, m):
    """AllPending(m): 'plus the starts already requested there' - load of every start already requested and not yet
    running on machine m, over ALL the application jobs of the Starter (abstract, see GetLoadRequests)"""
    return supvisors.starter.ghost_node_requests[m]


def pending_on(command, i):
    """the command counts for instance i: 'starts already requested there' and not yet running - it has that (non-empty)
    target and its process is still stopped (a process that is not stopped is counted by the instance load)"""
    return (command.identifier is not None and command.identifier != '' and command.identifier == i
            and command.process._state in STOPPED_STATES)


def pending(command):
    return (command.identifier is not None and command.identifier != ''
            and command.process._state in STOPPED_STATES)


def has_target(command):
    return command.identifier is not None and command.identifier != ''


def loads_not_negative(jobs):
    """shape: expected_load is in 0..100 (range check of the rules parser, C18 load_expected_loading)"""
    return (forall(jobs.current_jobs, lambda c: c.process.rules.expected_load >= 0)
            and forall(jobs.planned_jobs, lambda s: forall(jobs.planned_jobs[s], lambda c: c.process.rules.expected_load >= 0)))


def targets_identified(jobs):
    """rely: ProcessStartCommand.update_identifier is the only writer of a command's target and is only called with an
    instance that get_supvisors_instance returned, i.e. that was RUNNING, hence identified, when chosen; identification is
    never undone (mapper.identify only adds)"""
    return (forall(jobs.current_jobs, lambda c: implies(has_target(c), mapper_knows(jobs.supvisors, c.identifier)))
            and forall(jobs.planned_jobs, lambda s: forall(jobs.planned_jobs[s], lambda c: implies(
                has_target(c), mapper_knows(jobs.supvisors, c.identifier)))))


@contract('commander:ApplicationStartJobs.get_load_requests', props=['C04', 'C14'])
class GetLoadRequests:
    """Call-site facet (VERIFIED; the accounting clauses - domain, lower bounds - are proved on the same code in
    contracts/c04_loadreq.py, kept apart so that the callers' proofs only carry what they use): the result is a fresh map
    whose keys are targets of commands of this job, hence - under the callers' rely - identified instances, which is what
    get_supvisors_instance / get_node_load_request_map require of a request map."""
    raises = ()
    types = {'load_request_map': 'Dict[str, List[int]]'}

    def modifies(self):
        return []

    def post_keys_identified(self, result):
        return implies(targets_identified(self), forall(result, lambda i: mapper_knows(self.supvisors, i)))

    def post_fresh(self, result):
        return was_fresh(result)

    def loop0_inv(self, k, seq, load_request_map):
        return (was_fresh(load_request_map)
                and forall(load_request_map, lambda i: was_fresh(load_request_map[i]) and is_alloc(load_request_map[i])
                           and load_request_map[i] is not seq)
                and forall(load_request_map, lambda i: exists(int, lambda j: 0 <= j and j < k and pending_on(seq[j], i))))

    def loop0_modifies(self, load_request_map, seq):
        return [contents(load_request_map), contents_where(lambda r: was_fresh(r) and r is not seq, 'list')]


def node_load_all(supvisors, i):
    """the statement's node load of the machine of instance i: running load plus ALL the starts already requested"""
    m = machine_of(supvisors, i)
    return (supvisors.context.ghost_node_load[m] + all_pending(supvisors, m)) if m in supvisors.mapper.nodes else 0


@contract('commander:ApplicationStartJobs.process_job', props=['C04'])
class ProcessJob:
    """C04: 'Every start request Supvisors sends for a process goes to an instance that the requester sees RUNNING, whose
    Supervisor knows the program and has it enabled, that the applicable identifiers rule permits ..., and whose node
    load - the expected_loading of everything running on that node plus the starts already requested there - stays at
    or below 100 once the program's expected_loading is added. If no instance qualifies nothing is sent and the process
    is reported FATAL ('No resource available'); a process that is already running ... is not requested again.'"""
    raises = ()
    variants = ['ApplicationStartJobs']

    def pre_placement(self, command):
        return (graph_wf(self.supvisors) and nodes_wf(self.supvisors) and running_are_identified(self.supvisors)
                and self.supvisors.mapper.local_identifier is not None)

    def pre_same_world(self, command):
        return command.process.supvisors is self.supvisors and info_shape(command.process)

    def pre_command_invariant(self, command):
        """ProcessCommand.update_identifier is the only writer of identifier / instance_status and sets both"""
        return (command.identifier is None) == (command.instance_status is None) and command.identifier != ''

    def pre_no_target_yet_when_distributed(self, command):
        """call sites: for ALL_INSTANCES applications nothing assigns a target before process_job (on_command_added and
        before() only do so for restricted distributions) and ApplicationJobs.next hands every command to process_job
        exactly once (it is popped from planned_jobs first)"""
        return implies(self.distribution == DistributionRules.ALL_INSTANCES, command.identifier is None)

    def pre_targets_identified(self, command):
        """the rely that was part of the assumed contract of get_load_requests before it was verified: the targets of the
        commands of this job are identified instances (only read when the placement is done here, i.e. for ALL_INSTANCES
        applications)"""
        return implies(self.distribution == DistributionRules.ALL_INSTANCES, targets_identified(self))

    def post_only_stopped_processes(self, command, result, old):
        """'a process that is already running ... is not requested again'"""
        return implies(not old.command.process._state in STOPPED_STATES, no_effect() and not result)

    def post_at_most_one_request(self, command, result):
        return count_effects('start_command') <= 1 and result == (count_effects('start_command') == 1)

    def post_target_running(self, command):
        """'goes to an instance that the requester sees RUNNING'"""
        return implies(count_effects('start_command') == 1, is_running(self.supvisors, command.identifier))

    def post_target_knows_program(self, command):
        """'whose Supervisor knows the program and has it enabled'"""
        return implies(count_effects('start_command') == 1, knows_and_enabled(command.process, command.identifier))

    def post_target_permitted(self, command):
        """'that the applicable identifiers rule permits (the program's rule, or the application's when its distribution
        is restricted)'"""
        rule = (command.process.rules.identifiers if self.distribution == DistributionRules.ALL_INSTANCES
                else self.application.rules.identifiers)
        return implies(count_effects('start_command') == 1,
                       rule_permits(self.supvisors.mapper, rule, command.identifier))

    # The statement's cap clause - node_load_all(target) + expected_load <= 100, with ALL the starts already requested
    # (AllPending) - is not derivable: the code only bounds the load with the requests of its own application job
    # (GetLoadRequests.post_part_of_all_pending gives own <= all, the wrong direction).  z3 refutes the clause on some
    # paths but not within the budget on all of them (large satisfiable context), so the decisive obligation is the
    # structural one of pyvc/structural_c04.py: the request map handed to get_supvisors_instance must be the Starter-level
    # one.  It is refuted on the pinned tree (finding C04-own-application-requests-only, reproduced natively).

    def post_no_resource(self, command, result, old):
        """'If no instance qualifies nothing is sent and the process is reported FATAL ('No resource available')'"""
        failed = ((effect_at('fail_command', 0)[0] is old.command.process
                   and effect_at('fail_command', 0)[3] == 'No resource available' and not result)
                  if count_effects('fail_command') == 1 else False)
        return implies(old.command.process._state in STOPPED_STATES and count_effects('start_command') == 0, failed)

    def post_request_or_failure(self, command):
        return count_effects('start_command') + count_effects('fail_command') <= 1


# --------------------------------------------------------------------------------------------------------------------
# DESIGN C04.4: the mapper invariant behind get_nodes_load ("per machine, the sum over the SET of its identifiers")
def nodes_duplicate_free(mapper):
    return forall(mapper.nodes, lambda m: forall(int, int, lambda a, b: implies(
        0 <= a and a < b and b < len(mapper.nodes[m]), mapper.nodes[m][a] != mapper.nodes[m][b])))


@contract('internal_com.mapper:LocalNetwork.__init__', props=['C04'])
class LocalNetworkInit:
    """ASSUMED (uuid / socket / network interfaces): initialises the fields of the new object only"""
    assumed = True
    raises = ()

    def modifies(self):
        return [field(self, 'machine_id'), field(self, 'fqdn'), field(self, 'addresses'), field(self, 'logger')]


@contract('internal_com.mapper:LocalNetwork.from_payload', props=['C04'])
class LocalNetworkFromPayload:
    """ASSUMED for the address part: 'Take the address information as it is' - the machine id is the payload's"""
    assumed = True
    raises = ()

    def modifies(self):
        return [field(self, 'machine_id'), field(self, 'fqdn'), field(self, 'addresses')]

    def post_machine_id(self, payload):
        return 'machine_id' in payload and self.machine_id == payload['machine_id']


@contract('internal_com.mapper:LocalNetwork.from_network', props=['C04'])
class LocalNetworkFromNetwork:
    """ASSUMED for the address part (socket.getfqdn): the machine id is copied from the remote view"""
    assumed = True
    raises = ()
    types = {'network': 'LocalNetwork'}

    def modifies(self):
        return [field(self, 'machine_id'), field(self, 'fqdn'), field(self, 'addresses')]

    def post_machine_id(self, network):
        return self.machine_id == network.machine_id


@contract('internal_com.mapper:SupvisorsMapper._assign_stereotypes', props=['C04'])
class AssignStereotypes:
    """ASSUMED frame: only the stereotype tables change (self.stereotypes, the stereotypes of the instance id and the lists
    held by self.stereotypes); in particular no list filed in mapper.nodes is touched.  The lists held by the stereotype
    table are not described (this contract is only meant for the proof about mapper.nodes)."""
    assumed = True
    raises = ()
    types = {'stereotypes': 'List[str]'}

    def modifies(self, identifier):
        return [contents(self.stereotypes), field(self._instances[identifier], 'stereotypes')]


@contract('internal_com.mapper:SupvisorsMapper.identify', props=['C04'])
class MapperIdentify:
    """DESIGN C04.4: 'needs the mapper invariant "nodes[m] is duplicate-free", proved over identify' (the only writer of
    mapper.nodes, structural scan).  Statement: node load = 'the expected_loading of everything running on that node'
    - counted once."""
    raises = ()

    def pre_payload(self, payload):
        return ('identifier' in payload and 'network' in payload and 'stereotypes' in payload
                and payload['identifier'] in self._instances
                and self._instances[payload['identifier']].identifier == payload['identifier'])

    def pre_invariant(self):
        return nodes_duplicate_free(self)

    def pre_distinct_tables(self):
        """the node table and the stereotype table are two dict objects (created separately by the constructor)"""
        return self.nodes is not self.stereotypes

    def post_invariant_for_the_machine(self, payload):
        """the list of the machine the instance is filed under stays duplicate-free"""
        m = self._instances[payload['identifier']].remote_view.machine_id
        return implies(m in self.nodes,
                       forall(int, int, lambda a, b: implies(0 <= a and a < b and b < len(self.nodes[m]),
                                                             self.nodes[m][a] != self.nodes[m][b])))

    def post_filed_once(self, payload, old):
        """the invariant survives the append iff a handshake of an instance that is already filed under its machine does
        not add a second entry (stated in this quantifier-light form so that the solver decides it either way)"""
        ident = payload['identifier']
        m = self._instances[ident].remote_view.machine_id
        return implies(m in old.self.nodes and ident in old.self.nodes[m],
                       len(self.nodes[m]) == len(old.self.nodes[m]))
