"""C06 - Running failure strategies are applied once, by the Master, with precedence.

Abstract view of a RunningFailureHandler h: SA = h.stop_application_jobs, RA = h.restart_application_jobs (sets of
ApplicationStatus), RP = h.restart_process_jobs, CP = h.continue_process_jobs (sets of ProcessStatus).
'process p of application a' is what the code tests: p.application_name == a.application_name.
seq(a, p) = p is in the start sequence of a (a.start_sequence[s] for some s > 0) = get_start_sequenced_processes().
"""
from pyvc.spec import *

GROUP = 'conflicts'   # contracts of one group use each other's contracts at call sites (pyvc/hooks.py contract_for_call)


# ------------------------------------------------------------------------------------------ abstract view
def sequenced(a, p):
    """p in a.get_start_sequenced_processes(), over the raw field"""
    return exists(int, lambda s: s > 0 and s in a.start_sequence and p in a.start_sequence[s])


def of_app(p, a):
    return p.application_name == a.application_name


def registered(h, a):
    """a is THE application the context knows under its name (add_job always looks applications up by name)"""
    return (a.application_name in h.supvisors.context.applications
            and h.supvisors.context.applications[a.application_name] is a)


def sequences_exist(h):
    """shape validity (no assumption on the code): the sub-sequence lists of the applications of the context exist, i.e.
    none of them is a list allocated later by the function under proof.  The engine only knows 'allocated now' for a
    value it reads after an allocation, hence the explicit statement."""
    return forall(h.supvisors.context.applications.values(), lambda a: forall(int, lambda s: implies(
        s in a.start_sequence, is_alloc(a.start_sequence[s]))))


# ------------------------------------------------------------------------------------------ object invariant I06
def I06_structure(h):
    """the four job sets are distinct objects; applications held are the registered ones"""
    return (h.stop_application_jobs is not h.restart_application_jobs
            and h.restart_process_jobs is not h.continue_process_jobs
            and h.stop_application_jobs is not h.restart_process_jobs
            and h.stop_application_jobs is not h.continue_process_jobs
            and h.restart_application_jobs is not h.restart_process_jobs
            and h.restart_application_jobs is not h.continue_process_jobs
            and forall(h.stop_application_jobs, lambda a: registered(h, a))
            and forall(h.restart_application_jobs, lambda a: registered(h, a)))


def I06_stop_app_excludes(h):
    """statement: precedence STOP_APPLICATION > RESTART_APPLICATION > RESTART_PROCESS > CONTINUE"""
    return (forall(h.stop_application_jobs, lambda a: a not in h.restart_application_jobs)
            and forall(h.stop_application_jobs, h.restart_process_jobs, lambda a, p: not of_app(p, a))
            and forall(h.stop_application_jobs, h.continue_process_jobs, lambda a, p: not of_app(p, a)))


def I06_restart_app_excludes(h):
    """RESTART_APPLICATION > RESTART_PROCESS > CONTINUE for the processes the application restart covers"""
    return (forall(h.restart_application_jobs, h.restart_process_jobs,
                   lambda a, p: not (of_app(p, a) and sequenced(a, p)))
            and forall(h.restart_application_jobs, h.continue_process_jobs,
                       lambda a, p: not (of_app(p, a) and sequenced(a, p))))


def I06_restart_proc_excludes(h):
    """RESTART_PROCESS > CONTINUE"""
    return forall(h.restart_process_jobs, lambda p: p not in h.continue_process_jobs)


def I06(h):
    return I06_structure(h) and I06_stop_app_excludes(h) and I06_restart_app_excludes(h) and I06_restart_proc_excludes(h)


def job_sets(h):
    return [contents(h.stop_application_jobs), contents(h.restart_application_jobs),
            contents(h.restart_process_jobs), contents(h.continue_process_jobs)]


def same_apps(s, old_s):
    return forall(ApplicationStatus, lambda a: (a in s) == (a in old_s))


def same_procs(s, old_s):
    return forall(ProcessStatus, lambda p: (p in s) == (p in old_s))


def nothing_changed(h, old_h):
    return (same_apps(h.stop_application_jobs, old_h.stop_application_jobs)
            and same_apps(h.restart_application_jobs, old_h.restart_application_jobs)
            and same_procs(h.restart_process_jobs, old_h.restart_process_jobs)
            and same_procs(h.continue_process_jobs, old_h.continue_process_jobs))


@contract('application:ApplicationStatus.get_start_sequenced_processes', props=['C06'])
class GetStartSequencedProcesses:
    """'the process is in its start sequence': the processes of the sub-sequences with a strictly positive rank"""
    raises = ()
    pure = True

    def modifies(self):
        return []

    def post_definition(self, result):
        return forall(ProcessStatus, lambda p: (p in result) == sequenced(self, p))


# ------------------------------------------------------------------------------------------ add_* (data structure)
@contract('strategy:RunningFailureHandler.add_stop_application_job', props=['C06'])
class AddStopApplicationJob:
    """statement: 'a single action is taken with precedence STOP_APPLICATION > RESTART_APPLICATION > RESTART_PROCESS
    > CONTINUE': the application enters SA, leaves RA, and every process job of the application is dropped."""
    raises = ()

    def modifies(self, application):
        return job_sets(self)

    def pre_invariant(self, application):
        return I06(self) and registered(self, application)

    def pre_shape(self):
        return sequences_exist(self)

    def post_invariant(self):
        return I06(self)

    def post_stop_application(self, application, old):
        return forall(ApplicationStatus, lambda a: (a in self.stop_application_jobs) == (
            a is application or a in old.self.stop_application_jobs))

    def post_restart_application(self, application, old):
        return forall(ApplicationStatus, lambda a: (a in self.restart_application_jobs) == (
            a is not application and a in old.self.restart_application_jobs))

    def post_restart_process(self, application, old):
        return forall(ProcessStatus, lambda p: (p in self.restart_process_jobs) == (
            p in old.self.restart_process_jobs and not of_app(p, application)))

    def post_continue_process(self, application, old):
        return forall(ProcessStatus, lambda p: (p in self.continue_process_jobs) == (
            p in old.self.continue_process_jobs and not of_app(p, application)))

    def loop1_inv(self, application, job_set, k, loop_items, loop_old):
        """job_set = entry ∖ {the first k elements enumerated that belong to the application}"""
        return (forall(job_set, lambda p: p in loop_old.job_set)
                and forall(loop_old.job_set, lambda p: implies(p not in job_set, of_app(p, application)))
                and forall(int, lambda j: implies(0 <= j and j < k and of_app(loop_items[j], application),
                                                  loop_items[j] not in job_set)))

    def loop1_modifies(self, job_set):
        return [contents(job_set)]


@contract('strategy:RunningFailureHandler.add_restart_application_job', props=['C06'])
class AddRestartApplicationJob:
    """RESTART_APPLICATION is superseded by a pending STOP_APPLICATION; otherwise it supersedes the process jobs of the
    processes it will restart (those of the application start sequence)."""
    raises = ()

    def modifies(self, application):
        return job_sets(self)

    def pre_invariant(self, application):
        return I06(self) and registered(self, application)

    def pre_shape(self):
        return sequences_exist(self)

    def post_invariant(self):
        return I06(self)

    def post_superseded_by_stop(self, application, old):
        return implies(application in old.self.stop_application_jobs, nothing_changed(self, old.self))

    def post_stop_application_untouched(self, old):
        return same_apps(self.stop_application_jobs, old.self.stop_application_jobs)

    def post_restart_application(self, application, old):
        return implies(application not in old.self.stop_application_jobs,
                       forall(ApplicationStatus, lambda a: (a in self.restart_application_jobs) == (
                           a is application or a in old.self.restart_application_jobs)))

    # RP' = RP minus the start-sequenced processes of the application; CP likewise (three inclusions = set equality);
    # the start sequence is read in the entry state (old.application): the function does not modify it (frame)
    def post_restart_process_subset(self, application, old):
        return forall(self.restart_process_jobs, lambda p: p in old.self.restart_process_jobs)

    def post_restart_process_removed(self, application, old):
        return forall(old.self.restart_process_jobs, lambda p: implies(
            p not in self.restart_process_jobs,
            application not in old.self.stop_application_jobs and of_app(p, application) and sequenced(old.application, p)))

    def post_restart_process_kept(self, application, old):
        return forall(old.self.restart_process_jobs, lambda p: implies(
            application not in old.self.stop_application_jobs and of_app(p, application) and sequenced(old.application, p),
            p not in self.restart_process_jobs))

    def post_continue_process_subset(self, application, old):
        return forall(self.continue_process_jobs, lambda p: p in old.self.continue_process_jobs)

    def post_continue_process_removed(self, application, old):
        return forall(old.self.continue_process_jobs, lambda p: implies(
            p not in self.continue_process_jobs,
            application not in old.self.stop_application_jobs and of_app(p, application) and sequenced(old.application, p)))

    def post_continue_process_kept(self, application, old):
        return forall(old.self.continue_process_jobs, lambda p: implies(
            application not in old.self.stop_application_jobs and of_app(p, application) and sequenced(old.application, p),
            p not in self.continue_process_jobs))

    def loop1_inv(self, application, job_set, sequenced_processes, k, loop_items, loop_old):
        return (forall(job_set, lambda p: p in loop_old.job_set)
                and forall(loop_old.job_set, lambda p: implies(
                    p not in job_set, of_app(p, application) and p in sequenced_processes))
                and forall(int, lambda j: implies(
                    0 <= j and j < k and of_app(loop_items[j], application) and loop_items[j] in sequenced_processes,
                    loop_items[j] not in job_set))
                and forall(int, lambda j: implies(k <= j and j < len(loop_items), loop_items[j] in job_set)))

    def loop1_modifies(self, job_set):
        return [contents(job_set)]


@contract('strategy:RunningFailureHandler.add_restart_process_job', props=['C06'])
class AddRestartProcessJob:
    """RESTART_PROCESS is superseded by STOP_APPLICATION, and by RESTART_APPLICATION when the process is in the start
    sequence; it supersedes CONTINUE."""
    raises = ()

    def modifies(self, application, process):
        return job_sets(self)

    def pre_invariant(self, application, process):
        return I06(self) and registered(self, application) and of_app(process, application)

    def post_invariant(self):
        return I06(self)

    def post_applications_untouched(self, old):
        return (same_apps(self.stop_application_jobs, old.self.stop_application_jobs)
                and same_apps(self.restart_application_jobs, old.self.restart_application_jobs))

    def post_precedence(self, application, process, old):
        superseded = (application in old.self.stop_application_jobs
                      or (application in old.self.restart_application_jobs and sequenced(application, process)))
        return ite(superseded,
                   nothing_changed(self, old.self),
                   forall(ProcessStatus, lambda p: ((p in self.restart_process_jobs) == (
                       p is process or p in old.self.restart_process_jobs))
                       and ((p in self.continue_process_jobs) == (
                           p is not process and p in old.self.continue_process_jobs))))


@contract('strategy:RunningFailureHandler.add_continue_process_job', props=['C06'])
class AddContinueProcessJob:
    """CONTINUE has the lowest precedence: superseded by any other job covering the process."""
    raises = ()

    def modifies(self, application, process):
        return job_sets(self)

    def pre_invariant(self, application, process):
        return I06(self) and registered(self, application) and of_app(process, application)

    def post_invariant(self):
        return I06(self)

    def post_others_untouched(self, old):
        return (same_apps(self.stop_application_jobs, old.self.stop_application_jobs)
                and same_apps(self.restart_application_jobs, old.self.restart_application_jobs)
                and same_procs(self.restart_process_jobs, old.self.restart_process_jobs))

    def post_precedence(self, application, process, old):
        superseded = (application in old.self.stop_application_jobs
                      or (application in old.self.restart_application_jobs and sequenced(application, process))
                      or process in old.self.restart_process_jobs)
        return forall(ProcessStatus, lambda p: (p in self.continue_process_jobs) == (
            p in old.self.continue_process_jobs or (p is process and not superseded)))


# ------------------------------------------------------------------------------------------ add_job / add_default_job
def context_knows(h, p):
    """Context validity at the call sites: every ProcessStatus handed to the handler belongs to an application stored in
    context.applications under its own name (Context.setdefault_application / setdefault_process)"""
    return (p.application_name in h.supvisors.context.applications
            and h.supvisors.context.applications[p.application_name].application_name == p.application_name)


def app_of(h, p):
    return h.supvisors.context.applications[p.application_name]


def covered(h, p, strategy):
    """the failure of p is taken in charge by exactly the job the precedence rule designates, or by a stronger one"""
    a = app_of(h, p)
    by_stop = a in h.stop_application_jobs
    by_restart_app = a in h.restart_application_jobs
    by_restart_proc = p in h.restart_process_jobs
    by_continue = p in h.continue_process_jobs
    return ite(strategy == RunningFailureStrategies.STOP_APPLICATION, by_stop,
               ite(strategy == RunningFailureStrategies.RESTART_APPLICATION, by_stop or by_restart_app,
                   ite(strategy == RunningFailureStrategies.RESTART_PROCESS,
                       by_stop or (by_restart_app and sequenced(a, p)) or by_restart_proc,
                       ite(strategy == RunningFailureStrategies.CONTINUE,
                           by_stop or (by_restart_app and sequenced(a, p)) or by_restart_proc or by_continue,
                           True))))


def only_grows_by_precedence(h, old_h):
    """no job disappears without a stronger job of its application taking over (nothing is forgotten by an add)"""
    return (forall(old_h.stop_application_jobs, lambda a: a in h.stop_application_jobs)
            and forall(old_h.restart_application_jobs,
                       lambda a: a in h.restart_application_jobs or a in h.stop_application_jobs))


@contract('strategy:RunningFailureHandler.add_job', props=['C06'])
class AddJob:
    """statement: 'a single action is taken with precedence STOP_APPLICATION > RESTART_APPLICATION > RESTART_PROCESS >
    CONTINUE'"""
    raises = ()
    types = {'strategy': 'RunningFailureStrategies', 'process': 'ProcessStatus'}

    def modifies(self, strategy, process):
        return job_sets(self)

    def pre_invariant(self, process):
        return I06(self) and context_knows(self, process)

    def pre_shape(self):
        return sequences_exist(self)

    def post_invariant(self):
        return I06(self)

    def post_covered(self, strategy, process):
        return covered(self, process, strategy)

    def post_nothing_forgotten(self, old):
        return only_grows_by_precedence(self, old.self)

    def post_process_strategies_keep_applications(self, strategy, old):
        return implies(strategy == RunningFailureStrategies.RESTART_PROCESS or strategy == RunningFailureStrategies.CONTINUE,
                       same_apps(self.stop_application_jobs, old.self.stop_application_jobs)
                       and same_apps(self.restart_application_jobs, old.self.restart_application_jobs))

    def post_not_a_job_strategy(self, strategy, old):
        """RESTART / SHUTDOWN are not handled by the job sets (FiniteStateMachine.on_restart / on_shutdown)"""
        return implies(strategy == RunningFailureStrategies.RESTART or strategy == RunningFailureStrategies.SHUTDOWN,
                       nothing_changed(self, old.self))


@contract('strategy:RunningFailureHandler.add_default_job', props=['C06', 'C05'])
class AddDefaultJob:
    """statement: 'applies to each managed process ... its running_failure_strategy'; 'RESTART_PROCESS becoming
    RESTART_APPLICATION when the application is left fully stopped' (and the process is in its start sequence)"""
    raises = ()
    effect = 'add_default_job'

    def modifies(self, process):
        return job_sets(self)

    def pre_invariant(self, process):
        return I06(self) and context_knows(self, process)

    def pre_shape(self):
        return sequences_exist(self)

    def post_invariant(self):
        return I06(self)

    def post_covered(self, process):
        return covered(self, process, process.rules.running_failure_strategy)

    def post_nothing_forgotten(self, old):
        return only_grows_by_precedence(self, old.self)

    def post_promotion(self, process):
        a = app_of(self, process)
        return implies(process.rules.running_failure_strategy == RunningFailureStrategies.RESTART_PROCESS
                       and a._state == ApplicationStates.STOPPED and sequenced(a, process),
                       (a in self.restart_application_jobs or a in self.stop_application_jobs)
                       and process not in self.restart_process_jobs)

    def post_no_promotion(self, process, old):
        """otherwise a RESTART_PROCESS failure never creates an application job"""
        a = app_of(self, process)
        return implies(process.rules.running_failure_strategy == RunningFailureStrategies.RESTART_PROCESS
                       and not (a._state == ApplicationStates.STOPPED and sequenced(a, process)),
                       same_apps(self.stop_application_jobs, old.self.stop_application_jobs)
                       and same_apps(self.restart_application_jobs, old.self.restart_application_jobs))
