"""C06 - Running failure strategies are applied once, by the Master, with precedence.

Abstract view of a RunningFailureHandler h: SA = h.stop_application_jobs, RA = h.restart_application_jobs (sets of
ApplicationStatus), RP = h.restart_process_jobs, CP = h.continue_process_jobs (sets of ProcessStatus).
'process p of application a' is what the code tests: p.application_name == a.application_name.
seq(a, p) = p is in the start sequence of a (a.start_sequence[s] for some s > 0) = get_start_sequenced_processes().
"""
from pyvc.spec import *


# ------------------------------------------------------------------------------------------ abstract view
def sequenced(a, p):
    """p in a.get_start_sequenced_processes(), over the raw field"""
    return exists(int, lambda s: s > 0 and s in a.start_sequence and p in a.start_sequence[s])


def of_app(p, a):
    return p.application_name == a.application_name


def registered(h, a):
    """a is THE application the context knows under its name (add_job always looks applications up by name)"""
    return (a.application_name in h.supvisors.context.applications
            and h.supvisors.context.applications[a.application_name] is a)


# ------------------------------------------------------------------------------------------ object invariant I06
def I06_structure(h):
    """the four job sets are distinct objects; applications held are the registered ones"""
    return (h.stop_application_jobs is not h.restart_application_jobs
            and h.restart_process_jobs is not h.continue_process_jobs
            and h.stop_application_jobs is not h.restart_process_jobs
            and h.stop_application_jobs is not h.continue_process_jobs
            and h.restart_application_jobs is not h.restart_process_jobs
            and h.restart_application_jobs is not h.continue_process_jobs
            and forall(h.stop_application_jobs, lambda a: registered(h, a))
            and forall(h.restart_application_jobs, lambda a: registered(h, a)))


def I06_stop_app_excludes(h):
    """statement: precedence STOP_APPLICATION > RESTART_APPLICATION > RESTART_PROCESS > CONTINUE"""
    return forall(h.stop_application_jobs, lambda a: (
        a not in h.restart_application_jobs
        and forall(h.restart_process_jobs, lambda p: not of_app(p, a))
        and forall(h.continue_process_jobs, lambda p: not of_app(p, a))))


def I06_restart_app_excludes(h):
    """RESTART_APPLICATION > RESTART_PROCESS > CONTINUE for the processes the application restart covers"""
    return forall(h.restart_application_jobs, lambda a: (
        forall(h.restart_process_jobs, lambda p: not (of_app(p, a) and sequenced(a, p)))
        and forall(h.continue_process_jobs, lambda p: not (of_app(p, a) and sequenced(a, p)))))


def I06_restart_proc_excludes(h):
    """RESTART_PROCESS > CONTINUE"""
    return forall(h.restart_process_jobs, lambda p: p not in h.continue_process_jobs)


def I06(h):
    return I06_structure(h) and I06_stop_app_excludes(h) and I06_restart_app_excludes(h) and I06_restart_proc_excludes(h)


def job_sets(h):
    return [contents(h.stop_application_jobs), contents(h.restart_application_jobs),
            contents(h.restart_process_jobs), contents(h.continue_process_jobs)]


def same_apps(s, old_s):
    return forall(ApplicationStatus, lambda a: (a in s) == (a in old_s))


def same_procs(s, old_s):
    return forall(ProcessStatus, lambda p: (p in s) == (p in old_s))


def nothing_changed(h, old_h):
    return (same_apps(h.stop_application_jobs, old_h.stop_application_jobs)
            and same_apps(h.restart_application_jobs, old_h.restart_application_jobs)
            and same_procs(h.restart_process_jobs, old_h.restart_process_jobs)
            and same_procs(h.continue_process_jobs, old_h.continue_process_jobs))


@contract('application:ApplicationStatus.get_start_sequenced_processes', props=['C06'])
class GetStartSequencedProcesses:
    """'the process is in its start sequence': the processes of the sub-sequences with a strictly positive rank"""
    raises = ()
    pure = True

    def modifies(self):
        return []

    def post_definition(self, result):
        return forall(ProcessStatus, lambda p: (p in result) == sequenced(self, p))


# ------------------------------------------------------------------------------------------ add_* (data structure)
@contract('strategy:RunningFailureHandler.add_stop_application_job', props=['C06'])
class AddStopApplicationJob:
    """statement: 'a single action is taken with precedence STOP_APPLICATION > RESTART_APPLICATION > RESTART_PROCESS
    > CONTINUE': the application enters SA, leaves RA, and every process job of the application is dropped."""
    raises = ()

    def modifies(self, application):
        return job_sets(self)

    def pre_invariant(self, application):
        return I06(self) and registered(self, application)

    def post_invariant(self):
        return I06(self)

    def post_stop_application(self, application, old):
        return forall(ApplicationStatus, lambda a: (a in self.stop_application_jobs) == (
            a is application or a in old.self.stop_application_jobs))

    def post_restart_application(self, application, old):
        return forall(ApplicationStatus, lambda a: (a in self.restart_application_jobs) == (
            a is not application and a in old.self.restart_application_jobs))

    def post_restart_process(self, application, old):
        return forall(ProcessStatus, lambda p: (p in self.restart_process_jobs) == (
            p in old.self.restart_process_jobs and not of_app(p, application)))

    def post_continue_process(self, application, old):
        return forall(ProcessStatus, lambda p: (p in self.continue_process_jobs) == (
            p in old.self.continue_process_jobs and not of_app(p, application)))

    def loop1_inv(self, application, job_set, k, loop_items, loop_old):
        """job_set = entry ∖ {the first k elements enumerated that belong to the application}"""
        return (forall(job_set, lambda p: p in loop_old.job_set)
                and forall(loop_old.job_set, lambda p: implies(p not in job_set, of_app(p, application)))
                and forall(int, lambda j: implies(0 <= j and j < k and of_app(loop_items[j], application),
                                                  loop_items[j] not in job_set)))

    def loop1_modifies(self, job_set):
        return [contents(job_set)]


@contract('strategy:RunningFailureHandler.add_restart_application_job', props=['C06'])
class AddRestartApplicationJob:
    """RESTART_APPLICATION is superseded by a pending STOP_APPLICATION; otherwise it supersedes the process jobs of the
    processes it will restart (those of the application start sequence)."""
    raises = ()

    def modifies(self, application):
        return job_sets(self)

    def pre_invariant(self, application):
        return I06(self) and registered(self, application)

    def post_invariant(self):
        return I06(self)

    def post_superseded_by_stop(self, application, old):
        return implies(application in old.self.stop_application_jobs, nothing_changed(self, old.self))

    def post_stop_application_untouched(self, old):
        return same_apps(self.stop_application_jobs, old.self.stop_application_jobs)

    def post_restart_application(self, application, old):
        return implies(application not in old.self.stop_application_jobs,
                       forall(ApplicationStatus, lambda a: (a in self.restart_application_jobs) == (
                           a is application or a in old.self.restart_application_jobs)))

    def post_restart_process(self, application, old):
        return implies(application not in old.self.stop_application_jobs,
                       forall(ProcessStatus, lambda p: (p in self.restart_process_jobs) == (
                           p in old.self.restart_process_jobs
                           and not (of_app(p, application) and sequenced(application, p)))))

    def post_continue_process(self, application, old):
        return implies(application not in old.self.stop_application_jobs,
                       forall(ProcessStatus, lambda p: (p in self.continue_process_jobs) == (
                           p in old.self.continue_process_jobs
                           and not (of_app(p, application) and sequenced(application, p)))))

    def loop1_inv(self, application, job_set, sequenced_processes, k, loop_items, loop_old):
        return (forall(job_set, lambda p: p in loop_old.job_set)
                and forall(loop_old.job_set, lambda p: implies(
                    p not in job_set, of_app(p, application) and p in sequenced_processes))
                and forall(int, lambda j: implies(
                    0 <= j and j < k and of_app(loop_items[j], application) and loop_items[j] in sequenced_processes,
                    loop_items[j] not in job_set)))

    def loop1_modifies(self, job_set):
        return [contents(job_set)]


@contract('strategy:RunningFailureHandler.add_restart_process_job', props=['C06'])
class AddRestartProcessJob:
    """RESTART_PROCESS is superseded by STOP_APPLICATION, and by RESTART_APPLICATION when the process is in the start
    sequence; it supersedes CONTINUE."""
    raises = ()

    def modifies(self, application, process):
        return job_sets(self)

    def pre_invariant(self, application, process):
        return I06(self) and registered(self, application) and of_app(process, application)

    def post_invariant(self):
        return I06(self)

    def post_applications_untouched(self, old):
        return (same_apps(self.stop_application_jobs, old.self.stop_application_jobs)
                and same_apps(self.restart_application_jobs, old.self.restart_application_jobs))

    def post_precedence(self, application, process, old):
        superseded = (application in old.self.stop_application_jobs
                      or (application in old.self.restart_application_jobs and sequenced(application, process)))
        return ite(superseded,
                   nothing_changed(self, old.self),
                   forall(ProcessStatus, lambda p: ((p in self.restart_process_jobs) == (
                       p is process or p in old.self.restart_process_jobs))
                       and ((p in self.continue_process_jobs) == (
                           p is not process and p in old.self.continue_process_jobs))))


@contract('strategy:RunningFailureHandler.add_continue_process_job', props=['C06'])
class AddContinueProcessJob:
    """CONTINUE has the lowest precedence: superseded by any other job covering the process."""
    raises = ()

    def modifies(self, application, process):
        return job_sets(self)

    def pre_invariant(self, application, process):
        return I06(self) and registered(self, application) and of_app(process, application)

    def post_invariant(self):
        return I06(self)

    def post_others_untouched(self, old):
        return (same_apps(self.stop_application_jobs, old.self.stop_application_jobs)
                and same_apps(self.restart_application_jobs, old.self.restart_application_jobs)
                and same_procs(self.restart_process_jobs, old.self.restart_process_jobs))

    def post_precedence(self, application, process, old):
        superseded = (application in old.self.stop_application_jobs
                      or (application in old.self.restart_application_jobs and sequenced(application, process))
                      or process in old.self.restart_process_jobs)
        return forall(ProcessStatus, lambda p: (p in self.continue_process_jobs) == (
            p in old.self.continue_process_jobs or (p is process and not superseded)))
