"""Assumed (NOT verified here) contracts of the Starter / Stopper entry points the conciliation strategies and the
RunningFailureHandler call (DESIGN 1.7: these calls are recorded in the ghost effect log).  They belong to C03 / C09 /
C10 (planning and sequencing of the requests).  Frame assumption, reported in the evidence of C05 / C06: the entry
points only write Commander-owned structures (planned_jobs / current_jobs / deferred start requests, the
ApplicationJobs and ProcessCommand objects), never the RunningFailureHandler job sets, the Context maps or the
ProcessStatus reports, which is all the C05 / C06 contracts read after such a call."""
from pyvc.spec import *

GROUP = 'conflicts'   # contracts of one group use each other's contracts at call sites (pyvc/hooks.py contract_for_call)


@contract('commander:Stopper.stop_process', props=[])
class StopProcess:
    """plans stop commands for `process` on running_identifiers ∩ identifiers (all of them when identifiers is None)"""
    assumed = True
    effect = 'stop_process'
    raises = ()

    def modifies(self, process, identifiers, trigger):
        return []


@contract('commander:Stopper.default_restart_process', props=[])
class DefaultRestartProcess:
    """stops every copy of `process` and defers ONE start (process_start_requests), or starts it when already stopped"""
    assumed = True
    effect = 'default_restart_process'
    raises = ()

    def modifies(self, process, trigger):
        return []


@contract('commander:Stopper.stop_application', props=[])
class StopApplication:
    assumed = True
    effect = 'stop_application'
    raises = ()

    def modifies(self, application, trigger):
        return []


@contract('commander:Stopper.default_restart_application', props=[])
class DefaultRestartApplication:
    assumed = True
    effect = 'default_restart_application'
    raises = ()

    def modifies(self, application, trigger):
        return []


@contract('commander:Commander.next', props=[])
class CommanderNext:
    """triggers the planned jobs (requests are sent from there: C03 / C09)"""
    assumed = True
    effect = 'commander_next'
    raises = ()

    def modifies(self):
        return []


@contract('commander:Commander.get_application_job_names', props=[])
class GetApplicationJobNames:
    """names of the applications having planned or current jobs in this Commander"""
    assumed = True
    raises = ()

    def modifies(self):
        return []

    def post_fresh(self, result):
        return was_fresh(result)


@contract('strategy:RunningFailureHandler.trigger_jobs', props=[])
class TriggerJobs:
    """NOT verified (left undone, see not_decided of C06): jobs whose application has Starter/Stopper jobs are deferred,
    the others leave their set and are handed to the Stopper; only removes elements from the job sets"""
    assumed = True
    effect = 'trigger_jobs'
    raises = ()

    def modifies(self):
        return [contents(self.stop_application_jobs), contents(self.restart_application_jobs),
                contents(self.restart_process_jobs), contents(self.continue_process_jobs)]

    def post_only_removes(self, old):
        return (forall(self.stop_application_jobs, lambda a: a in old.self.stop_application_jobs)
                and forall(self.restart_application_jobs, lambda a: a in old.self.restart_application_jobs)
                and forall(self.restart_process_jobs, lambda p: p in old.self.restart_process_jobs)
                and forall(self.continue_process_jobs, lambda p: p in old.self.continue_process_jobs))
