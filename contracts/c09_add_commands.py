"""C05 / C09 - ApplicationJobs.add_commands: which commands are 'already planned'.

Decision facet (per command of the request, trivial loop invariants): Stopper.stop_process hands over ONE stop command per
instance where the process runs ('stops are only sent to instances where the process is running'; C05: 'STOP, RESTART and
RUNNING_FAILURE on every copy'); a command may only be dropped as 'already planned' when the job already holds a command
for the SAME process AND the SAME target instance - the stop commands of the other copies of the process must all be kept.
"""
from pyvc.spec import *

GROUP = 'commander'   # contracts of one group use each other's contracts at call sites (pyvc/hooks.py contract_for_call)


def same_request(c2, c):
    """c2 asks the same thing as c: same process, same target instance"""
    return c2.process.process_name == c.process.process_name and c2.identifier == c.identifier


def held_in(cur, plan, c):
    """the job (in-flight list cur, plan) already holds a command asking the same thing as c"""
    return (exists(cur, lambda c2: same_request(c2, c))
            or exists(int, lambda s: s in plan and exists(plan[s], lambda c2: same_request(c2, c))))


@contract('commander:ApplicationJobs.add_commands', props=['C05', 'C09'])
class AddStopCommandsDecision:
    """Decision facet of AddStopCommands below (same clause, in the corner shape where a counter-model is small: a job with
    an empty plan; the symmetric clause for a job with nothing in flight is not decided within minutes on a mutant): the stop command of ANOTHER copy of a process that already has
    a stop command in the job is planned."""
    variants = ['ApplicationStopJobs']
    raises = ()
    types = {'jobs': 'Dict[int, List[ProcessCommand]]'}

    def loop0_inv(self, seen, jobs, loop_old):
        return jobs is loop_old.jobs

    def loop1_inv(self, k):
        return k >= 0

    def loop1_iter_other_copy_in_flight_does_not_hide_it(self, k, command, sequence_number, iter_old):
        cur = iter_old(self.current_jobs)
        c = iter_old(command)
        targeted = c.identifier is not None and c.identifier != ''
        return implies(targeted and len(iter_old(self.planned_jobs)) == 0 and not exists(cur, lambda c2: same_request(c2, c)),
                       sequence_number in self.planned_jobs and command in self.planned_jobs[sequence_number])


@contract('commander:ApplicationJobs.add_commands', props=['C05', 'C09'])
class AddStopCommands:
    """C09: 'stops are only sent to instances where the process is running' - to ALL of them (C05: 'on every copy'): a
    stop command of the request is planned (it sits in the group of its sequence number at the end of its iteration)
    unless the job already holds a command for the same process on the same instance."""
    variants = ['ApplicationStopJobs']
    raises = ()
    types = {'jobs': 'Dict[int, List[ProcessCommand]]'}

    def loop0_inv(self, seen, jobs, loop_old):
        return jobs is loop_old.jobs

    def loop1_inv(self, k):
        return k >= 0

    def loop1_iter_planned_unless_same_process_and_instance(self, k, command, sequence_number, iter_old):
        """a ProcessStopCommand gets its target in its constructor (an identifier of process.running_identifiers): the
        clause is about targeted commands (an untargeted start command is matched on the process alone)"""
        cur = iter_old(self.current_jobs)
        plan = iter_old(self.planned_jobs)
        targeted = iter_old(command).identifier is not None and iter_old(command).identifier != ''
        return implies(targeted and not held_in(cur, plan, iter_old(command)),
                       sequence_number in self.planned_jobs and command in self.planned_jobs[sequence_number])

    def loop1_iter_nothing_leaves_the_plan(self, k, iter_old):
        """the commands already planned stay planned, under the same sequence number (a request only ever adds)"""
        plan = iter_old(self.planned_jobs)
        return forall(int, lambda s: implies(s in plan, s in self.planned_jobs
                                             and forall(plan[s], lambda c: c in self.planned_jobs[s])))
