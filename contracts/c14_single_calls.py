"""C14 / C04 - whole-application placement, CALL-SITE facet of ApplicationStartJobs.distribute_to_single_instance: the
placement decision is taken through the VERIFIED contracts of group `strategy` (strategy.get_supvisors_instance,
ApplicationStartJobs.get_load_requests, named in `use_contracts`): their preconditions are proved at the call sites of the
real code (call-pre:), which justifies the lean abstractions of contracts/c14_single.py (decision facet, where breaking
edits are refuted within seconds; here the quantified placement context makes counter-model searches slow).  The
candidate list of ApplicationStatus and the dispatch of update_identifier are the ASSUMED contracts of
contracts/c14_single.py (named in `use_contracts`).
"""
from pyvc.spec import *

GROUP = 'strategy_single_calls'
from contracts.c14_single import *


# --------------------------------------------------------------------------------------------------------------------
def distribution_pre(jobs):
    return (graph_wf(jobs.supvisors) and nodes_wf(jobs.supvisors) and running_are_identified(jobs.supvisors)
            and jobs.supvisors.mapper.local_identifier is not None
            and '' not in jobs.supvisors.context.instances
            and jobs.application.supvisors is jobs.supvisors)


@contract('commander:ApplicationStartJobs.distribute_to_single_instance', props=['C14', 'C04'])
class DistributeToSingleInstanceCalls:
    """C14: 'For an application whose distribution is SINGLE_INSTANCE all its started processes are sent to one instance
    ..., the program identifiers rule being replaced by the application's'; the instance is the one
    strategy.get_supvisors_instance returned for the application's candidates (C04: seen RUNNING, permitted by the
    application's rule, knows and enables every program); when None is returned no command gets a target and the
    selection of the job stays as it was.  raises = (): the target handed to update_identifier is never None / unknown."""
    raises = ()
    variants = ['ApplicationStartJobs']
    use_contracts = ['strategy:get_supvisors_instance', 'commander:ApplicationStartJobs.get_load_requests',
                     'commander:ProcessCommand.update_identifier', 'application:ApplicationStatus.possible_identifiers',
                     'application:ApplicationStatus.get_start_sequence_expected_load']

    def modifies(self):
        return [field(self, 'identifiers'), whole('F:identifier:'), whole('F:instance_status:'), whole('F:_wait_ticks:')]

    def pre_placement(self):
        return distribution_pre(self)

    def pre_plan(self):
        return plan_wf(self)

    def pre_targets_identified(self):
        """rely of get_load_requests (contracts/c04.py): targets of the commands of this job are identified instances"""
        return targets_identified(self)

    def post_one_instance_or_nothing(self, old):
        """either a new one-element selection, or (None returned) nothing at all is changed"""
        return ((was_fresh(self.identifiers) and len(self.identifiers) == 1)
                or (self.identifiers is old.self.identifiers and unchanged()))

    # the selection is what get_supvisors_instance returned among application.possible_identifiers():
    def post_choice_running(self):
        """C04 'an instance that the requester sees RUNNING'"""
        return implies(was_fresh(self.identifiers), is_running(self.supvisors, self.identifiers[0]))

    def post_choice_permitted(self, old):
        """C04 'that the applicable identifiers rule permits (... the application's when its distribution is restricted)'
        (rule and mapper read in the entry state: the frame leaves them alone)"""
        return implies(was_fresh(self.identifiers),
                       rule_permits(old.self.supvisors.mapper, old.self.application.rules.identifiers, self.identifiers[0]))

    def post_choice_knows_every_program(self):
        """C04 'whose Supervisor knows the program and has it enabled'"""
        return implies(was_fresh(self.identifiers), all_know_and_enable(self.application, self.identifiers[0]))

    def loop0_inv(self, k, commands, identifier):
        """the loop does not touch the selection (NB: no element of the selection is read here - reading a List[str] cell
        lets the engine take it for a str, i.e. not None, before update_identifier is reached)"""
        return was_fresh(self.identifiers) and len(self.identifiers) == 1

    def loop0_iter_same_instance(self, command, identifier):
        """'all its started processes are sent to one instance': the command of ANY iteration gets the instance returned
        by get_supvisors_instance, which is the selection (decision facet: stated per iteration, the quantified form over
        the whole plan is parked in contracts/wip_c14_single.txt)"""
        return (command.identifier == identifier and self.identifiers[0] == identifier
                and command.instance_status is self.supvisors.context.instances[identifier])

    def loop0_iter_whole_plan(self, loop_items, commands):
        """the loop runs over the whole list of commands of the plan"""
        return loop_items is commands

    def loop0_modifies(self):
        return [whole('F:identifier:'), whole('F:instance_status:'), whole('F:_wait_ticks:')]
