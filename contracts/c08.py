"""C08 - After disturbances the cluster returns to OPERATION; nobody stays parked (necessary conditions, per call).
Clause 1 (no self-decision refused by the table) is carried by the next() contracts of contracts/c02.py."""
from pyvc.spec import *
from contracts.c02 import (valid, valid_state, coupled, SYNC_OPTIONS, LOCAL, ISM, LID, master, cur, PROT, VIEW_PROT)

OPT = SynchronizationOptions


def selected(s, o):
    return o in s.supvisors.options.synchro_options


def global_failure(s):
    """'the following precedence is applied: USER > CORE > STRICT > LIST'; after the call sync_alerts[o] records, for
    every selected option o, whether its condition is currently NOT met (both branches of each _check_*_failure leave
    it so)"""
    return ite(selected(s, OPT.USER), s.sync_alerts[OPT.USER],
               ite(selected(s, OPT.CORE), s.sync_alerts[OPT.CORE],
                   ite(selected(s, OPT.STRICT), s.sync_alerts[OPT.STRICT],
                       ite(selected(s, OPT.LIST), s.sync_alerts[OPT.LIST], False))))


@contract('statemachine:_SynchronizedState._check_failure_strategy', props=['C08', 'C02'])
class CheckFailureStrategy:
    """clause 4 (mechanism 'failure strategies RESYNC / CONTINUE'): CONTINUE never leaves the state; RESYNC goes back to
    SYNCHRONIZATION exactly when a selected condition (by precedence) is lost; TIMEOUT alone never fails"""
    raises = ()
    returns = 'Optional[SupvisorsStates]'
    variants = ['ElectionState', 'DistributionState', 'OperationState', 'ConciliationState', 'RestartingState',
                'ShuttingDownState']

    def pre_valid(self):
        return valid_state(self)

    def modifies(self):
        return [contents(self.sync_alerts), field(LOCAL(self), 'degraded_mode')]

    def post_continue_never_leaves(self, result):
        return implies(self.supvisors.options.supvisors_failure_strategy == SupvisorsFailureStrategies.CONTINUE,
                       result is None)

    def post_domain(self, result):
        strategy = self.supvisors.options.supvisors_failure_strategy
        return ((result is None or result == SupvisorsStates.SYNCHRONIZATION or result == SupvisorsStates.SHUTTING_DOWN)
                and implies(result == SupvisorsStates.SYNCHRONIZATION, strategy == SupvisorsFailureStrategies.RESYNC)
                and implies(result == SupvisorsStates.SHUTTING_DOWN, strategy == SupvisorsFailureStrategies.SHUTDOWN))

    def post_by_precedence(self, result):
        strategy = self.supvisors.options.supvisors_failure_strategy
        return ((result is not None) == (global_failure(self) and strategy != SupvisorsFailureStrategies.CONTINUE))

    def post_user_condition(self):
        return implies(selected(self, OPT.USER), self.sync_alerts[OPT.USER] == (len(self.lost_instances) > 0))

    def post_degraded(self):
        return LOCAL(self).degraded_mode == ((selected(self, OPT.STRICT) and self.sync_alerts[OPT.STRICT])
                                             or (selected(self, OPT.LIST) and self.sync_alerts[OPT.LIST])
                                             or (selected(self, OPT.CORE) and self.sync_alerts[OPT.CORE]))

    def post_alerts(self, old):
        return (all(o in self.sync_alerts for o in SYNC_OPTIONS)
                and all(implies(not selected(self, o), self.sync_alerts[o] == old.self.sync_alerts[o]) for o in SYNC_OPTIONS))
