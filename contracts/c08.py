"""C08 - After disturbances the cluster returns to OPERATION; nobody stays parked (necessary conditions, per call).
Clause 1 (no self-decision refused by the table) is carried by the next() contracts of contracts/c02.py."""
from pyvc.spec import *

GROUP = 'fsm'   # contracts of one group use each other's contracts at call sites (pyvc/hooks.py contract_for_call)
from contracts.c02 import (valid, valid_state, coupled, SYNC_OPTIONS, LOCAL, ISM, LID, master, cur, PROT, VIEW_PROT)

OPT = SynchronizationOptions


def selected(s, o):
    return o in s.supvisors.options.synchro_options


def global_failure(s):
    """'the following precedence is applied: USER > CORE > STRICT > LIST'; after the call sync_alerts[o] records, for
    every selected option o, whether its condition is currently NOT met (both branches of each _check_*_failure leave
    it so)"""
    return ite(selected(s, OPT.USER), s.sync_alerts[OPT.USER],
               ite(selected(s, OPT.CORE), s.sync_alerts[OPT.CORE],
                   ite(selected(s, OPT.STRICT), s.sync_alerts[OPT.STRICT],
                       ite(selected(s, OPT.LIST), s.sync_alerts[OPT.LIST], False))))


def alerts_shape(s):
    return all(o in s.sync_alerts for o in SYNC_OPTIONS)


def others_kept(s, o, opt):
    return alerts_shape(s) and all(implies(x != opt, s.sync_alerts[x] == o.sync_alerts[x]) for x in SYNC_OPTIONS)


@contract('statemachine:_OnState._check_strict_failure', props=['C08'])
class CheckStrictFailure:
    """None iff STRICT is not selected; else whether the condition is lost, recorded in sync_alerts[STRICT]"""
    raises = ()

    def pre_shape(self):
        return alerts_shape(self)

    def modifies(self):
        return [contents(self.sync_alerts)]

    def post_result(self, result, old):
        return ((result is None) == (not selected(self, OPT.STRICT))
                and implies(result is not None, self.sync_alerts[OPT.STRICT] == result)
                and implies(result is None, self.sync_alerts[OPT.STRICT] == old.self.sync_alerts[OPT.STRICT])
                and others_kept(self, old.self, OPT.STRICT))


@contract('statemachine:_OnState._check_list_failure', props=['C08'])
class CheckListFailure:
    raises = ()

    def pre_shape(self):
        return alerts_shape(self)

    def modifies(self):
        return [contents(self.sync_alerts)]

    def post_result(self, result, old):
        return ((result is None) == (not selected(self, OPT.LIST))
                and implies(result is not None, self.sync_alerts[OPT.LIST] == result)
                and implies(result is None, self.sync_alerts[OPT.LIST] == old.self.sync_alerts[OPT.LIST])
                and others_kept(self, old.self, OPT.LIST))


@contract('statemachine:_OnState._check_core_failure', props=['C08'])
class CheckCoreFailure:
    raises = ()

    def pre_shape(self):
        return alerts_shape(self)

    def modifies(self):
        return [contents(self.sync_alerts)]

    def post_result(self, result, old):
        return ((result is None) == (not selected(self, OPT.CORE))
                and implies(result is not None, self.sync_alerts[OPT.CORE] == result)
                and implies(result is None, self.sync_alerts[OPT.CORE] == old.self.sync_alerts[OPT.CORE])
                and others_kept(self, old.self, OPT.CORE))


@contract('statemachine:_OnState._check_user_failure', props=['C08'])
class CheckUserFailure:
    """USER: 'at least one Supvisors instance FAILED' since the last evaluation (lost_instances of this next())"""
    raises = ()

    def pre_shape(self):
        return alerts_shape(self)

    def modifies(self):
        return [contents(self.sync_alerts)]

    def post_result(self, result, old):
        return ((result is None) == (not selected(self, OPT.USER))
                and implies(result is not None, result == (len(self.lost_instances) > 0)
                            and self.sync_alerts[OPT.USER] == result)
                and implies(result is None, self.sync_alerts[OPT.USER] == old.self.sync_alerts[OPT.USER])
                and others_kept(self, old.self, OPT.USER))


@contract('statemachine:_SynchronizedState._check_failure_strategy', props=['C08', 'C02'])
class CheckFailureStrategy:
    """clause 4 (mechanism 'failure strategies RESYNC / CONTINUE'): CONTINUE never leaves the state; RESYNC goes back to
    SYNCHRONIZATION exactly when a selected condition (by precedence) is lost; TIMEOUT alone never fails"""
    raises = ()
    returns = 'Optional[SupvisorsStates]'

    def pre_valid(self):
        return valid(self.supvisors) and alerts_shape(self)

    def modifies(self):
        return [contents(self.sync_alerts), field(LOCAL(self), 'degraded_mode')]

    def post_continue_never_leaves(self, result):
        return implies(self.supvisors.options.supvisors_failure_strategy == SupvisorsFailureStrategies.CONTINUE,
                       result is None)

    def post_domain(self, result):
        strategy = self.supvisors.options.supvisors_failure_strategy
        return ((result is None or result == SupvisorsStates.SYNCHRONIZATION or result == SupvisorsStates.SHUTTING_DOWN)
                and implies(result == SupvisorsStates.SYNCHRONIZATION, strategy == SupvisorsFailureStrategies.RESYNC)
                and implies(result == SupvisorsStates.SHUTTING_DOWN, strategy == SupvisorsFailureStrategies.SHUTDOWN))

    def post_by_precedence(self, result):
        strategy = self.supvisors.options.supvisors_failure_strategy
        return ((result is not None) == (global_failure(self) and strategy != SupvisorsFailureStrategies.CONTINUE))

    def post_user_condition(self):
        return implies(selected(self, OPT.USER), self.sync_alerts[OPT.USER] == (len(self.lost_instances) > 0))

    def post_degraded(self):
        return LOCAL(self).degraded_mode == ((selected(self, OPT.STRICT) and self.sync_alerts[OPT.STRICT])
                                             or (selected(self, OPT.LIST) and self.sync_alerts[OPT.LIST])
                                             or (selected(self, OPT.CORE) and self.sync_alerts[OPT.CORE]))

    def post_alerts(self, old):
        return (all(o in self.sync_alerts for o in SYNC_OPTIONS)
                and all(implies(not selected(self, o), self.sync_alerts[o] == old.self.sync_alerts[o]) for o in SYNC_OPTIONS))


# ------------------------------------------------------------------------------------------ clause 2: re-evaluation hooks
from contracts.c02 import (fsm_pre, fsm_inv, master_seen_running, WIRING, valid_sm, sees_running)


def entries_distinct(sm):
    """shape validity: the entries of the state & modes map are distinct objects (one StateModes per identifier, built by
    __init__ / add_instance / update_instance_state)"""
    ism = sm.instance_state_modes
    return forall(str, str, lambda i, j: implies(i in ism and j in ism and i != j, ism[i] is not ism[j]))


@contract('statemodes:SupvisorsStateModes.on_instance_state_event', props=['C02', 'C08'])
class OnInstanceStateEvent:
    """C02 clause 1 (semantic half of the single writer): a STATE publication only ever overwrites the entry of its
    (remote) sender; one attributed to the local identifier is ignored"""
    raises = ()

    def pre_valid(self, identifier):
        return valid_sm(self) and entries_distinct(self) and identifier in self.instance_state_modes

    def modifies(self, identifier, event):
        e = self.instance_state_modes[identifier]
        return [field(e, 'state'), field(e, 'degraded_mode'), field(e, 'discovery_mode'), field(e, 'master_identifier'),
                field(e, 'starting_jobs'), field(e, 'stopping_jobs'), field(e, 'instance_states')]

    def post_local_entry_untouched(self, old):
        lo, o = LOCAL(self), LOCAL(old.self)
        return (lo is o and lo.state == o.state and lo.master_identifier == o.master_identifier
                and lo.instance_states is o.instance_states and lo.degraded_mode == o.degraded_mode)


@contract('statemachine:FiniteStateMachine.on_timer_event', props=['C08'])
class OnTimerEvent:
    """mechanism 're-evaluation on every local tick': on_timer_event always reaches self.next()"""
    raises = ()

    def pre_inv(self):
        return fsm_pre(self) and self.supvisors.state_modes.supvisors is self.supvisors

    def pre_master_seen_running(self):
        return master_seen_running(self)

    def modifies(self, event):
        return [everything_but(*WIRING)]

    def post_reaches_next(self):
        return count_effects('fsm_next') == 1


@contract('statemachine:FiniteStateMachine.on_state_event', props=['C08'])
class OnStateEvent:
    """mechanism 're-evaluation ... on every Master state publication': next() is called iff the sender is the Master"""
    raises = ()

    def pre_inv(self, status):
        return (fsm_pre(self) and entries_distinct(self.supvisors.state_modes)
                and status.identifier in ISM(self))

    def pre_master_seen_running(self):
        return master_seen_running(self)

    def modifies(self, status, event):
        return [everything_but(*WIRING)]

    def post_next_iff_master(self, status, old):
        return count_effects('fsm_next') == (1 if old.status.identifier == master(old.self) else 0)
