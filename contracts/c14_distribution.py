"""C14 (second clause) / C04 (eligibility for restricted distributions) - whole-application placement:
'For an application whose distribution is SINGLE_INSTANCE all its started processes are sent to one instance able to
carry the whole start sequence, and for SINGLE_NODE to instances of one single node, the program identifiers rule being
replaced by the application's.'

VERIFIED here: ProcessStartCommand.update_identifier (the single writer of a start command's target; exact conditions
of its KeyError / TypeError).  Its call sites in ApplicationStartJobs (distribute_to_single_instance /
distribute_to_single_node / on_command_added / process_job) are covered by the structural obligations of
pyvc/structural_c14.py, which rest on these exception clauses; the deductive contracts of the distribute_* functions
are work in progress (docs/wip_c14_distribution.py, not loaded).
"""
from pyvc.spec import *

GROUP = 'strategy'
from contracts.c04 import *


@contract('commander:ProcessStartCommand.update_identifier', props=['C14', 'C04'])
class UpdateIdentifier:
    """records the target: identifier, its SupvisorsInstanceStatus and the ticks to wait (program startsecs on that
    instance).  KeyError exactly when the Supvisors instance is unknown (e.g. None: 'no instance found'), TypeError
    exactly when the target Supervisor does not know the program (info_map.get(identifier) is None)."""
    raises = ('KeyError', 'TypeError')
    types = {'identifier': 'Optional[str]'}
    inline = ['commander:ProcessCommand.update_identifier']     # super().update_identifier: the REAL base code

    def modifies(self, identifier):
        return [field(self, 'identifier'), field(self, 'instance_status'), field(self, '_wait_ticks')]

    def pre_shape(self, identifier):
        return info_shape(self.process)

    def post_target(self, identifier):
        return (identifier is not None and self.identifier == identifier
                and identifier in self.process.supvisors.context.instances
                and self.instance_status is self.process.supvisors.context.instances[identifier]
                and identifier in self.process.info_map)

    def exc_KeyError_unknown_instance(self, identifier):
        return identifier is None or identifier not in self.process.supvisors.context.instances

    def exc_TypeError_unknown_program(self, identifier):
        return identifier is None or identifier not in self.process.info_map
