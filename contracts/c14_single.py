"""C14 (second clause) / C04 - whole-application placement, DECISION FACETS of
ApplicationStartJobs.distribute_to_single_instance / distribute_to_single_node (supvisors/commander.py):

  'For an application whose distribution is SINGLE_INSTANCE all its started processes are sent to one instance able to
  carry the whole start sequence, and for SINGLE_NODE to instances of one single node, the program identifiers rule
  being replaced by the application's.'  (C14)
  'goes to an instance that the requester sees RUNNING ... that the applicable identifiers rule permits (the program's
  rule, or the application's when its distribution is restricted)'  (C04)

Own group `strategy_single` (ENGINE.md 8, refutation speed): the call-outs are abstracted FOR THE CALL SITES OF THIS FILE
ONLY by lean ASSUMED contracts - the candidate lists of ApplicationStatus, the dispatch of update_identifier (clauses
PROVED on the override in contracts/c14_distribution.py) and the placement functions strategy.get_supvisors_instance /
get_node / ApplicationStartJobs.get_load_requests, of which only the clauses 'None or a RUNNING candidate' PROVED in
contracts/c14.py (post_candidate, post_running) are kept, without their quantified preconditions.  Those preconditions
are proved at the very same call sites with the real contracts of group `strategy` in contracts/c14_single_calls.py
(group `strategy_single_calls`, `use_contracts`), where a counter-model search takes minutes; here a breaking edit is
refuted within seconds.
"""
from pyvc.spec import *

GROUP = 'strategy_single'
from contracts.c04 import *



# --------------------------------------------------------------------------------------------------------------------
# the plan of an application job
def every_planned(jobs, prop):
    """prop(c) holds for every command c of the planned groups of the application job"""
    return forall(int, int, lambda s, j: implies(s in jobs.planned_jobs and 0 <= j and j < len(jobs.planned_jobs[s]),
                                                 prop(jobs.planned_jobs[s][j])))


def belongs(process, application):
    """the process is one of the processes of the application (ApplicationStatus.processes is keyed by process name)"""
    return process.process_name in application.processes and application.processes[process.process_name] is process


def plan_wf(jobs):
    """call sites (Starter.store_application / start_process build the plan with Starter.command_class =
    ProcessStartCommand over processes of the application; ApplicationJobs.add_commands appends such commands)"""
    return every_planned(jobs, lambda c: (
        isinstance(c, ProcessStartCommand) and c.process.supvisors is jobs.supvisors and info_shape(c.process)
        and belongs(c.process, jobs.application)))


def all_know_and_enable(application, i):
    """C04: 'whose Supervisor knows the program and has it enabled' - for every program of the application"""
    return forall(application.processes, lambda n: knows_and_enabled(application.processes[n], i))


def same_node(supvisors, i, j):
    """'instances of one single node': both are filed under the same machine id"""
    return machine_of(supvisors, i) == machine_of(supvisors, j)


# --------------------------------------------------------------------------------------------------------------------
@contract('commander:ProcessCommand.update_identifier', props=[])
class UpdateIdentifierDispatch:
    """ASSUMED dispatch point: `command.update_identifier(x)` on a command of an application START job (its static type
    is the base class ProcessCommand).  The clauses are those PROVED on the override ProcessStartCommand.update_identifier
    (contracts/c14_distribution.py); the precondition restricts the receiver to that class (a Starter only plans
    ProcessStartCommand)."""
    assumed = True
    raises = ('KeyError', 'TypeError')
    types = {'identifier': 'Optional[str]'}

    def modifies(self, identifier):
        return [field(self, 'identifier'), field(self, 'instance_status'), field(self, '_wait_ticks')]

    def pre_start_command(self, identifier):
        return isinstance(self, ProcessStartCommand) and info_shape(self.process)

    def post_target(self, identifier):
        return (identifier is not None and self.identifier == identifier
                and identifier in self.process.supvisors.context.instances
                and self.instance_status is self.process.supvisors.context.instances[identifier]
                and identifier in self.process.info_map)

    def exc_KeyError_unknown_instance(self, identifier):
        return identifier is None or identifier not in self.process.supvisors.context.instances

    def exc_TypeError_unknown_program(self, identifier):
        return identifier is None or identifier not in self.process.info_map


@contract('application:ApplicationStatus.get_start_sequence_expected_load', props=[])
class StartSequenceLoad:
    """ASSUMED abstraction: sum(expected_load of the start-sequenced processes) - python sum() over a generator is not
    unfolded; its value is the ghost ApplicationStatus.ghost_start_sequence_load"""
    assumed = True
    raises = ()

    def modifies(self):
        return []

    def post_value(self, result):
        return result == self.ghost_start_sequence_load


@contract('application:ApplicationStatus.possible_identifiers', props=[])
class ApplicationPossibleIdentifiers:
    """ASSUMED (DESIGN C04.3; the code intersects, with set.intersection(*sets), the per-process sets of instances where
    the program is known and enabled - star-arguments over a symbolic list are out of the engine's reach): the
    identifiers permitted by the APPLICATION's rule where EVERY program of the application is known and enabled."""
    assumed = True
    raises = ()

    def modifies(self):
        return []

    def post_permitted_and_known(self, result):
        return forall(result, lambda i: rule_permits(self.supvisors.mapper, self.rules.identifiers, i)
                      and all_know_and_enable(self, i))

    def post_fresh(self, result):
        return was_fresh(result)


@contract('application:ApplicationStatus.possible_node_identifiers', props=[])
class ApplicationPossibleNodeIdentifiers:
    """ASSUMED (nested loops with for/else over sets): identifiers permitted by the APPLICATION's rule (NOT: every returned
    instance knows every program - the docstring of the method says so: 'Some elements ... may not fit')."""
    assumed = True
    raises = ()

    def modifies(self):
        return []

    def post_permitted(self, result):
        return forall(result, lambda i: rule_permits(self.supvisors.mapper, self.rules.identifiers, i))

    def post_fresh(self, result):
        return was_fresh(result)


# --------------------------------------------------------------------------------------------------------------------
# lean call abstractions of the placement functions (clauses PROVED in contracts/c14.py / c04.py, group `strategy`)
@contract('strategy:get_supvisors_instance', props=[])
class ChoiceCall:
    """ASSUMED here, PROVED in contracts/c14.py (GetSupvisorsInstance.post_candidate / post_running): None or a candidate
    that the requester sees RUNNING"""
    assumed = True
    raises = ()
    types = {'supvisors': 'Supvisors'}
    returns = 'Optional[str]'

    def modifies():
        return []

    def post_candidate(supvisors, identifiers, result):
        return result is None or result in identifiers

    def post_running(supvisors, identifiers, result):
        return result is None or is_running(supvisors, result)


@contract('strategy:get_node', props=[])
class NodeCall:
    """ASSUMED here (contracts/c14.py GetNode): None or a machine id; nothing is written"""
    assumed = True
    raises = ()
    types = {'supvisors': 'Supvisors'}
    returns = 'Optional[str]'

    def modifies():
        return []


@contract('commander:ApplicationStartJobs.get_load_requests', props=[])
class LoadRequestsCall:
    """ASSUMED here, PROVED in contracts/c04.py (GetLoadRequests): a fresh map, nothing is written"""
    assumed = True
    raises = ()

    def modifies(self):
        return []

    def post_fresh(self, result):
        return was_fresh(result)


# --------------------------------------------------------------------------------------------------------------------
def single_pre(jobs):
    """object graph as built by Supvisors.__init__ / Starter.store_application; '' is not an instance identifier (`if
    identifier:` would take it for 'no instance')"""
    return (jobs.supvisors.context.supvisors is jobs.supvisors and jobs.application.supvisors is jobs.supvisors
            and '' not in jobs.supvisors.context.instances)


@contract('commander:ApplicationStartJobs.distribute_to_single_instance', props=['C14', 'C04'])
class DistributeToSingleInstance:
    """C14: 'For an application whose distribution is SINGLE_INSTANCE all its started processes are sent to one instance
    ..., the program identifiers rule being replaced by the application's'; the instance is the one
    strategy.get_supvisors_instance returned for the application's candidates (C04: seen RUNNING, permitted by the
    application's rule, knows and enables every program); when None is returned no command gets a target and the
    selection of the job stays as it was.  raises = (): the target handed to update_identifier is never None / unknown and knows every program of the plan."""
    raises = ()
    variants = ['ApplicationStartJobs']

    def modifies(self):
        return [field(self, 'identifiers'), whole('F:identifier:'), whole('F:instance_status:'), whole('F:_wait_ticks:')]

    def pre_graph(self):
        return single_pre(self)

    def pre_plan(self):
        return plan_wf(self)

    def post_one_instance_or_nothing(self, old):
        """either a new one-element selection, or (None returned) nothing at all is changed"""
        return ((was_fresh(self.identifiers) and len(self.identifiers) == 1)
                or (self.identifiers is old.self.identifiers and unchanged()))

    # the selection is what get_supvisors_instance returned among application.possible_identifiers():
    def post_choice_running(self):
        """C04 'an instance that the requester sees RUNNING'"""
        return implies(was_fresh(self.identifiers), is_running(self.supvisors, self.identifiers[0]))

    def post_choice_permitted(self, old):
        """C04 'that the applicable identifiers rule permits (... the application's when its distribution is restricted)'
        (rule and mapper read in the entry state: the frame leaves them alone)"""
        return implies(was_fresh(self.identifiers),
                       rule_permits(old.self.supvisors.mapper, old.self.application.rules.identifiers, self.identifiers[0]))

    def post_choice_knows_every_program(self):
        """C04 'whose Supervisor knows the program and has it enabled'"""
        return implies(was_fresh(self.identifiers), all_know_and_enable(self.application, self.identifiers[0]))

    def loop0_inv(self, k, commands, identifier):
        """the loop does not touch the selection (NB: no element of the selection is read here - reading a List[str] cell
        lets the engine take it for a str, i.e. not None, before update_identifier is reached)"""
        return was_fresh(self.identifiers) and len(self.identifiers) == 1

    def loop0_iter_same_instance(self, command, identifier):
        """'all its started processes are sent to one instance': the command of ANY iteration gets the instance returned
        by get_supvisors_instance, which is the selection (decision facet: stated per iteration, the quantified form over
        the whole plan is parked in contracts/wip_c14_single.txt)"""
        return (command.identifier == identifier and self.identifiers[0] == identifier
                and command.instance_status is self.supvisors.context.instances[identifier])

    def loop0_iter_whole_plan(self, loop_items, commands):
        """the loop runs over the whole list of commands of the plan"""
        return loop_items is commands

    def loop0_modifies(self):
        return [whole('F:identifier:'), whole('F:instance_status:'), whole('F:_wait_ticks:')]


@contract('commander:ApplicationStartJobs.distribute_to_single_node', props=['C14', 'C04'])
class DistributeToSingleNode:
    """C14: '... and for SINGLE_NODE to instances of one single node, the program identifiers rule being replaced by the
    application's': the selection self.identifiers is made of candidates of the application filed under ONE machine of
    mapper.nodes; every identifier given to a command is an element of that selection which get_supvisors_instance
    returned (seen RUNNING); a command gets no identifier when None is returned.
    raises = ('TypeError',): the instances of the node are not filtered by the program of the command, so that
    update_identifier meets an instance whose Supervisor does not know the program - known finding
    C14-single-node-unknown-program (struct:single-node-candidates-know-the-program); the exact condition is stated in
    exc_TypeError_unknown_program.  KeyError (None / unknown instance handed to update_identifier) must not escape."""
    raises = ('TypeError',)
    variants = ['ApplicationStartJobs']

    def modifies(self):
        return [field(self, 'identifiers'), whole('F:identifier:'), whole('F:instance_status:'), whole('F:_wait_ticks:')]

    def pre_graph(self):
        return single_pre(self)

    def pre_plan(self):
        return plan_wf(self)

    def post_selection_fresh(self):
        return was_fresh(self.identifiers)

    def post_selection_permitted(self, old):
        """'the program identifiers rule being replaced by the application's'"""
        return forall(self.identifiers, lambda i: rule_permits(old.self.supvisors.mapper,
                                                               old.self.application.rules.identifiers, i))

    def loop0_inv(self, k, commands, loop_old):
        """the loop does not touch the selection"""
        return self.identifiers is loop_old.self.identifiers and len(self.identifiers) > 0

    def loop0_iter_in_the_selection(self, command, identifier, iter_old):
        """'sent ... to instances of one single node': the command of ANY iteration gets an element of the selection that
        is seen RUNNING, or (None returned) keeps what it had"""
        return ((identifier is None and command.identifier == iter_old.command.identifier
                 and command.instance_status is iter_old.command.instance_status)
                or (identifier is not None and command.identifier == identifier and identifier in self.identifiers
                    and is_running(self.supvisors, identifier)
                    and command.instance_status is self.supvisors.context.instances[identifier]))

    def loop0_iter_whole_plan(self, loop_items, commands):
        """the loop runs over the whole list of commands of the plan"""
        return loop_items is commands

    def loop0_modifies(self):
        return [whole('F:identifier:'), whole('F:instance_status:'), whole('F:_wait_ticks:')]

    def exc_TypeError_unknown_program(self, exc):
        """only from update_identifier on an instance of the selection that does not know the program of a command"""
        return exists(ProcessStartCommand, lambda c: exists(self.identifiers, lambda i: i not in c.process.info_map))
