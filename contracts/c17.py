"""C17 - XML-RPC commands are gated by Supvisors state and fail cleanly.

Statement: 'Each XML-RPC is served only in its documented Supvisors states - status queries from DISTRIBUTION on,
start/restart/test_start/update_numprocs/enable/disable/restart_sequence in OPERATION only, stop requests in OPERATION
or CONCILIATION, conciliate in CONCILIATION, end_sync in SYNCHRONIZATION with the USER option, restart/shutdown from
DISTRIBUTION on - and otherwise raises BAD_SUPVISORS_STATE without any effect. Unknown application, process or
instance names raise BAD_NAME, unknown strategies INCORRECT_PARAMETERS, unmanaged applications NOT_MANAGED, and a
rejected request emits no start, stop or state change.'

The FSM state is a symbolic member of SupvisorsStates: every contract below is proved for the nine states at once.
"""
from pyvc.spec import *

GROUP = 'rpc'   # contracts of one group use each other's contracts at call sites (pyvc/hooks.py contract_for_call)
from supervisor.options import split_namespec

BAD_STATE = SupvisorsFaults.BAD_SUPVISORS_STATE.value
NOT_MANAGED = SupvisorsFaults.NOT_MANAGED.value
NOT_APPLICABLE = SupvisorsFaults.NOT_APPLICABLE.value
# the fault codes of a *rejected* request (statement: 'a rejected request emits no start, stop or state change')
REJECTED = (SupvisorsFaults.BAD_SUPVISORS_STATE.value, SupvisorsFaults.NOT_MANAGED.value, Faults.BAD_NAME,
            Faults.INCORRECT_PARAMETERS)

FROM_DISTRIBUTION = (SupvisorsStates.DISTRIBUTION, SupvisorsStates.OPERATION, SupvisorsStates.CONCILIATION,
                     SupvisorsStates.RESTARTING, SupvisorsStates.SHUTTING_DOWN)
OPERATION_CONCILIATION = (SupvisorsStates.OPERATION, SupvisorsStates.CONCILIATION)


# ------------------------------------------------------------------------------------------ structural validity
def valid(rpc):
    """Structural validity the code relies on everywhere (DESIGN 1.4, last bullet; established by
    Supvisors.__init__ / SupvisorsStateModes.__init__ / Context.__init__ and kept by add_instance): one global
    Supvisors structure shared by all components, the local instance has its StateModes entry and a non-empty
    identifier ('' is the "no Master" value of master_identifier)."""
    sv = rpc.supvisors
    return (sv.fsm.supvisors is sv and sv.state_modes.supvisors is sv and sv.context.supvisors is sv
            and sv.mapper.local_identifier in sv.state_modes.instance_state_modes and sv.mapper.local_identifier != '')


def apps_valid(context):
    """object invariants of the applications held by the Context: ApplicationStatus.__init__ always sets `rules`
    (the class-level default None is never observable), and an application never stays in the Context without a
    process (Context.setdefault_process adds the first one at creation, on_process_removed_event deletes an emptied
    application: 'an update of numprocs cannot leave the application empty ... a remove_group can')"""
    apps = context.applications
    return forall(str, lambda n: implies(n in apps, apps[n].rules is not None))


def fsm_state(rpc):
    """the gate input (anchor: fsm.state, rpcinterface.py _check_state), over raw fields"""
    sv = rpc.supvisors
    return sv.state_modes.instance_state_modes[sv.mapper.local_identifier].state


def rejected_cleanly(exc):
    """'... raises BAD_SUPVISORS_STATE without any effect', 'a rejected request emits no start, stop or state
    change': no ghost effect was logged and no pre-existing heap location was written"""
    return implies(exc.code in REJECTED, no_effect() and unchanged())


# ------------------------------------------------------------------------------------------ helpers: state gates
@contract('rpcinterface:RPCInterface._check_state', props=['C17'])
class CheckState:
    """'... and otherwise raises BAD_SUPVISORS_STATE without any effect': returns normally iff the FSM state is one of
    `states`, else raises RPCError(BAD_SUPVISORS_STATE); modifies nothing"""
    raises = ('RPCError',)
    types = {'states': 'List[SupvisorsStates]'}

    def modifies(self):
        return []

    def pre_valid(self):
        return valid(self)

    def post_only_in_listed_states(self, states):
        return fsm_state(self) in states

    def exc_RPCError_bad_state(self, states, exc):
        return fsm_state(self) not in states and exc.code == BAD_STATE and no_effect()


@contract('rpcinterface:RPCInterface._check_from_distribution', props=['C17'])
class CheckFromDistribution:
    """'status queries from DISTRIBUTION on', 'restart/shutdown from DISTRIBUTION on'"""
    raises = ('RPCError',)

    def modifies(self):
        return []

    def pre_valid(self):
        return valid(self)

    def post_state(self):
        return fsm_state(self) in FROM_DISTRIBUTION

    def exc_RPCError_bad_state(self, exc):
        return fsm_state(self) not in FROM_DISTRIBUTION and exc.code == BAD_STATE and no_effect()


@contract('rpcinterface:RPCInterface._check_operating', props=['C17'])
class CheckOperating:
    """'start/restart/test_start/update_numprocs/enable/disable/restart_sequence in OPERATION only'"""
    raises = ('RPCError',)

    def modifies(self):
        return []

    def pre_valid(self):
        return valid(self)

    def post_state(self):
        return fsm_state(self) == SupvisorsStates.OPERATION

    def exc_RPCError_bad_state(self, exc):
        return fsm_state(self) != SupvisorsStates.OPERATION and exc.code == BAD_STATE and no_effect()


@contract('rpcinterface:RPCInterface._check_operating_conciliation', props=['C17'])
class CheckOperatingConciliation:
    """'stop requests in OPERATION or CONCILIATION'"""
    raises = ('RPCError',)

    def modifies(self):
        return []

    def pre_valid(self):
        return valid(self)

    def post_state(self):
        return fsm_state(self) in OPERATION_CONCILIATION

    def exc_RPCError_bad_state(self, exc):
        return fsm_state(self) not in OPERATION_CONCILIATION and exc.code == BAD_STATE and no_effect()


@contract('rpcinterface:RPCInterface._check_conciliation', props=['C17'])
class CheckConciliation:
    """'conciliate in CONCILIATION'"""
    raises = ('RPCError',)

    def modifies(self):
        return []

    def pre_valid(self):
        return valid(self)

    def post_state(self):
        return fsm_state(self) == SupvisorsStates.CONCILIATION

    def exc_RPCError_bad_state(self, exc):
        return fsm_state(self) != SupvisorsStates.CONCILIATION and exc.code == BAD_STATE and no_effect()


# ------------------------------------------------------------------------------------------ helpers: names
@contract('rpcinterface:RPCInterface._get_application', props=['C17'])
class GetApplication:
    """'Unknown application ... names raise BAD_NAME'"""
    raises = ('RPCError',)

    def modifies(self):
        return []

    def post_known(self, application_name, result):
        apps = self.supvisors.context.applications
        return application_name in apps and result is apps[application_name]

    def exc_RPCError_bad_name(self, application_name, exc):
        return (application_name not in self.supvisors.context.applications and exc.code == Faults.BAD_NAME
                and no_effect())


@contract('rpcinterface:RPCInterface._get_process', props=['C17'])
class GetProcess:
    """'Unknown ... process ... names raise BAD_NAME'"""
    raises = ('RPCError',)
    returns = 'ProcessStatus'

    def modifies(self):
        return []

    def post_known(self, application, process_name, result):
        return process_name in application.processes and result is application.processes[process_name]

    def exc_RPCError_bad_name(self, application, process_name, exc):
        return process_name not in application.processes and exc.code == Faults.BAD_NAME and no_effect()


@contract('rpcinterface:RPCInterface._get_application_process', props=['C17'])
class GetApplicationProcess:
    """'Unknown application, process ... names raise BAD_NAME': the namespec is split by Supervisor's split_namespec
    (assumed external, a function of its argument); the group must be a known application and, unless the namespec
    designates the whole group ('group:*' / 'group:'), the process must be known in that application"""
    raises = ('RPCError',)

    def modifies(self):
        return []

    def post_known(self, namespec, result):
        apps = self.supvisors.context.applications
        names = split_namespec(namespec)
        return (names[0] in apps and result[0] is apps[names[0]]
                and ite(names[1] is None or names[1] == '', result[1] is None,
                        names[1] in result[0].processes and result[1] is result[0].processes[names[1]]))

    def exc_RPCError_bad_name(self, namespec, exc):
        apps = self.supvisors.context.applications
        names = split_namespec(namespec)
        return (exc.code == Faults.BAD_NAME and no_effect()
                and (names[0] not in apps
                     or (names[1] is not None and names[1] != '' and names[1] not in apps[names[0]].processes)))


# ------------------------------------------------------------------------------------------ helpers: strategies
def valid_strategy(strategy, klass):
    """'as a string or as a value': a str that is the name of a member, or an int (not a bool) that is the value of a
    member; anything else is an 'unknown strategy'"""
    return ((type(strategy) is str and exists(klass, lambda m: m.name == strategy))
            or (type(strategy) is int and exists(klass, lambda m: m.value == strategy)))


def designates(strategy, member):
    return ((type(strategy) is str and member.name == strategy)
            or (type(strategy) is int and member.value == strategy))


@contract('rpcinterface:RPCInterface._get_strategy', props=['C17'])
class GetStrategy:
    """'unknown strategies [raise] INCORRECT_PARAMETERS': member by name or by value, INCORRECT_PARAMETERS for unknown
    strings, out-of-range ints and every other type (run once per parameter type and per enumeration)"""
    raises = ('RPCError',)
    type_variants = [{'strategy': 'str', 'enum_klass': 'class:StartingStrategies'},
                     {'strategy': 'int', 'enum_klass': 'class:StartingStrategies'},
                     {'strategy': 'bool', 'enum_klass': 'class:StartingStrategies'},
                     {'strategy': 'float', 'enum_klass': 'class:StartingStrategies'},
                     {'strategy': 'List[str]', 'enum_klass': 'class:StartingStrategies'},
                     {'strategy': 'str', 'enum_klass': 'class:ConciliationStrategies'},
                     {'strategy': 'int', 'enum_klass': 'class:ConciliationStrategies'},
                     {'strategy': 'bool', 'enum_klass': 'class:ConciliationStrategies'},
                     {'strategy': 'float', 'enum_klass': 'class:ConciliationStrategies'},
                     {'strategy': 'List[str]', 'enum_klass': 'class:ConciliationStrategies'}]

    def modifies(self):
        return []

    def post_member(self, strategy, enum_klass, result):
        return isinstance(result, enum_klass) and designates(strategy, result)

    def exc_RPCError_incorrect_parameters(self, strategy, enum_klass, exc):
        return (not valid_strategy(strategy, enum_klass) and exc.code == Faults.INCORRECT_PARAMETERS
                and no_effect())


@contract('rpcinterface:RPCInterface._get_starting_strategy', props=['C17'])
class GetStartingStrategy:
    """'unknown strategies [raise] INCORRECT_PARAMETERS' (StartingStrategies)"""
    raises = ('RPCError',)
    type_variants = [{'strategy': 'str'}, {'strategy': 'int'}, {'strategy': 'bool'}, {'strategy': 'float'},
                     {'strategy': 'List[str]'}]
    inline = ['rpcinterface:RPCInterface._get_strategy']

    def modifies(self):
        return []

    def post_member(self, strategy, result):
        return designates(strategy, result)

    def exc_RPCError_incorrect_parameters(self, strategy, exc):
        return (not valid_strategy(strategy, StartingStrategies) and exc.code == Faults.INCORRECT_PARAMETERS
                and no_effect())


@contract('rpcinterface:RPCInterface._get_conciliation_strategy', props=['C17'])
class GetConciliationStrategy:
    """'unknown strategies [raise] INCORRECT_PARAMETERS' (ConciliationStrategies)"""
    raises = ('RPCError',)
    type_variants = [{'strategy': 'str'}, {'strategy': 'int'}, {'strategy': 'bool'}, {'strategy': 'float'},
                     {'strategy': 'List[str]'}]
    inline = ['rpcinterface:RPCInterface._get_strategy']

    def modifies(self):
        return []

    def post_member(self, strategy, result):
        return designates(strategy, result)

    def exc_RPCError_incorrect_parameters(self, strategy, exc):
        return (not valid_strategy(strategy, ConciliationStrategies) and exc.code == Faults.INCORRECT_PARAMETERS
                and no_effect())


# ------------------------------------------------------------------------------------------ callees verified here
@contract('context:Context.get_managed_applications', props=['C17'])
class GetManagedApplications:
    """'unmanaged applications [raise] NOT_MANAGED': the managed applications are the known applications whose rules
    are flagged managed (i.e. that are described in the rules file)"""
    raises = ()

    def modifies(self):
        return []

    def pre_valid(self):
        return apps_valid(self)

    def post_definition(self, result):
        apps = self.applications
        return forall(str, lambda n: (n in result) == (n in apps and apps[n].rules.managed))

    def post_same_objects(self, result):
        return forall(str, lambda n: implies(n in result, result[n] is self.applications[n]))

    def post_fresh(self, result):
        return was_fresh(result)


# ------------------------------------------------------------------------------------------ commands
def cmd_valid(rpc):
    return valid(rpc) and apps_valid(rpc.supvisors.context)


def known_app(rpc, application_name):
    return application_name in rpc.supvisors.context.applications


def managed_app(rpc, application_name):
    apps = rpc.supvisors.context.applications
    return application_name in apps and apps[application_name].rules.managed


STRATEGY_CODES = (Faults.INCORRECT_PARAMETERS, Faults.BAD_NAME)
START_STOP_STATE_EFFECTS = ('starter.start_applications', 'starter.start_application', 'starter.start_process',
                            'stopper.stop_application', 'stopper.restart_application', 'stopper.stop_process',
                            'stopper.restart_process', 'commander.next', 'conciliate_conflicts', 'fsm.set_state',
                            'fsm.next', 'rpc_handler.send_restart_all', 'rpc_handler.send_shutdown_all',
                            'rpc_handler.send_state_event', 'send_state_event', 'publish_status', 'supervisor_updater.update_numprocs',
                            'supervisor_updater.enable_program', 'supervisor_updater.disable_program')


def code_causes_app(rpc, strategy, application_name, exc):
    """each rejection code is raised for its documented cause only"""
    return (implies(exc.code == Faults.INCORRECT_PARAMETERS, not valid_strategy(strategy, StartingStrategies))
            and implies(exc.code == Faults.BAD_NAME, not known_app(rpc, application_name))
            and implies(exc.code == NOT_MANAGED, known_app(rpc, application_name)
                        and not managed_app(rpc, application_name)))


@contract('rpcinterface:RPCInterface.start_application', props=['C17'])
class StartApplication:
    """'start ... in OPERATION only ... otherwise raises BAD_SUPVISORS_STATE without any effect. Unknown application
    ... names raise BAD_NAME, unknown strategies INCORRECT_PARAMETERS, unmanaged applications NOT_MANAGED, and a
    rejected request emits no start, stop or state change'"""
    raises = ('RPCError',)
    types = {'wait': 'bool'}
    type_variants = [{'strategy': 'str'}, {'strategy': 'int'}, {'strategy': 'bool'}, {'strategy': 'float'},
                     {'strategy': 'List[str]'}]

    def pre_valid(self):
        return cmd_valid(self)

    def post_served_only_when_acceptable(self, strategy, application_name, old):
        return (fsm_state(old.self) == SupvisorsStates.OPERATION and valid_strategy(strategy, StartingStrategies)
                and known_app(old.self, application_name))

    def post_served_only_when_managed(self, application_name, old):
        return managed_app(old.self, application_name)

    def post_start_requested(self, strategy, application_name, old):
        return (count_effects('starter.start_application') == 1
                and designates(strategy, effect_at('starter.start_application', 0)[0])
                and effect_at('starter.start_application', 0)[1] is old.self.supvisors.context.applications[application_name]
                and no_effect('stopper.stop_application', 'stopper.stop_process', 'fsm.set_state', 'fsm.next'))

    def exc_RPCError_bad_state(self, exc, old):
        return (exc.code == BAD_STATE) == (fsm_state(old.self) != SupvisorsStates.OPERATION)

    def exc_RPCError_codes(self, strategy, application_name, exc, old):
        return code_causes_app(old.self, strategy, application_name, exc)

    def exc_RPCError_invalid_parameters(self, strategy, application_name, exc, old):
        return implies(fsm_state(old.self) == SupvisorsStates.OPERATION
                       and not (valid_strategy(strategy, StartingStrategies) and known_app(old.self, application_name)),
                       exc.code in STRATEGY_CODES)

    def exc_RPCError_unmanaged(self, strategy, application_name, exc, old):
        return implies(fsm_state(old.self) == SupvisorsStates.OPERATION and valid_strategy(strategy, StartingStrategies)
                       and known_app(old.self, application_name) and not managed_app(old.self, application_name),
                       exc.code == NOT_MANAGED)

    def exc_RPCError_rejected_cleanly(self, exc):
        return rejected_cleanly(exc)


@contract('rpcinterface:RPCInterface.test_start_application', props=['C17'])
class TestStartApplication:
    """'test_start ... in OPERATION only'; same rejections as start_application; nothing is started or stopped"""
    raises = ('RPCError',)
    returns = 'List[Payload]'
    type_variants = [{'strategy': 'str'}, {'strategy': 'int'}, {'strategy': 'bool'}, {'strategy': 'float'},
                     {'strategy': 'List[str]'}]

    def pre_valid(self):
        return cmd_valid(self)

    def post_served_only_when_acceptable(self, strategy, application_name, old):
        return (fsm_state(old.self) == SupvisorsStates.OPERATION and valid_strategy(strategy, StartingStrategies)
                and known_app(old.self, application_name))

    def post_served_only_when_managed(self, application_name, old):
        return managed_app(old.self, application_name)

    def post_prediction_only(self):
        return (count_effects('starter_model.test_start_application') == 1
                and all(no_effect(e) for e in START_STOP_STATE_EFFECTS))

    def exc_RPCError_bad_state(self, exc, old):
        return (exc.code == BAD_STATE) == (fsm_state(old.self) != SupvisorsStates.OPERATION)

    def exc_RPCError_codes(self, strategy, application_name, exc, old):
        return code_causes_app(old.self, strategy, application_name, exc)

    def exc_RPCError_invalid_parameters(self, strategy, application_name, exc, old):
        return implies(fsm_state(old.self) == SupvisorsStates.OPERATION
                       and not (valid_strategy(strategy, StartingStrategies) and known_app(old.self, application_name)),
                       exc.code in STRATEGY_CODES)

    def exc_RPCError_unmanaged(self, strategy, application_name, exc, old):
        return implies(fsm_state(old.self) == SupvisorsStates.OPERATION and valid_strategy(strategy, StartingStrategies)
                       and known_app(old.self, application_name) and not managed_app(old.self, application_name),
                       exc.code == NOT_MANAGED)

    def exc_RPCError_no_request(self, exc):
        return all(no_effect(e) for e in START_STOP_STATE_EFFECTS) and rejected_cleanly(exc)


@contract('rpcinterface:RPCInterface.stop_application', props=['C17'])
class StopApplication:
    """'stop requests in OPERATION or CONCILIATION'; BAD_NAME, NOT_MANAGED; a rejected request emits nothing"""
    raises = ('RPCError',)
    types = {'wait': 'bool'}

    def pre_valid(self):
        return cmd_valid(self)

    def post_served_only_when_acceptable(self, application_name, old):
        return fsm_state(old.self) in OPERATION_CONCILIATION and known_app(old.self, application_name)

    def post_served_only_when_managed(self, application_name, old):
        return managed_app(old.self, application_name)

    def post_stop_requested(self, application_name, old):
        return (count_effects('stopper.stop_application') == 1
                and effect_at('stopper.stop_application', 0)[0] is old.self.supvisors.context.applications[application_name]
                and no_effect('starter.start_application', 'starter.start_process', 'fsm.set_state', 'fsm.next'))

    def exc_RPCError_bad_state(self, exc, old):
        return (exc.code == BAD_STATE) == (fsm_state(old.self) not in OPERATION_CONCILIATION)

    def exc_RPCError_codes(self, application_name, exc, old):
        return (exc.code != Faults.INCORRECT_PARAMETERS
                and implies(exc.code == Faults.BAD_NAME, not known_app(old.self, application_name))
                and implies(exc.code == NOT_MANAGED, known_app(old.self, application_name)
                            and not managed_app(old.self, application_name)))

    def exc_RPCError_invalid_parameters(self, application_name, exc, old):
        return implies(fsm_state(old.self) in OPERATION_CONCILIATION and not known_app(old.self, application_name),
                       exc.code == Faults.BAD_NAME)

    def exc_RPCError_unmanaged(self, application_name, exc, old):
        return implies(fsm_state(old.self) in OPERATION_CONCILIATION and known_app(old.self, application_name)
                       and not managed_app(old.self, application_name), exc.code == NOT_MANAGED)

    def exc_RPCError_rejected_cleanly(self, exc):
        return rejected_cleanly(exc)


@contract('rpcinterface:RPCInterface.restart_application', props=['C17'])
class RestartApplication:
    """'restart ... in OPERATION only'; 'unmanaged applications [raise] NOT_MANAGED' (also in the method's own
    docstring: 'SupvisorsFaults.NOT_MANAGED if the application is not Managed in Supvisors')"""
    raises = ('RPCError',)
    types = {'wait': 'bool'}
    type_variants = [{'strategy': 'str'}, {'strategy': 'int'}, {'strategy': 'bool'}, {'strategy': 'float'},
                     {'strategy': 'List[str]'}]

    def pre_valid(self):
        return cmd_valid(self)

    def post_served_only_when_acceptable(self, strategy, application_name, old):
        return (fsm_state(old.self) == SupvisorsStates.OPERATION and valid_strategy(strategy, StartingStrategies)
                and known_app(old.self, application_name))

    def post_served_only_when_managed(self, application_name, old):
        return managed_app(old.self, application_name)

    def post_restart_requested(self, strategy, application_name, old):
        return (count_effects('stopper.restart_application') == 1
                and designates(strategy, effect_at('stopper.restart_application', 0)[0])
                and effect_at('stopper.restart_application', 0)[1] is old.self.supvisors.context.applications[application_name]
                and no_effect('fsm.set_state', 'fsm.next'))

    def exc_RPCError_bad_state(self, exc, old):
        return (exc.code == BAD_STATE) == (fsm_state(old.self) != SupvisorsStates.OPERATION)

    def exc_RPCError_codes(self, strategy, application_name, exc, old):
        return code_causes_app(old.self, strategy, application_name, exc)

    def exc_RPCError_invalid_parameters(self, strategy, application_name, exc, old):
        return implies(fsm_state(old.self) == SupvisorsStates.OPERATION
                       and not (valid_strategy(strategy, StartingStrategies) and known_app(old.self, application_name)),
                       exc.code in STRATEGY_CODES)

    def exc_RPCError_unmanaged(self, strategy, application_name, exc, old):
        return implies(fsm_state(old.self) == SupvisorsStates.OPERATION and valid_strategy(strategy, StartingStrategies)
                       and known_app(old.self, application_name) and not managed_app(old.self, application_name),
                       exc.code == NOT_MANAGED)

    def exc_RPCError_rejected_cleanly(self, exc):
        return rejected_cleanly(exc)


# ------------------------------------------------------------------------------------------ process-level commands
def known_namespec(rpc, namespec):
    """the namespec designates a known application and, unless it designates the whole group, a known process of it"""
    apps = rpc.supvisors.context.applications
    names = split_namespec(namespec)
    return names[0] in apps and (names[1] is None or names[1] == '' or names[1] in apps[names[0]].processes)


def procs_valid(context):
    """an application never stays in the Context without a process (Context.setdefault_process adds the first one at
    creation; on_process_removed_event deletes an emptied application: 'an update of numprocs cannot leave the
    application empty ... a remove_group can induce this situation')"""
    apps = context.applications
    return forall(str, lambda n: implies(n in apps, exists(str, lambda p: p in apps[n].processes)))


def code_causes_proc(rpc, strategy, namespec, exc):
    return (implies(exc.code == Faults.INCORRECT_PARAMETERS, not valid_strategy(strategy, StartingStrategies))
            and implies(exc.code == Faults.BAD_NAME, not known_namespec(rpc, namespec))
            and exc.code != NOT_MANAGED)


@contract('rpcinterface:RPCInterface.start_process', props=['C17'])
class StartProcess:
    """'start ... in OPERATION only'; unknown strategy INCORRECT_PARAMETERS, unknown namespec BAD_NAME; a rejected
    request emits nothing.  (NOT_MANAGED does not apply to process-level commands.)"""
    raises = ('RPCError',)
    types = {'wait': 'bool', 'extra_args': 'str'}
    type_variants = [{'strategy': 'str'}, {'strategy': 'int'}, {'strategy': 'bool'}, {'strategy': 'float'},
                     {'strategy': 'List[str]'}]
    loop1_effects = ('starter.start_process',)

    def pre_valid(self):
        return valid(self) and procs_valid(self.supvisors.context)

    def loop0_inv(self):
        return True

    def loop0_modifies(self):
        return []

    def loop1_inv(self):
        return True

    def post_served_only_when_acceptable(self, strategy, namespec, old):
        return (fsm_state(old.self) == SupvisorsStates.OPERATION and valid_strategy(strategy, StartingStrategies)
                and known_namespec(old.self, namespec))

    def post_no_stop_no_state_change(self):
        return no_effect('stopper.stop_application', 'stopper.stop_process', 'stopper.restart_process',
                         'stopper.restart_application', 'fsm.set_state', 'fsm.next')

    def exc_RPCError_bad_state(self, exc, old):
        return (exc.code == BAD_STATE) == (fsm_state(old.self) != SupvisorsStates.OPERATION)

    def exc_RPCError_codes(self, strategy, namespec, exc, old):
        return code_causes_proc(old.self, strategy, namespec, exc)

    def exc_RPCError_invalid_parameters(self, strategy, namespec, exc, old):
        return implies(fsm_state(old.self) == SupvisorsStates.OPERATION
                       and not (valid_strategy(strategy, StartingStrategies) and known_namespec(old.self, namespec)),
                       exc.code in STRATEGY_CODES)

    def exc_RPCError_rejected_cleanly(self, exc):
        return rejected_cleanly(exc)


@contract('rpcinterface:RPCInterface.test_start_process', props=['C17'])
class TestStartProcess:
    """'test_start ... in OPERATION only'; nothing is started or stopped"""
    raises = ('RPCError',)
    returns = 'List[Payload]'
    type_variants = [{'strategy': 'str'}, {'strategy': 'int'}, {'strategy': 'bool'}, {'strategy': 'float'},
                     {'strategy': 'List[str]'}]

    def pre_valid(self):
        return valid(self) and procs_valid(self.supvisors.context)

    def loop0_inv(self):
        return True

    def loop0_modifies(self):
        return []

    def post_served_only_when_acceptable(self, strategy, namespec, old):
        return (fsm_state(old.self) == SupvisorsStates.OPERATION and valid_strategy(strategy, StartingStrategies)
                and known_namespec(old.self, namespec))

    def post_prediction_only(self):
        return (count_effects('starter_model.test_start_processes') == 1
                and all(no_effect(e) for e in START_STOP_STATE_EFFECTS))

    def exc_RPCError_bad_state(self, exc, old):
        return (exc.code == BAD_STATE) == (fsm_state(old.self) != SupvisorsStates.OPERATION)

    def exc_RPCError_codes(self, strategy, namespec, exc, old):
        return code_causes_proc(old.self, strategy, namespec, exc)

    def exc_RPCError_invalid_parameters(self, strategy, namespec, exc, old):
        return implies(fsm_state(old.self) == SupvisorsStates.OPERATION
                       and not (valid_strategy(strategy, StartingStrategies) and known_namespec(old.self, namespec)),
                       exc.code in STRATEGY_CODES)

    def exc_RPCError_no_request(self, exc):
        return all(no_effect(e) for e in START_STOP_STATE_EFFECTS) and rejected_cleanly(exc)


@contract('rpcinterface:RPCInterface.stop_process', props=['C17'])
class StopProcess:
    """'stop requests in OPERATION or CONCILIATION'; unknown namespec BAD_NAME; a rejected request emits nothing"""
    raises = ('RPCError',)
    types = {'wait': 'bool'}
    loop0_effects = ('stopper.stop_process',)

    def pre_valid(self):
        return valid(self) and procs_valid(self.supvisors.context)

    def loop0_inv(self):
        return True

    def post_served_only_when_acceptable(self, namespec, old):
        return fsm_state(old.self) in OPERATION_CONCILIATION and known_namespec(old.self, namespec)

    def post_no_start_no_state_change(self):
        return no_effect('starter.start_application', 'starter.start_process', 'starter.start_applications',
                         'stopper.restart_process', 'stopper.restart_application', 'fsm.set_state', 'fsm.next')

    def exc_RPCError_bad_state(self, exc, old):
        return (exc.code == BAD_STATE) == (fsm_state(old.self) not in OPERATION_CONCILIATION)

    def exc_RPCError_codes(self, namespec, exc, old):
        return (implies(exc.code == Faults.BAD_NAME, not known_namespec(old.self, namespec))
                and exc.code != NOT_MANAGED and exc.code != Faults.INCORRECT_PARAMETERS)

    def exc_RPCError_invalid_parameters(self, namespec, exc, old):
        return implies(fsm_state(old.self) in OPERATION_CONCILIATION and not known_namespec(old.self, namespec),
                       exc.code == Faults.BAD_NAME)

    def exc_RPCError_rejected_cleanly(self, exc):
        return rejected_cleanly(exc)


@contract('rpcinterface:RPCInterface.restart_process', props=['C17'])
class RestartProcess:
    """'restart ... in OPERATION only'; unknown strategy INCORRECT_PARAMETERS, unknown namespec BAD_NAME"""
    raises = ('RPCError',)
    types = {'wait': 'bool', 'extra_args': 'str'}
    type_variants = [{'strategy': 'str'}, {'strategy': 'int'}, {'strategy': 'bool'}, {'strategy': 'float'},
                     {'strategy': 'List[str]'}]
    loop0_effects = ('stopper.restart_process',)

    def pre_valid(self):
        return valid(self) and procs_valid(self.supvisors.context)

    def loop0_inv(self):
        return True

    def post_served_only_when_acceptable(self, strategy, namespec, old):
        return (fsm_state(old.self) == SupvisorsStates.OPERATION and valid_strategy(strategy, StartingStrategies)
                and known_namespec(old.self, namespec))

    def post_no_state_change(self):
        return no_effect('fsm.set_state', 'fsm.next')

    def exc_RPCError_bad_state(self, exc, old):
        return (exc.code == BAD_STATE) == (fsm_state(old.self) != SupvisorsStates.OPERATION)

    def exc_RPCError_codes(self, strategy, namespec, exc, old):
        return code_causes_proc(old.self, strategy, namespec, exc)

    def exc_RPCError_invalid_parameters(self, strategy, namespec, exc, old):
        return implies(fsm_state(old.self) == SupvisorsStates.OPERATION
                       and not (valid_strategy(strategy, StartingStrategies) and known_namespec(old.self, namespec)),
                       exc.code in STRATEGY_CODES)

    def exc_RPCError_rejected_cleanly(self, exc):
        return rejected_cleanly(exc)


@contract('rpcinterface:RPCInterface.start_any_process', props=['C17'])
class StartAnyProcess:
    """'start ... in OPERATION only'; unknown strategy INCORRECT_PARAMETERS; every escaping exception is an RPCError
    (start_process is inlined: the namespec passed is the one of a process found in the Context)"""
    raises = ('RPCError',)
    types = {'wait': 'bool', 'extra_args': 'str', 'regex': 'str', 'namespec': 'Optional[str]'}
    type_variants = [{'strategy': 'str'}, {'strategy': 'int'}, {'strategy': 'bool'}, {'strategy': 'float'},
                     {'strategy': 'List[str]'}]
    inline = ['rpcinterface:RPCInterface.start_process']

    def pre_valid(self):
        return valid(self) and procs_valid(self.supvisors.context)

    def loop0_inv(self, namespec):
        return namespec is None

    def loop0_modifies(self):
        return []

    def post_served_only_when_acceptable(self, strategy, old):
        return fsm_state(old.self) == SupvisorsStates.OPERATION and valid_strategy(strategy, StartingStrategies)

    def post_no_stop_no_state_change(self):
        return no_effect('stopper.stop_application', 'stopper.stop_process', 'stopper.restart_process',
                         'stopper.restart_application', 'fsm.set_state', 'fsm.next')

    def exc_RPCError_bad_state(self, exc, old):
        return (exc.code == BAD_STATE) == (fsm_state(old.self) != SupvisorsStates.OPERATION)

    def exc_RPCError_codes(self, strategy, exc, old):
        # no converse 'INCORRECT_PARAMETERS only for an unknown strategy' here: the statement does not ask for it and
        # the regex is a second parameter that can be incorrect (strings are uninterpreted: its validity is not modelled)
        return exc.code != NOT_MANAGED

    def exc_RPCError_invalid_parameters(self, strategy, exc, old):
        return implies(fsm_state(old.self) == SupvisorsStates.OPERATION
                       and not valid_strategy(strategy, StartingStrategies), exc.code == Faults.INCORRECT_PARAMETERS)

    def exc_RPCError_rejected_cleanly(self, exc):
        return rejected_cleanly(exc)


# ------------------------------------------------------------------------------------------ other commands
@contract('rpcinterface:RPCInterface.conciliate', props=['C17'])
class Conciliate:
    """'conciliate in CONCILIATION ... otherwise raises BAD_SUPVISORS_STATE without any effect', 'unknown strategies
    INCORRECT_PARAMETERS'"""
    raises = ('RPCError',)
    returns = 'bool'
    type_variants = [{'strategy': 'str'}, {'strategy': 'int'}, {'strategy': 'bool'}, {'strategy': 'float'},
                     {'strategy': 'List[str]'}]

    def pre_valid(self):
        return valid(self)

    def post_served_only_when_acceptable(self, strategy, old):
        return (fsm_state(old.self) == SupvisorsStates.CONCILIATION
                and valid_strategy(strategy, ConciliationStrategies))

    def post_conciliation_iff_not_user(self, strategy, result):
        user = designates(strategy, ConciliationStrategies.USER)
        return (result == (not user) and count_effects('conciliate_conflicts') == (0 if user else 1)
                and no_effect('fsm.set_state', 'fsm.next'))

    def exc_RPCError_bad_state(self, exc, old):
        return (exc.code == BAD_STATE) == (fsm_state(old.self) != SupvisorsStates.CONCILIATION)

    def exc_RPCError_incorrect_parameters(self, strategy, exc, old):
        return (exc.code in (BAD_STATE, Faults.INCORRECT_PARAMETERS)
                and implies(exc.code == Faults.INCORRECT_PARAMETERS,
                            not valid_strategy(strategy, ConciliationStrategies)))

    def exc_RPCError_rejected_cleanly(self, exc):
        return rejected_cleanly(exc)


@contract('rpcinterface:RPCInterface.restart_sequence', props=['C17'])
class RestartSequence:
    """'restart_sequence in OPERATION only ... otherwise raises BAD_SUPVISORS_STATE without any effect' (the method
    also answers BAD_SUPVISORS_STATE in OPERATION while starting / stopping jobs are in progress somewhere)"""
    raises = ('RPCError',)
    types = {'wait': 'bool'}

    def pre_valid(self):
        return valid(self)

    def post_served_only_in_operation(self, old):
        return fsm_state(old.self) == SupvisorsStates.OPERATION

    def post_served_only_without_jobs_anywhere(self, old):
        """documented refusal (docstring: 'BAD_SUPVISORS_STATE if ... starting / stopping jobs are in progress'): the
        request is served only when NO Supvisors instance - not just the local one - reports jobs in progress"""
        sms = old.self.supvisors.state_modes.instance_state_modes
        return forall(sms, lambda i: not sms[i].starting_jobs and not sms[i].stopping_jobs)

    def post_sequence_requested(self):
        return (count_effects('starter.start_applications') == 1
                and no_effect('stopper.stop_application', 'stopper.stop_process', 'fsm.set_state', 'fsm.next'))

    def exc_RPCError_bad_state(self, exc, old):
        return implies(fsm_state(old.self) != SupvisorsStates.OPERATION, exc.code == BAD_STATE)

    def exc_RPCError_codes(self, exc):
        return exc.code in (BAD_STATE, Faults.ABNORMAL_TERMINATION)

    def exc_RPCError_rejected_cleanly(self, exc):
        return rejected_cleanly(exc)


@contract('rpcinterface:RPCInterface.enable', props=['C17'])
class Enable:
    """'enable ... in OPERATION only ... otherwise raises BAD_SUPVISORS_STATE without any effect'; unknown program
    BAD_NAME"""
    raises = ('RPCError',)
    types = {'wait': 'bool'}

    def pre_valid(self):
        return valid(self)

    def post_served_only_when_acceptable(self, program_name, old):
        return (fsm_state(old.self) == SupvisorsStates.OPERATION
                and program_name in old.self.supvisors.server_options.program_configs)

    def post_enabled(self, program_name):
        return (count_effects('supervisor_updater.enable_program') == 1
                and effect_at('supervisor_updater.enable_program', 0)[0] == program_name
                and no_effect('starter.start_process', 'stopper.stop_process', 'fsm.set_state', 'fsm.next'))

    def exc_RPCError_bad_state(self, exc, old):
        return (exc.code == BAD_STATE) == (fsm_state(old.self) != SupvisorsStates.OPERATION)

    def exc_RPCError_bad_name(self, program_name, exc, old):
        return (exc.code in (BAD_STATE, Faults.BAD_NAME)
                and implies(exc.code == Faults.BAD_NAME,
                            program_name not in old.self.supvisors.server_options.program_configs))

    def exc_RPCError_rejected_cleanly(self, exc):
        return rejected_cleanly(exc)


# ------------------------------------------------------------------------------------------ restart / shutdown / end_sync
def master_known(rpc):
    sv = rpc.supvisors
    return sv.state_modes.instance_state_modes[sv.mapper.local_identifier].master_identifier != ''


def fsm_valid(fsm):
    sv = fsm.supvisors
    return (sv.state_modes.supvisors is sv and sv.mapper.local_identifier in sv.state_modes.instance_state_modes
            and sv.mapper.local_identifier != '')


def fsm_master(fsm):
    sv = fsm.supvisors
    return sv.state_modes.instance_state_modes[sv.mapper.local_identifier].master_identifier


@contract('statemachine:FiniteStateMachine.on_restart', props=['C17'])
class FsmOnRestart:
    """internal handler behind the restart XML-RPC (contract from the code): the request is applied (Master) or
    re-routed to the known Master; RuntimeError exactly when no Master is known - which the XML-RPC must turn into
    BAD_SUPVISORS_STATE ('any raised exception is an RPCError, incl. through fsm.on_restart', DESIGN C17)"""
    raises = ('RuntimeError',)

    def pre_valid(self):
        return fsm_valid(self)

    def post_applied_or_rerouted(self, old):
        return (fsm_master(old.self) != ''
                and count_effects('fsm.set_state') + count_effects('rpc_handler.send_restart_all') == 1)

    def exc_RuntimeError_no_master(self, old):
        return fsm_master(old.self) == '' and no_effect() and unchanged()


@contract('statemachine:FiniteStateMachine.on_shutdown', props=['C17'])
class FsmOnShutdown:
    """internal handler behind the shutdown XML-RPC (contract from the code): ValueError exactly when no Master is
    known"""
    raises = ('ValueError',)

    def pre_valid(self):
        return fsm_valid(self)

    def post_applied_or_rerouted(self, old):
        return (fsm_master(old.self) != ''
                and count_effects('fsm.set_state') + count_effects('rpc_handler.send_shutdown_all') == 1)

    def exc_ValueError_no_master(self, old):
        return fsm_master(old.self) == '' and no_effect() and unchanged()


@contract('statemachine:FiniteStateMachine.on_end_sync', props=['C17'])
class FsmOnEndSync:
    """internal handler behind the end_sync XML-RPC: 'any raised exception is an RPCError, incl. through
    fsm.on_end_sync' - nothing escapes; an election takes place only when the user gave no Master, then the FSM is
    re-evaluated once (which may change everything, including the Master: no claim on the final state)"""
    raises = ()

    def pre_valid(self):
        return fsm_valid(self)

    def post_master_then_next(self, master_identifier):
        return (count_effects('fsm.next') == 1
                and implies(master_identifier != '', no_effect('state_modes.select_master'))
                and implies(master_identifier == '', count_effects('state_modes.select_master') == 1))


@contract('rpcinterface:RPCInterface.restart', props=['C17'])
class Restart:
    """'restart/shutdown from DISTRIBUTION on - and otherwise raises BAD_SUPVISORS_STATE without any effect'; docstring:
    'BAD_SUPVISORS_STATE if Supvisors is still in state SYNCHRONIZATION or has no Master instance to perform the
    request'.  fsm.on_restart is inlined (real code)."""
    raises = ('RPCError',)
    returns = 'bool'
    inline = ['statemachine:FiniteStateMachine.on_restart']

    def pre_valid(self):
        return valid(self)

    def post_served_only_from_distribution(self, old):
        return fsm_state(old.self) in FROM_DISTRIBUTION

    def post_applied_or_rerouted(self):
        return (count_effects('fsm.set_state') + count_effects('rpc_handler.send_restart_all') == 1
                and no_effect('rpc_handler.send_shutdown_all'))

    def exc_RPCError_bad_state(self, exc, old):
        return exc.code == BAD_STATE and (fsm_state(old.self) not in FROM_DISTRIBUTION or not master_known(old.self))

    def exc_RPCError_rejected_cleanly(self, exc):
        return rejected_cleanly(exc)


@contract('rpcinterface:RPCInterface.shutdown', props=['C17'])
class Shutdown:
    """'restart/shutdown from DISTRIBUTION on - and otherwise raises BAD_SUPVISORS_STATE without any effect'.
    fsm.on_shutdown is inlined (real code)."""
    raises = ('RPCError',)
    returns = 'bool'
    inline = ['statemachine:FiniteStateMachine.on_shutdown']

    def pre_valid(self):
        return valid(self)

    def post_served_only_from_distribution(self, old):
        return fsm_state(old.self) in FROM_DISTRIBUTION

    def post_applied_or_rerouted(self):
        return (count_effects('fsm.set_state') + count_effects('rpc_handler.send_shutdown_all') == 1
                and no_effect('rpc_handler.send_restart_all'))

    def exc_RPCError_bad_state(self, exc, old):
        return exc.code == BAD_STATE and (fsm_state(old.self) not in FROM_DISTRIBUTION or not master_known(old.self))

    def exc_RPCError_rejected_cleanly(self, exc):
        return rejected_cleanly(exc)


@contract('rpcinterface:RPCInterface.end_sync', props=['C17'])
class EndSync:
    """'end_sync in SYNCHRONIZATION with the USER option ... and otherwise raises BAD_SUPVISORS_STATE without any
    effect', 'Unknown ... instance names raise BAD_NAME' (DESIGN: SYNCHRONIZATION and USER and no Master yet; the code
    answers NOT_APPLICABLE, not BAD_SUPVISORS_STATE, when USER is not in synchro_options - the statement only requires
    that the request is not served, see post_served_only_when_acceptable).  fsm.on_end_sync is inlined (real code)."""
    raises = ('RPCError',)
    returns = 'bool'
    types = {'master': 'str'}
    inline = ['statemachine:FiniteStateMachine.on_end_sync']

    def pre_valid(self):
        sv = self.supvisors
        return (valid(self)
                and forall(str, lambda i: implies(i in sv.mapper.instances, i in sv.context.instances)))

    def post_served_only_when_acceptable(self, old):
        return (fsm_state(old.self) == SupvisorsStates.SYNCHRONIZATION and not master_known(old.self)
                and SynchronizationOptions.USER in old.self.supvisors.options.synchro_options)

    def post_known_running_master(self, master, old):
        sv = old.self.supvisors
        return implies(master != '', exists(str, lambda i: i in sv.mapper.instances
                                            and sv.context.instances[i]._state == SupvisorsInstanceStates.RUNNING))

    def post_fsm_triggered_once(self):
        return count_effects('fsm.next') == 1 and no_effect('starter.start_process', 'stopper.stop_process')

    def exc_RPCError_bad_state(self, exc, old):
        return (implies(fsm_state(old.self) != SupvisorsStates.SYNCHRONIZATION, exc.code == BAD_STATE)
                and implies(exc.code == BAD_STATE,
                            fsm_state(old.self) != SupvisorsStates.SYNCHRONIZATION or master_known(old.self)))

    def exc_RPCError_codes(self, master, exc, old):
        return (exc.code in (BAD_STATE, NOT_APPLICABLE, Faults.BAD_NAME, Faults.INCORRECT_PARAMETERS, Faults.NOT_RUNNING)
                and implies(exc.code == NOT_APPLICABLE,
                            SynchronizationOptions.USER not in old.self.supvisors.options.synchro_options)
                and implies(exc.code == Faults.BAD_NAME, master != ''))

    def exc_RPCError_nothing_triggered(self, exc):
        return no_effect() and unchanged()


@contract('rpcinterface:RPCInterface.update_numprocs', props=['C17'])
class UpdateNumprocs:
    """'update_numprocs ... in OPERATION only ... otherwise raises BAD_SUPVISORS_STATE without any effect'; unknown
    program BAD_NAME; numprocs not strictly positive INCORRECT_PARAMETERS.  The post-checks _check_process_insertion /
    _decrease_numprocs are taken by assumed contracts (see not_decided)."""
    raises = ('RPCError',)
    types = {'numprocs': 'int', 'wait': 'bool', 'lazy': 'bool'}

    def pre_valid(self):
        return valid(self)

    def post_served_only_when_acceptable(self, program_name, numprocs, old):
        return (fsm_state(old.self) == SupvisorsStates.OPERATION and numprocs > 0
                and program_name in old.self.supvisors.server_options.program_configs)

    def post_update_requested(self, program_name, numprocs):
        return (count_effects('supervisor_updater.update_numprocs') == 1
                and effect_at('supervisor_updater.update_numprocs', 0)[0] == program_name
                and effect_at('supervisor_updater.update_numprocs', 0)[1] == numprocs
                and no_effect('starter.start_process', 'fsm.set_state', 'fsm.next'))

    def exc_RPCError_bad_state(self, exc, old):
        return (exc.code == BAD_STATE) == (fsm_state(old.self) != SupvisorsStates.OPERATION)

    def exc_RPCError_codes(self, program_name, numprocs, exc, old):
        return (implies(exc.code == Faults.BAD_NAME,
                        program_name not in old.self.supvisors.server_options.program_configs)
                and implies(exc.code == Faults.INCORRECT_PARAMETERS, numprocs <= 0)
                and exc.code != NOT_MANAGED)

    def exc_RPCError_invalid_parameters(self, program_name, numprocs, exc, old):
        return implies(fsm_state(old.self) == SupvisorsStates.OPERATION
                       and (numprocs <= 0 or program_name not in old.self.supvisors.server_options.program_configs),
                       exc.code in STRATEGY_CODES)

    def exc_RPCError_rejected_cleanly(self, exc):
        return rejected_cleanly(exc)


# ------------------------------------------------------------------------------------------ status queries
@contract('rpcinterface:RPCInterface.get_application_info', props=['C17'])
class GetApplicationInfo:
    """'status queries from DISTRIBUTION on ... otherwise raises BAD_SUPVISORS_STATE without any effect'; unknown
    application BAD_NAME; a status query never triggers anything"""
    raises = ('RPCError',)
    returns = 'Payload'

    def pre_valid(self):
        return cmd_valid(self)

    def post_served_only_when_acceptable(self, application_name, old):
        return fsm_state(old.self) in FROM_DISTRIBUTION and known_app(old.self, application_name)

    def post_read_only(self):
        return no_effect() and unchanged()

    def exc_RPCError_bad_state(self, exc, old):
        return (exc.code == BAD_STATE) == (fsm_state(old.self) not in FROM_DISTRIBUTION)

    def exc_RPCError_bad_name(self, application_name, exc, old):
        return (exc.code in (BAD_STATE, Faults.BAD_NAME)
                and implies(exc.code == Faults.BAD_NAME, not known_app(old.self, application_name)))

    def exc_RPCError_rejected_cleanly(self, exc):
        return no_effect() and unchanged()
