"""C17 - XML-RPC commands are gated by Supvisors state and fail cleanly.

Statement: 'Each XML-RPC is served only in its documented Supvisors states - status queries from DISTRIBUTION on,
start/restart/test_start/update_numprocs/enable/disable/restart_sequence in OPERATION only, stop requests in OPERATION
or CONCILIATION, conciliate in CONCILIATION, end_sync in SYNCHRONIZATION with the USER option, restart/shutdown from
DISTRIBUTION on - and otherwise raises BAD_SUPVISORS_STATE without any effect. Unknown application, process or
instance names raise BAD_NAME, unknown strategies INCORRECT_PARAMETERS, unmanaged applications NOT_MANAGED, and a
rejected request emits no start, stop or state change.'

The FSM state is a symbolic member of SupvisorsStates: every contract below is proved for the nine states at once.
"""
from pyvc.spec import *
from supervisor.options import split_namespec

BAD_STATE = SupvisorsFaults.BAD_SUPVISORS_STATE.value
NOT_MANAGED = SupvisorsFaults.NOT_MANAGED.value
NOT_APPLICABLE = SupvisorsFaults.NOT_APPLICABLE.value
# the fault codes of a *rejected* request (statement: 'a rejected request emits no start, stop or state change')
REJECTED = (SupvisorsFaults.BAD_SUPVISORS_STATE.value, SupvisorsFaults.NOT_MANAGED.value, Faults.BAD_NAME,
            Faults.INCORRECT_PARAMETERS)

FROM_DISTRIBUTION = (SupvisorsStates.DISTRIBUTION, SupvisorsStates.OPERATION, SupvisorsStates.CONCILIATION,
                     SupvisorsStates.RESTARTING, SupvisorsStates.SHUTTING_DOWN)
OPERATION_CONCILIATION = (SupvisorsStates.OPERATION, SupvisorsStates.CONCILIATION)


# ------------------------------------------------------------------------------------------ structural validity
def valid(rpc):
    """Structural validity the code relies on everywhere (DESIGN 1.4, last bullet; established by
    Supvisors.__init__ / SupvisorsStateModes.__init__ / Context.__init__ and kept by add_instance): one global
    Supvisors structure shared by all components, and the local instance has its StateModes / status entries."""
    sv = rpc.supvisors
    return (sv.fsm.supvisors is sv and sv.state_modes.supvisors is sv and sv.context.supvisors is sv
            and sv.mapper.local_identifier in sv.state_modes.instance_state_modes)


def fsm_state(rpc):
    """the gate input (anchor: fsm.state, rpcinterface.py _check_state), over raw fields"""
    sv = rpc.supvisors
    return sv.state_modes.instance_state_modes[sv.mapper.local_identifier].state


def rejected_cleanly(exc):
    """'... raises BAD_SUPVISORS_STATE without any effect', 'a rejected request emits no start, stop or state
    change': no ghost effect was logged and no pre-existing heap location was written"""
    return implies(exc.code in REJECTED, no_effect() and unchanged())


# ------------------------------------------------------------------------------------------ helpers: state gates
@contract('rpcinterface:RPCInterface._check_state', props=['C17'])
class CheckState:
    """'... and otherwise raises BAD_SUPVISORS_STATE without any effect': returns normally iff the FSM state is one of
    `states`, else raises RPCError(BAD_SUPVISORS_STATE); modifies nothing"""
    raises = ('RPCError',)
    types = {'states': 'List[SupvisorsStates]'}

    def modifies(self):
        return []

    def pre_valid(self):
        return valid(self)

    def post_only_in_listed_states(self, states):
        return fsm_state(self) in states

    def exc_RPCError_bad_state(self, states, exc):
        return fsm_state(self) not in states and exc.code == BAD_STATE and no_effect()


@contract('rpcinterface:RPCInterface._check_from_distribution', props=['C17'])
class CheckFromDistribution:
    """'status queries from DISTRIBUTION on', 'restart/shutdown from DISTRIBUTION on'"""
    raises = ('RPCError',)

    def modifies(self):
        return []

    def pre_valid(self):
        return valid(self)

    def post_state(self):
        return fsm_state(self) in FROM_DISTRIBUTION

    def exc_RPCError_bad_state(self, exc):
        return fsm_state(self) not in FROM_DISTRIBUTION and exc.code == BAD_STATE and no_effect()


@contract('rpcinterface:RPCInterface._check_operating', props=['C17'])
class CheckOperating:
    """'start/restart/test_start/update_numprocs/enable/disable/restart_sequence in OPERATION only'"""
    raises = ('RPCError',)

    def modifies(self):
        return []

    def pre_valid(self):
        return valid(self)

    def post_state(self):
        return fsm_state(self) == SupvisorsStates.OPERATION

    def exc_RPCError_bad_state(self, exc):
        return fsm_state(self) != SupvisorsStates.OPERATION and exc.code == BAD_STATE and no_effect()


@contract('rpcinterface:RPCInterface._check_operating_conciliation', props=['C17'])
class CheckOperatingConciliation:
    """'stop requests in OPERATION or CONCILIATION'"""
    raises = ('RPCError',)

    def modifies(self):
        return []

    def pre_valid(self):
        return valid(self)

    def post_state(self):
        return fsm_state(self) in OPERATION_CONCILIATION

    def exc_RPCError_bad_state(self, exc):
        return fsm_state(self) not in OPERATION_CONCILIATION and exc.code == BAD_STATE and no_effect()


@contract('rpcinterface:RPCInterface._check_conciliation', props=['C17'])
class CheckConciliation:
    """'conciliate in CONCILIATION'"""
    raises = ('RPCError',)

    def modifies(self):
        return []

    def pre_valid(self):
        return valid(self)

    def post_state(self):
        return fsm_state(self) == SupvisorsStates.CONCILIATION

    def exc_RPCError_bad_state(self, exc):
        return fsm_state(self) != SupvisorsStates.CONCILIATION and exc.code == BAD_STATE and no_effect()


# ------------------------------------------------------------------------------------------ helpers: names
@contract('rpcinterface:RPCInterface._get_application', props=['C17'])
class GetApplication:
    """'Unknown application ... names raise BAD_NAME'"""
    raises = ('RPCError',)

    def modifies(self):
        return []

    def post_known(self, application_name, result):
        apps = self.supvisors.context.applications
        return application_name in apps and result is apps[application_name]

    def exc_RPCError_bad_name(self, application_name, exc):
        return (application_name not in self.supvisors.context.applications and exc.code == Faults.BAD_NAME
                and no_effect())


@contract('rpcinterface:RPCInterface._get_process', props=['C17'])
class GetProcess:
    """'Unknown ... process ... names raise BAD_NAME'"""
    raises = ('RPCError',)
    returns = 'ProcessStatus'

    def modifies(self):
        return []

    def post_known(self, application, process_name, result):
        return process_name in application.processes and result is application.processes[process_name]

    def exc_RPCError_bad_name(self, application, process_name, exc):
        return process_name not in application.processes and exc.code == Faults.BAD_NAME and no_effect()


@contract('rpcinterface:RPCInterface._get_application_process', props=['C17'])
class GetApplicationProcess:
    """'Unknown application, process ... names raise BAD_NAME': the namespec is split by Supervisor's split_namespec
    (assumed external, a function of its argument); the group must be a known application and, unless the namespec
    designates the whole group ('group:*' / 'group:'), the process must be known in that application"""
    raises = ('RPCError',)

    def modifies(self):
        return []

    def post_known(self, namespec, result):
        apps = self.supvisors.context.applications
        names = split_namespec(namespec)
        return (names[0] in apps and result[0] is apps[names[0]]
                and ite(names[1] is None or names[1] == '', result[1] is None,
                        names[1] in result[0].processes and result[1] is result[0].processes[names[1]]))

    def exc_RPCError_bad_name(self, namespec, exc):
        apps = self.supvisors.context.applications
        names = split_namespec(namespec)
        return (exc.code == Faults.BAD_NAME and no_effect()
                and (names[0] not in apps
                     or (names[1] is not None and names[1] != '' and names[1] not in apps[names[0]].processes)))
