"""C17 - XML-RPC commands are gated by Supvisors state and fail cleanly."""
from pyvc.spec import *


@contract('rpcinterface:RPCInterface._check_state', props=['C17'])
class CheckState:
    """'... and otherwise raises BAD_SUPVISORS_STATE without any effect'"""
    raises = ('RPCError',)
    types = {'states': 'List[SupvisorsStates]'}

    def modifies(self):
        return []

    def post_only_in_listed_states(self, states):
        return self.supvisors.fsm.state_modes.local_state_modes.state in states

    def exc_RPCError_bad_state(self, states, exc):
        return (self.supvisors.fsm.state_modes.local_state_modes.state not in states
                and exc.code == SupvisorsFaults.BAD_SUPVISORS_STATE.value and no_effect())
