"""C07 - Silent instances are detected in bounded time, live ones never declared lost."""
from pyvc.spec import *

ACTIVE = [SupvisorsInstanceStates.CHECKING, SupvisorsInstanceStates.CHECKED, SupvisorsInstanceStates.RUNNING,
          SupvisorsInstanceStates.FAILED]


@contract('instancestatus:SupvisorsInstanceStatus.is_inactive', props=['C07'])
class IsInactive:
    """statement: 'declared FAILED no later than the first local tick at which more than inactivity_ticks local
    ticks have passed since its last tick was received'"""
    raises = ()

    def modifies(self):
        return []

    def post_definition(self, local_sequence_counter, result):
        return result == (self._state in ACTIVE
                          and local_sequence_counter - self.times.local_sequence_counter
                          > self.supvisors.options.inactivity_ticks)
