"""C07 - Silent instances are detected in bounded time, live ones never declared lost."""
from pyvc.spec import *

GROUP = 'members'   # contracts of one group use each other's contracts at call sites (pyvc/hooks.py contract_for_call)

ACTIVE = [SupvisorsInstanceStates.CHECKING, SupvisorsInstanceStates.CHECKED, SupvisorsInstanceStates.RUNNING,
          SupvisorsInstanceStates.FAILED]


# ------------------------------------------------------------------------------------------ structural validity
# Shared predicate (other contract files copy or call it): the four per-instance maps of one Supvisors root have the
# same domain, are keyed by the identifier of their entries, and the local identifier is one of the keys.
# Established by the constructors (Context.__init__, SupvisorsStateModes.__init__ iterate over mapper.instances) and
# preserved by the only mutator of the domains, Context.on_discovery_event (mapper.add_instance + state_modes.add_instance).
def valid_structure(sv):
    local = sv.mapper.local_identifier
    return (local is not None and local in sv.context.instances
            and forall(str, lambda i: (i in sv.context.instances) == (i in sv.mapper._instances))
            and forall(str, lambda i: (i in sv.context.instances) == (i in sv.state_modes.instance_state_modes))
            and forall(str, lambda i: (i in sv.context.instances) == (
                i in sv.state_modes.instance_state_modes[local].instance_states))
            and forall(str, lambda i: implies(i in sv.context.instances,
                                              sv.context.instances[i].supvisors_id.identifier == i
                                              and sv.context.instances[i].supvisors is sv
                                              and sv.mapper._instances[i].identifier == i
                                              and sv.state_modes.instance_state_modes[i].supvisors_id.identifier == i))
            and sv.context.supvisors is sv and sv.state_modes.supvisors is sv and sv.mapper.supvisors is sv
            and sv.context.instances is not sv.mapper._instances
            and sv.context.instances is not sv.state_modes.instance_state_modes
            and sv.mapper._instances is not sv.state_modes.instance_state_modes)


def distinct_entries(sv):
    """two identifiers never share their status / state-modes objects nor the dict of peer states they publish"""
    return (forall(str, str, lambda i, j: implies(
        i != j and i in sv.context.instances and j in sv.context.instances,
        sv.context.instances[i] is not sv.context.instances[j]
        and sv.state_modes.instance_state_modes[i] is not sv.state_modes.instance_state_modes[j]
        and sv.state_modes.instance_state_modes[i].instance_states
        is not sv.state_modes.instance_state_modes[j].instance_states))
        and forall(str, lambda i: implies(i in sv.context.instances,
                                          is_alloc(sv.state_modes.instance_state_modes[i].instance_states)
                                          and sv.state_modes.instance_state_modes[i].instance_states
                                          is not sv.context.instances
                                          and sv.state_modes.instance_state_modes[i].instance_states
                                          is not sv.mapper._instances
                                          and sv.state_modes.instance_state_modes[i].instance_states
                                          is not sv.state_modes.instance_state_modes)))


# ------------------------------------------------------------------------------------------ instance state graph
def graph(old, new):
    """statement: 'The state reported for a peer only changes along STOPPED, CHECKING, CHECKED, RUNNING, FAILED and
    back to STOPPED or to ISOLATED as documented; ... ISOLATED is final'  (documented graph:
    STOPPED->CHECKING->{STOPPED, CHECKED, FAILED, ISOLATED}, CHECKED->{RUNNING, FAILED}, RUNNING->FAILED,
    FAILED->{STOPPED, ISOLATED}, ISOLATED->nothing)"""
    S = SupvisorsInstanceStates
    return ((old == S.STOPPED and new == S.CHECKING)
            or (old == S.CHECKING and new in (S.STOPPED, S.CHECKED, S.FAILED, S.ISOLATED))
            or (old == S.CHECKED and new in (S.RUNNING, S.FAILED))
            or (old == S.RUNNING and new == S.FAILED)
            or (old == S.FAILED and new in (S.STOPPED, S.ISOLATED)))




# ------------------------------------------------------------------------------------------ detection predicate
def stamp(old_remote_counter, remote_counter, local_counter):
    """local counter recorded for a tick of a peer: the local counter current at reception; the peer's own counter for
    the local instance (code convention local_counter < 0); 0 when the remote counter went backwards (stealth restart)"""
    return ite(remote_counter < old_remote_counter, 0, ite(local_counter < 0, remote_counter, local_counter))


def inactive(state, current, stamped, inactivity_ticks):
    """statement: 'more than inactivity_ticks local ticks have passed since its last tick was received'"""
    return state in ACTIVE and current - stamped > inactivity_ticks


@contract('instancestatus:SupvisorsInstanceStatus.is_inactive', props=['C07'])
class IsInactive:
    """statement: 'declared FAILED no later than the first local tick at which more than inactivity_ticks local
    ticks have passed since its last tick was received'"""
    raises = ()

    def modifies(self):
        return []

    def post_definition(self, local_sequence_counter, result):
        return result == inactive(self._state, local_sequence_counter, self.times.local_sequence_counter,
                                  self.supvisors.options.inactivity_ticks)


@lemma(props=['C07'], types={'status': 'SupvisorsInstanceStatus', 'old_remote': 'int', 'remote': 'int', 'c0': 'int',
                             'c': 'int'})
def accuracy(status, old_remote, remote, c0, c):
    """statement: 'A peer seen RUNNING whose ticks keep arriving (at least one within any inactivity_ticks consecutive
    local ticks), that has not restarted ... is never declared FAILED' - over the contracts of SupvisorsTimes.update
    (the stamp) and is_inactive (the predicate): a tick received at local counter c0 keeps the peer active at every
    local tick c with c - c0 <= inactivity_ticks."""
    n = status.supvisors.options.inactivity_ticks
    assume(remote >= old_remote and c0 >= 0)
    assume(status.times.local_sequence_counter == stamp(old_remote, remote, c0))
    assume(c - c0 <= n)
    return not inactive(status._state, c, status.times.local_sequence_counter, n)


@lemma(props=['C07'], types={'status': 'SupvisorsInstanceStatus', 'old_remote': 'int', 'remote': 'int', 'c0': 'int',
                             'c': 'int'})
def completeness(status, old_remote, remote, c0, c):
    """statement: 'A peer that falls silent is declared FAILED no later than the first local tick at which more than
    inactivity_ticks local ticks have passed since its last tick was received'; a restarted peer (decreasing counter)
    is treated as silent since local tick 0."""
    n = status.supvisors.options.inactivity_ticks
    assume(c0 >= 0 and status._state in ACTIVE)
    assume(status.times.local_sequence_counter == stamp(old_remote, remote, c0))
    assume(ite(remote >= old_remote, c - c0 > n, c > n))
    return inactive(status._state, c, status.times.local_sequence_counter, n)


@contract('instancestatus:SupvisorsTimes.update', props=['C07'])
class TimesUpdate:
    """statement: 'more than inactivity_ticks local ticks have passed since its last tick was received' - the tick is
    stamped with the local counter current at reception; 'that has not restarted': a decreasing remote counter
    (stealth restart) forces the stamp to 0 so that the periodic check declares the peer lost.
    local_sequence_counter < 0 is the code's convention for 'this is the local instance': the stamp is its own counter."""
    raises = ()

    def modifies(self):
        return [field(self, f) for f in ('remote_sequence_counter', 'remote_mtime', 'remote_time',
                                         'local_sequence_counter', 'local_mtime', 'local_time', 'start_local_mtime')]

    def post_stamp(self, remote_sequence_counter, local_sequence_counter, old):
        return self.local_sequence_counter == stamp(old.self.remote_sequence_counter, remote_sequence_counter,
                                                    local_sequence_counter)

    def post_remote(self, remote_sequence_counter, remote_mtime, remote_time):
        return (self.remote_sequence_counter == remote_sequence_counter and self.remote_mtime == remote_mtime
                and self.remote_time == remote_time)


# ------------------------------------------------------------------------------------------ instance state
def status_pre(status):
    """a status of the context of its Supvisors root (shape taken from Context.__init__ / on_discovery_event)"""
    sv = status.supvisors
    return (valid_structure(sv) and distinct_entries(sv) and status.supvisors_id.identifier in sv.context.instances
            and sv.context.instances[status.supvisors_id.identifier] is status)


@contract('instancestatus:SupvisorsInstanceStatus.state[setter]', props=['C07', 'C13'])
class StateSetter:
    """statement: 'The state reported for a peer only changes along STOPPED, CHECKING, CHECKED, RUNNING, FAILED and back
    to STOPPED or to ISOLATED as documented; ... ISOLATED is final.'  The setter is the only writer of _state
    (structural obligation): it refuses every change that is not an edge of the documented graph."""
    raises = ('InvalidTransition',)

    def modifies(self):
        sms = self.supvisors.state_modes
        local = sms.instance_state_modes[self.supvisors.mapper.local_identifier]
        return [field(self, '_state'), field(self, 'checking_time'),
                contents(local.instance_states), field(local, 'master_identifier'), field(sms, 'update_mark'),
                contents(sms.instance_state_modes)]

    def pre_valid(self):
        return status_pre(self)

    def post_state(self, new_state, old):
        return self._state == new_state and (old.self._state == new_state or graph(old.self._state, new_state))

    def post_local_view(self, new_state, old):
        """the state published for the peer is the one just set"""
        sv = self.supvisors
        return implies(old.self._state != new_state,
                       sv.state_modes.instance_state_modes[sv.mapper.local_identifier].instance_states[
                           self.supvisors_id.identifier] == new_state)

    def post_checking_time(self, new_state, old):
        """stale handshake notifications are recognised through the date of entry in CHECKING"""
        return ite(old.self._state != new_state and new_state == SupvisorsInstanceStates.CHECKING,
                   self.checking_time >= clock(), self.checking_time == old.self.checking_time)

    def post_still_valid(self):
        return status_pre(self)

    def post_same_state_is_noop(self, new_state, old):
        return implies(old.self._state == new_state, no_effect())

    def post_local_entry_kept(self, old):
        """the StateModes object of the LOCAL instance is never replaced (only a STOPPED / ISOLATED peer gets a fresh
        one): callers state their frames on it"""
        sv = self.supvisors
        lid = sv.mapper.local_identifier
        return sv.state_modes.instance_state_modes[lid] is old.self.supvisors.state_modes.instance_state_modes[lid]

    def exc_InvalidTransition_refused(self, new_state, old):
        return (old.self._state != new_state and not graph(old.self._state, new_state)
                and self._state == old.self._state and no_effect())


@contract('context:Context.export_status', props=['C07'])
class ExportStatus:
    """publication of one instance status to the listeners: changes nothing"""
    raises = ()
    effect = 'export_status'

    def modifies(self, status):
        return []


def invalid_state(ctx, status, fence):
    """statement: 'it is STOPPED (ISOLATED when auto_fence is set and the Master is in a working state)'; 'a peer that
    reports the local instance as ISOLATED, or whose ... strategies differ ... is marked ISOLATED' (fence);
    'the local instance is never ISOLATED'"""
    sv = ctx.supvisors
    master = sv.state_modes.instance_state_modes[sv.mapper.local_identifier].master_identifier
    master_working = (master in sv.state_modes.instance_state_modes
                      and sv.state_modes.instance_state_modes[master].state in WORKING_STATES)
    return ite(status.supvisors_id.identifier == sv.mapper.local_identifier, SupvisorsInstanceStates.STOPPED,
               ite(fence or (sv.options.auto_fence and master_working),
                   SupvisorsInstanceStates.ISOLATED, SupvisorsInstanceStates.STOPPED))


def setter_frame(status):
    """what a change of instance state may touch (frame of the state setter)"""
    sms = status.supvisors.state_modes
    local = sms.instance_state_modes[status.supvisors.mapper.local_identifier]
    return [field(status, '_state'), field(status, 'checking_time'),
            contents(local.instance_states), field(local, 'master_identifier'), field(sms, 'update_mark'),
            contents(sms.instance_state_modes)]


@contract('context:Context.invalidate', props=['C07', 'C13'])
class Invalidate:
    """statement: 'by the next local tick at the latest it is STOPPED (ISOLATED when auto_fence is set and the Master is
    in a working state)'; 'the local instance is never ISOLATED'.  Called from FAILED (invalidate_failed) or CHECKING
    (on_authorization): the only states from which both targets are edges of the graph."""
    raises = ()
    types = {'fence': 'Optional[bool]'}

    def modifies(self, status):
        return setter_frame(status)

    def pre_valid(self, status):
        return status.supvisors is self.supvisors and self.supvisors.context is self and status_pre(status)

    def pre_from_checking_or_failed(self, status):
        return status._state in (SupvisorsInstanceStates.CHECKING, SupvisorsInstanceStates.FAILED)

    def post_state(self, status, fence, old):
        return status._state == invalid_state(old.self, old.status, fence is not None and fence)

    def post_local_never_isolated(self, status):
        return implies(status.supvisors_id.identifier == self.supvisors.mapper.local_identifier,
                       status._state != SupvisorsInstanceStates.ISOLATED)

    def post_still_valid(self, status):
        return status_pre(status)


@contract('context:Context.on_instance_failure', props=['C07'])
class OnInstanceFailure:
    """statement: 'A peer that falls silent is declared FAILED ... (at once if an XML-RPC to it fails)'.
    Call site: listener.read_notification with a status accepted by Context.is_valid (any non-ISOLATED state: the
    failure notification is queued by the proxy thread and may be read after the peer has been invalidated)."""
    raises = ()

    def modifies(self, status):
        return setter_frame(status)

    def pre_valid(self, status):
        return status.supvisors is self.supvisors and self.supvisors.context is self and status_pre(status)

    def pre_not_isolated(self, status):
        return status._state != SupvisorsInstanceStates.ISOLATED

    def post_failed(self, status, old):
        """a peer in an active state (CHECKING, CHECKED, RUNNING, FAILED) is FAILED at once; a peer already invalidated
        (STOPPED: the documented graph has no STOPPED -> FAILED edge) keeps its state"""
        return status._state == ite(old.status._state in ACTIVE, SupvisorsInstanceStates.FAILED, old.status._state)


def timer_state(old_state, seen_it, counter, stamped, n):
    return ite(seen_it and inactive(old_state, counter, stamped, n), SupvisorsInstanceStates.FAILED, old_state)


@contract('context:Context.on_timer_event', props=['C07'])
class OnTimerEvent:
    """statement: 'A peer that falls silent is declared FAILED no later than the first local tick at which more than
    inactivity_ticks local ticks have passed since its last tick was received' and 'A peer ... whose ticks keep arriving
    ... is never declared FAILED': on the local tick, FAILED is set on exactly the instances with is_inactive(counter);
    every other instance keeps its state."""
    raises = ()

    def modifies(self):
        sms = self.supvisors.state_modes
        local = sms.instance_state_modes[self.supvisors.mapper.local_identifier]
        return [whole('F:_state:'), contents(local.instance_states), field(local, 'master_identifier'),
                field(sms, 'update_mark'), contents(sms.instance_state_modes)]

    def pre_valid(self, event):
        sv = self.supvisors
        return sv.context is self and valid_structure(sv) and distinct_entries(sv) and 'sequence_counter' in event

    def post_failed_exactly_the_inactive(self, event, old):
        sv = self.supvisors
        return forall(str, lambda i: implies(
            i in self.instances,
            self.instances[i]._state == timer_state(old.self.instances[i]._state, True, event['sequence_counter'],
                                                    self.instances[i].times.local_sequence_counter,
                                                    sv.options.inactivity_ticks)))

    def post_still_valid(self):
        return valid_structure(self.supvisors) and distinct_entries(self.supvisors)

    def loop0_inv(self, seen, sequence_counter, event, old, loop_old):
        sv = self.supvisors
        lid = sv.mapper.local_identifier
        entry_sms = loop_old.self.supvisors.state_modes
        return (sv.context is self and valid_structure(sv) and distinct_entries(sv)
                and sequence_counter == event['sequence_counter']
                # the StateModes object of the local instance and its instance_states map are never replaced (only a
                # STOPPED / ISOLATED *peer* gets a fresh StateModes): the loop frame is stated on these objects
                and sv.state_modes.instance_state_modes[lid] is entry_sms.instance_state_modes[lid]
                and sv.state_modes.instance_state_modes[lid].instance_states
                is entry_sms.instance_state_modes[lid].instance_states
                and forall(str, lambda i: implies(
                    i in self.instances,
                    self.instances[i]._state == timer_state(old.self.instances[i]._state, i in seen, sequence_counter,
                                                            self.instances[i].times.local_sequence_counter,
                                                            sv.options.inactivity_ticks))))

    def loop0_modifies(self):
        sms = self.supvisors.state_modes
        local = sms.instance_state_modes[self.supvisors.mapper.local_identifier]
        return [whole('F:_state:'), contents(local.instance_states), field(local, 'master_identifier'),
                field(sms, 'update_mark'), contents(sms.instance_state_modes)]
