"""C05 (RESTART conciliation) / C09 - the deferred start of Stopper.restart_process / Stopper.restart_application.

Decision facets: the bookkeeping write (process_start_requests / application_start_requests) happens BEFORE the call-out
stop_process / stop_application, whose frame is wide (Commander.next -> Stopper.after consumes the requests of a job that
is already complete).  The clauses are therefore stated on the heap *just before the call-out* (effect_pre), which is what
the call-out - and Stopper.after, when the stop is over - reads.
"""
from pyvc.spec import *

GROUP = 'commander'   # contracts of one group use each other's contracts at call sites (pyvc/hooks.py contract_for_call)

RUNNING_LIKE = RUNNING_STATES   # supervisor.states: STARTING, BACKOFF, RUNNING (ProcessStatus.running)


@contract('commander:Stopper.restart_process', props=['C05', 'C09'])
class RestartProcess:
    """C05: 'RESTART ... on every copy (RESTART then starts one copy again)'; docstring: 'The process start is deferred
    until the process has been stopped'.  A running process: ONE stop_process(process) (every copy: no identifier list)
    and, when it is called, the start request (strategy, process, extra_args) is the LAST element of
    process_start_requests[application_name], the earlier pending requests of that application are kept in order, the
    requests of the other applications are untouched; no start is emitted.  A stopped process: one
    starter.start_process(strategy, process, extra_args, trigger), no stop, no request stored."""
    raises = ()
    types = {'strategy': 'StartingStrategies'}

    def pre_one_list_per_application(self):
        """shape validity, from the code: every list of process_start_requests is created by the setdefault(name, []) of
        this function (the only writer besides Stopper.after, which pops whole entries)"""
        reqs = self.process_start_requests
        return forall(str, str, lambda a, b: implies(a != b and a in reqs and b in reqs, reqs[a] is not reqs[b]))

    def post_effect_running_is_stopped_not_started(self, process, trigger, old):
        e = effect_at('stopper.stop_process', 0)
        one = (e[0] is process and e[1] is None and e[2] == trigger) if count_effects('stopper.stop_process') == 1 else False
        return implies(old.process._state in RUNNING_LIKE, one and no_effect('starter.start_process'))

    def post_effect_stopped_is_started_directly(self, strategy, process, extra_args, trigger, old):
        e = effect_at('starter.start_process', 0)
        one = (e[0] == strategy and e[1] is process and e[2] == extra_args and e[3] == trigger) \
            if count_effects('starter.start_process') == 1 else False
        return implies(old.process._state not in RUNNING_LIKE, one and no_effect('stopper.stop_process'))

    def post_effect_start_request_appended(self, strategy, process, extra_args, old):
        called = count_effects('stopper.stop_process') == 1
        pre = effect_pre('stopper.stop_process', 0) if called else None
        reqs = at(pre, old.self.process_start_requests) if called else None
        name = old.process.application_name
        was = old.self.process_start_requests
        n = len(was[name]) if name in was else 0
        return ((name in reqs and len(reqs[name]) == n + 1
                 and reqs[name][n][0] == strategy and reqs[name][n][1] is process and reqs[name][n][2] == extra_args)
                if called else True)

    def post_effect_earlier_requests_kept(self, process, old):
        called = count_effects('stopper.stop_process') == 1
        pre = effect_pre('stopper.stop_process', 0) if called else None
        reqs = at(pre, old.self.process_start_requests) if called else None
        name = old.process.application_name
        was = old.self.process_start_requests
        return ((at(pre, self).process_start_requests is was
                 and implies(name in was, reqs[name] is was[name] and forall(int, lambda i: implies(
                     0 <= i and i < len(was[name]), reqs[name][i] == was[name][i])))
                 and forall(str, lambda a: implies(a != name, (a in reqs) == (a in was)
                                                   and implies(a in was, reqs[a] is was[a] and reqs[a] == was[a]))))
                if called else True)

    def post_effect_nothing_stored_when_stopped(self, old):
        """no call-out before starter.start_process: the heap it sees is the entry heap"""
        called = count_effects('starter.start_process') == 1 and count_effects('stopper.stop_process') == 0
        pre = effect_pre('starter.start_process', 0) if called else None
        reqs = at(pre, old.self.process_start_requests) if called else None
        was = old.self.process_start_requests
        return (forall(str, lambda a: (a in reqs) == (a in was) and implies(a in was, reqs[a] is was[a] and reqs[a] == was[a]))
                if called else True)


@contract('commander:Stopper.restart_application', props=['C09'])
class RestartApplication:
    """docstring: 'The application start is deferred until the application has been stopped'.  An application with a
    running process: ONE stop_application(application, trigger) and, when it is called,
    application_start_requests[application_name] == (strategy, application), the requests of the other applications are
    untouched; no start.  Otherwise one starter.start_application(strategy, application, trigger), nothing stored."""
    raises = ()
    types = {'strategy': 'StartingStrategies'}

    def post_effect_one_or_the_other(self, strategy, application, trigger):
        a = effect_at('stopper.stop_application', 0)
        b = effect_at('starter.start_application', 0)
        stop = (a[0] is application and a[1] == trigger) if count_effects('stopper.stop_application') == 1 else False
        start = (b[0] == strategy and b[1] is application and b[2] == trigger) \
            if count_effects('starter.start_application') == 1 else False
        return (stop and no_effect('starter.start_application')) or (start and no_effect('stopper.stop_application'))

    def post_effect_running_is_stopped(self, application, old):
        running = exists(old.application.processes.values(), lambda p: p._state in RUNNING_LIKE)
        return (count_effects('stopper.stop_application') == 1) == running

    def post_effect_start_request_stored(self, strategy, application, old):
        called = count_effects('stopper.stop_application') == 1
        pre = effect_pre('stopper.stop_application', 0) if called else None
        reqs = at(pre, old.self.application_start_requests) if called else None
        name = old.application.application_name
        was = old.self.application_start_requests
        return ((at(pre, self).application_start_requests is was and name in reqs
                 and reqs[name][0] == strategy and reqs[name][1] is application
                 and forall(str, lambda a: implies(a != name, (a in reqs) == (a in was)
                                                   and implies(a in was, reqs[a] == was[a]))))
                if called else True)
