"""C01 - Connected instances converge on one running Master (per-instance election rule and its guards)."""
from pyvc.spec import *

from contracts.c07 import valid_structure, distinct_entries

STABLE = (SupvisorsInstanceStates.RUNNING, SupvisorsInstanceStates.STOPPED, SupvisorsInstanceStates.ISOLATED)


@contract('statemodes:StateModes.get_stable_running_identifiers', props=['C01'])
class GetStableRunningIdentifiers:
    """'stable_identifiers: RUNNING set agreed by all peers seen RUNNING (empty = unstable)': per instance, the set of
    instances it sees RUNNING if every instance it knows is in a stable state, else the empty set"""
    raises = ()

    def modifies(self):
        return []

    def post_definition(self, result):
        stable = forall(str, lambda i: implies(i in self.instance_states, self.instance_states[i] in STABLE))
        return forall(str, lambda i: (i in result) == (
            stable and i in self.instance_states and self.instance_states[i] == SupvisorsInstanceStates.RUNNING))

    def post_fresh(self, result):
        return was_fresh(result)

    def loop0_inv(self, seen, stable_identifiers):
        return (forall(str, lambda i: implies(i in seen, self.instance_states[i] in STABLE))
                and forall(str, lambda i: (i in stable_identifiers) == (
                    i in seen and self.instance_states[i] == SupvisorsInstanceStates.RUNNING))
                and was_fresh(stable_identifiers))

    def loop0_modifies(self, stable_identifiers):
        return [contents(stable_identifiers)]


@contract('statemodes:SupvisorsStateModes.publish_status', props=['C01'])
class PublishStatus:
    """publication of the local state and modes to the peers and to the listeners: changes nothing locally"""
    raises = ()
    effect = 'publish_status'

    def modifies(self):
        return []

    def pre_local_known(self):
        return self.supvisors.mapper.local_identifier in self.instance_state_modes


def local_sm(sms):
    """the StateModes of the local instance inside a SupvisorsStateModes"""
    return sms.instance_state_modes[sms.supvisors.mapper.local_identifier]


@contract('statemodes:SupvisorsStateModes.update_instance_state', props=['C01', 'C07'])
class UpdateInstanceState:
    """statement (C01 mechanism 'Master reset when it leaves RUNNING'): 'A running Master ... is kept'; a Master that is
    no longer seen RUNNING is forgotten so that a new election takes place.  Whole view: the local view of the other
    instances is untouched; a STOPPED / ISOLATED peer gets a fresh StateModes (its stale Master declaration is
    forgotten)."""
    raises = ()

    def modifies(self, identifier):
        local = local_sm(self)
        return [contents(local.instance_states), field(local, 'master_identifier'), field(self, 'update_mark'),
                contents(self.instance_state_modes)]

    def pre_valid(self, identifier):
        return (self.supvisors.state_modes is self and valid_structure(self.supvisors)
                and distinct_entries(self.supvisors) and identifier in self.instance_state_modes)

    def post_local_view(self, identifier, new_state, old):
        local = local_sm(self)
        old_local = local_sm(old.self)
        return forall(str, lambda i: (i in local.instance_states) == (i in old_local.instance_states)
                      and implies(i in local.instance_states,
                                  local.instance_states[i] == ite(i == identifier, new_state,
                                                                  old_local.instance_states[i])))

    def post_master_reset(self, identifier, new_state, old):
        local = local_sm(self)
        old_master = local_sm(old.self).master_identifier
        return local.master_identifier == ite(
            new_state != SupvisorsInstanceStates.RUNNING and identifier == old_master, '', old_master)

    def post_still_valid(self):
        return valid_structure(self.supvisors) and distinct_entries(self.supvisors)

    def post_stale_declaration_forgotten(self, identifier, new_state, old):
        reset = (new_state in (SupvisorsInstanceStates.STOPPED, SupvisorsInstanceStates.ISOLATED)
                 and identifier != self.supvisors.mapper.local_identifier)
        sm = self.instance_state_modes[identifier]
        return (forall(str, lambda i: (i in self.instance_state_modes) == (i in old.self.instance_state_modes)
                       and implies(i in self.instance_state_modes and not (reset and i == identifier),
                                   self.instance_state_modes[i] is old.self.instance_state_modes[i]))
                and implies(reset, was_fresh(sm) and sm.master_identifier == '' and sm.state == SupvisorsStates.OFF
                            and sm.supvisors_id is old.self.instance_state_modes[identifier].supvisors_id
                            and forall(str, lambda i: i not in sm.instance_states)))
