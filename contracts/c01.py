"""C01 - Connected instances converge on one running Master (per-instance election rule and its guards)."""
from pyvc.spec import *

GROUP = 'members'   # contracts of one group use each other's contracts at call sites (pyvc/hooks.py contract_for_call)

from contracts.c07 import valid_structure, distinct_entries

STABLE = (SupvisorsInstanceStates.RUNNING, SupvisorsInstanceStates.STOPPED, SupvisorsInstanceStates.ISOLATED)


@contract('statemodes:StateModes.get_stable_running_identifiers', props=['C01'])
class GetStableRunningIdentifiers:
    """'stable_identifiers: RUNNING set agreed by all peers seen RUNNING (empty = unstable)': per instance, the set of
    instances it sees RUNNING if every instance it knows is in a stable state, else the empty set"""
    raises = ()

    def modifies(self):
        return []

    def post_definition(self, result):
        stable = forall(str, lambda i: implies(i in self.instance_states, self.instance_states[i] in STABLE))
        return forall(str, lambda i: (i in result) == (
            stable and i in self.instance_states and self.instance_states[i] == SupvisorsInstanceStates.RUNNING))

    def post_fresh(self, result):
        return was_fresh(result)

    def loop0_inv(self, seen, stable_identifiers):
        return (forall(str, lambda i: implies(i in seen, self.instance_states[i] in STABLE))
                and forall(str, lambda i: (i in stable_identifiers) == (
                    i in seen and self.instance_states[i] == SupvisorsInstanceStates.RUNNING))
                and was_fresh(stable_identifiers))

    def loop0_modifies(self, stable_identifiers):
        return [contents(stable_identifiers)]


@contract('statemodes:SupvisorsStateModes.publish_status', props=['C01'])
class PublishStatus:
    """publication of the local state and modes to the peers and to the listeners: changes nothing locally"""
    raises = ()
    effect = 'publish_status'

    def modifies(self):
        return []

    def pre_local_known(self):
        return self.supvisors.mapper.local_identifier in self.instance_state_modes


def local_sm(sms):
    """the StateModes of the local instance inside a SupvisorsStateModes"""
    return sms.instance_state_modes[sms.supvisors.mapper.local_identifier]


@contract('statemodes:SupvisorsStateModes.update_instance_state', props=['C01', 'C07'])
class UpdateInstanceState:
    """statement (C01 mechanism 'Master reset when it leaves RUNNING'): 'A running Master ... is kept'; a Master that is
    no longer seen RUNNING is forgotten so that a new election takes place.  Whole view: the local view of the other
    instances is untouched; a STOPPED / ISOLATED peer gets a fresh StateModes (its stale Master declaration is
    forgotten)."""
    raises = ()

    def modifies(self, identifier):
        local = local_sm(self)
        return [contents(local.instance_states), field(local, 'master_identifier'), field(self, 'update_mark'),
                contents(self.instance_state_modes)]

    def pre_valid(self, identifier):
        return (self.supvisors.state_modes is self and valid_structure(self.supvisors)
                and distinct_entries(self.supvisors) and identifier in self.instance_state_modes)

    def post_local_view(self, identifier, new_state, old):
        local = local_sm(self)
        old_local = local_sm(old.self)
        return forall(str, lambda i: (i in local.instance_states) == (i in old_local.instance_states)
                      and implies(i in local.instance_states,
                                  local.instance_states[i] == ite(i == identifier, new_state,
                                                                  old_local.instance_states[i])))

    def post_master_reset(self, identifier, new_state, old):
        local = local_sm(self)
        old_master = local_sm(old.self).master_identifier
        return local.master_identifier == ite(
            new_state != SupvisorsInstanceStates.RUNNING and identifier == old_master, '', old_master)

    def post_still_valid(self):
        return valid_structure(self.supvisors) and distinct_entries(self.supvisors)

    def post_stale_declaration_forgotten(self, identifier, new_state, old):
        reset = (new_state in (SupvisorsInstanceStates.STOPPED, SupvisorsInstanceStates.ISOLATED)
                 and identifier != self.supvisors.mapper.local_identifier)
        sm = self.instance_state_modes[identifier]
        return (forall(str, lambda i: (i in self.instance_state_modes) == (i in old.self.instance_state_modes)
                       and implies(i in self.instance_state_modes and not (reset and i == identifier),
                                   self.instance_state_modes[i] is old.self.instance_state_modes[i]))
                and implies(reset, was_fresh(sm) and sm.master_identifier == '' and sm.state == SupvisorsStates.OFF
                            and sm.supvisors_id is old.self.instance_state_modes[identifier].supvisors_id
                            and forall(str, lambda i: i not in sm.instance_states)))


# ------------------------------------------------------------------------------------------ election rule
RUNNING = SupvisorsInstanceStates.RUNNING


def sms_pre(sms):
    sv = sms.supvisors
    return sv.state_modes is sms and valid_structure(sv) and distinct_entries(sv)


def seen_running(sms, i):
    """the local instance sees instance i RUNNING"""
    return i in local_sm(sms).instance_states and local_sm(sms).instance_states[i] == RUNNING


def declared(sms, m):
    """m is the Master declared by some instance seen RUNNING ('' = that instance has no Master)"""
    return exists(str, lambda i: i in sms.instance_state_modes and seen_running(sms, i)
                  and sms.instance_state_modes[i].master_identifier == m)


def recognised(sms, m):
    """statement: 'the Masters still recognised'"""
    return m != '' and declared(sms, m)


def candidate(sms, x):
    """statement: 'picks among the Masters still recognised, or among all running instances when there is none'"""
    return ite(exists(str, lambda m: recognised(sms, m)), recognised(sms, x), seen_running(sms, x))


def core_member(sms, x):
    return exists(str, lambda c: core_selects(sms.supvisors.mapper, c, x))


def core_selects(mapper, c, x):
    """x is one of the identifiers the configured core entry c resolves to (SupvisorsMapper.filter: identifier, nick
    identifier or stereotype)"""
    return c in mapper._core_identifiers and ite(
        c in mapper._instances, x == c,
        ite(c in mapper._nick_identifiers, x == mapper._nick_identifiers[c],
            c in mapper.stereotypes and x in mapper.stereotypes[c]))


def preferred(sms, x):
    """statement: 'a core_identifiers member if any, else the lowest nick identifier' - the pool the lowest nick is
    taken from"""
    return candidate(sms, x) and implies(exists(str, lambda y: candidate(sms, y) and core_member(sms, y)),
                                         core_member(sms, x))


@contract('internal_com.mapper:SupvisorsMapper.filter', props=[])
class MapperFilter:
    """ASSUMED (resolution of identifier lists belongs to C18): the result holds exactly the identifiers the entries of
    the list resolve to (known identifier, else nick identifier, else members of the stereotype); unknown entries are
    dropped; the order of first occurrence is kept (not used here)."""
    assumed = True
    raises = ()
    types = {'identifier_list': 'List[str]'}

    def modifies(self):
        return []

    def post_members(self, identifier_list, result):
        return forall(str, lambda x: (x in result) == exists(str, lambda c: c in identifier_list and ite(
            c in self._instances, x == c,
            ite(c in self._nick_identifiers, x == self._nick_identifiers[c],
                c in self.stereotypes and x in self.stereotypes[c]))))

    def post_fresh(self, result):
        return was_fresh(result)

    def post_known(self, result):
        """every identifier returned is a known instance (mapper invariant: nick identifiers and stereotypes only name
        known instances - add_instance, _assign_stereotypes)"""
        return forall(int, lambda k: implies(0 <= k and k < len(result), result[k] in self._instances))


@contract('statemodes:SupvisorsStateModes.get_master_identifiers', props=['C01'])
class GetMasterIdentifiers:
    """'the Master identifiers declared among the Supvisors instances seen as RUNNING' (the empty string is kept: an
    instance seen RUNNING without Master)"""
    raises = ()

    def modifies(self):
        return []

    def pre_valid(self):
        return sms_pre(self)

    def post_declared(self, result):
        return forall(str, lambda m: (m in result) == declared(self, m))


@contract('statemodes:SupvisorsStateModes.check_master', props=['C01'])
class CheckMaster:
    """statement: 'every instance ends up reporting the same single Master, which ... is seen RUNNING by all of them':
    true iff the instances seen RUNNING declare one and the same Master and none of them is without Master.
    Call sites (ElectionState.next, _MasterSlaveState._check_consistence) come after _OnState._check_consistence, i.e.
    with the local instance seen RUNNING: the set of declarations is not empty."""
    raises = ()

    def modifies(self):
        return []

    def pre_valid(self):
        return sms_pre(self)

    def pre_local_running(self):
        return seen_running(self, self.supvisors.mapper.local_identifier)

    def post_single_master(self, result):
        return result == (not declared(self, '') and forall(str, str, lambda a, b: implies(
            declared(self, a) and declared(self, b), a == b)))
