"""C01 - Connected instances converge on one running Master (per-instance election rule and its guards)."""
from pyvc.spec import *

STABLE = (SupvisorsInstanceStates.RUNNING, SupvisorsInstanceStates.STOPPED, SupvisorsInstanceStates.ISOLATED)


@contract('statemodes:StateModes.get_stable_running_identifiers', props=['C01'])
class GetStableRunningIdentifiers:
    """'stable_identifiers: RUNNING set agreed by all peers seen RUNNING (empty = unstable)': per instance, the set of
    instances it sees RUNNING if every instance it knows is in a stable state, else the empty set"""
    raises = ()

    def modifies(self):
        return []

    def post_definition(self, result):
        stable = forall(str, lambda i: implies(i in self.instance_states, self.instance_states[i] in STABLE))
        return forall(str, lambda i: (i in result) == (
            stable and i in self.instance_states and self.instance_states[i] == SupvisorsInstanceStates.RUNNING))

    def post_fresh(self, result):
        return was_fresh(result)

    def loop0_inv(self, seen, stable_identifiers):
        return (forall(str, lambda i: implies(i in seen, self.instance_states[i] in STABLE))
                and forall(str, lambda i: (i in stable_identifiers) == (
                    i in seen and self.instance_states[i] == SupvisorsInstanceStates.RUNNING))
                and was_fresh(stable_identifiers))

    def loop0_modifies(self, stable_identifiers):
        return [contents(stable_identifiers)]
