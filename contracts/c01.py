"""C01 - Connected instances converge on one running Master (per-instance election rule and its guards)."""
from pyvc.spec import *

GROUP = 'members'   # contracts of one group use each other's contracts at call sites (pyvc/hooks.py contract_for_call)

from contracts.c07 import valid_structure, distinct_entries

STABLE = (SupvisorsInstanceStates.RUNNING, SupvisorsInstanceStates.STOPPED, SupvisorsInstanceStates.ISOLATED)


@contract('statemodes:StateModes.get_stable_running_identifiers', props=['C01'])
class GetStableRunningIdentifiers:
    """'stable_identifiers: RUNNING set agreed by all peers seen RUNNING (empty = unstable)': per instance, the set of
    instances it sees RUNNING if every instance it knows is in a stable state, else the empty set"""
    raises = ()

    def modifies(self):
        return []

    def post_definition(self, result):
        stable = forall(str, lambda i: implies(i in self.instance_states, self.instance_states[i] in STABLE))
        return forall(str, lambda i: (i in result) == (
            stable and i in self.instance_states and self.instance_states[i] == SupvisorsInstanceStates.RUNNING))

    def post_fresh(self, result):
        return was_fresh(result)

    def loop0_inv(self, seen, stable_identifiers):
        return (forall(str, lambda i: implies(i in seen, self.instance_states[i] in STABLE))
                and forall(str, lambda i: (i in stable_identifiers) == (
                    i in seen and self.instance_states[i] == SupvisorsInstanceStates.RUNNING))
                and was_fresh(stable_identifiers))

    def loop0_modifies(self, stable_identifiers):
        return [contents(stable_identifiers)]


@contract('statemodes:SupvisorsStateModes.publish_status', props=['C01'])
class PublishStatus:
    """publication of the local state and modes to the peers and to the listeners: changes nothing locally"""
    raises = ()
    effect = 'publish_status'

    def modifies(self):
        return []

    def pre_local_known(self):
        return self.supvisors.mapper.local_identifier in self.instance_state_modes


@contract('statemodes:SupvisorsStateModes.master_identifier[setter]', props=['C01'])
class MasterIdentifierSetter:
    """'master_identifier: Master designated by one instance, published to peers': the local declaration is written
    and published when it changes"""
    raises = ()

    def modifies(self, identifier):
        return [field(self.instance_state_modes[self.supvisors.mapper.local_identifier], 'master_identifier')]

    def pre_local_known(self):
        local = self.supvisors.mapper.local_identifier
        return local is not None and local in self.instance_state_modes

    def post_declared(self, identifier):
        return self.instance_state_modes[self.supvisors.mapper.local_identifier].master_identifier == identifier

    def post_effect_published_iff_changed(self, identifier, old):
        old_master = old.self.instance_state_modes[self.supvisors.mapper.local_identifier].master_identifier
        return ite(old_master == identifier, no_effect(), count_effects('publish_status') == 1)


def local_sm(sms):
    """the StateModes of the local instance inside a SupvisorsStateModes"""
    return sms.instance_state_modes[sms.supvisors.mapper.local_identifier]


@contract('statemodes:SupvisorsStateModes.update_instance_state', props=['C01', 'C07'])
class UpdateInstanceState:
    """statement (C01 mechanism 'Master reset when it leaves RUNNING'): 'A running Master ... is kept'; a Master that is
    no longer seen RUNNING is forgotten so that a new election takes place.  Whole view: the local view of the other
    instances is untouched; a STOPPED / ISOLATED peer gets a fresh StateModes (its stale Master declaration is
    forgotten)."""
    raises = ()

    def modifies(self, identifier):
        local = local_sm(self)
        return [contents(local.instance_states), field(local, 'master_identifier'), field(self, 'update_mark'),
                contents(self.instance_state_modes)]

    def pre_valid(self, identifier):
        return (self.supvisors.state_modes is self and valid_structure(self.supvisors)
                and distinct_entries(self.supvisors) and identifier in self.instance_state_modes)

    def post_local_view(self, identifier, new_state, old):
        local = local_sm(self)
        old_local = local_sm(old.self)
        return forall(str, lambda i: (i in local.instance_states) == (i in old_local.instance_states)
                      and implies(i in local.instance_states,
                                  local.instance_states[i] == ite(i == identifier, new_state,
                                                                  old_local.instance_states[i])))

    def post_master_reset(self, identifier, new_state, old):
        local = local_sm(self)
        old_master = local_sm(old.self).master_identifier
        return local.master_identifier == ite(
            new_state != SupvisorsInstanceStates.RUNNING and identifier == old_master, '', old_master)

    def post_still_valid(self):
        return valid_structure(self.supvisors) and distinct_entries(self.supvisors)

    def post_stale_declaration_forgotten(self, identifier, new_state, old):
        reset = (new_state in (SupvisorsInstanceStates.STOPPED, SupvisorsInstanceStates.ISOLATED)
                 and identifier != self.supvisors.mapper.local_identifier)
        sm = self.instance_state_modes[identifier]
        return (forall(str, lambda i: (i in self.instance_state_modes) == (i in old.self.instance_state_modes)
                       and implies(i in self.instance_state_modes and not (reset and i == identifier),
                                   self.instance_state_modes[i] is old.self.instance_state_modes[i]))
                and implies(reset, was_fresh(sm) and sm.master_identifier == '' and sm.state == SupvisorsStates.OFF
                            and sm.supvisors_id is old.self.instance_state_modes[identifier].supvisors_id
                            and forall(str, lambda i: i not in sm.instance_states)))


# ------------------------------------------------------------------------------------------ election rule
RUNNING = SupvisorsInstanceStates.RUNNING


def sms_pre(sms):
    sv = sms.supvisors
    return sv.state_modes is sms and valid_structure(sv) and distinct_entries(sv)


def sms_lean(sms):
    """the part of valid_structure the election code reads: the local instance is known and the local view has an entry
    for every known instance"""
    local = sms.supvisors.mapper.local_identifier
    return (local is not None and local in sms.instance_state_modes
            and forall(str, lambda i: implies(i in sms.instance_state_modes, i in local_sm(sms).instance_states)))


def seen_running(sms, i):
    """the local instance sees instance i RUNNING"""
    return i in local_sm(sms).instance_states and local_sm(sms).instance_states[i] == RUNNING


def declared(sms, m):
    """m is the Master declared by some instance seen RUNNING ('' = that instance has no Master)"""
    return exists(str, lambda i: i in sms.instance_state_modes and seen_running(sms, i)
                  and sms.instance_state_modes[i].master_identifier == m)


def recognised(sms, m):
    """statement: 'the Masters still recognised'"""
    return m != '' and declared(sms, m)


def candidate(sms, x):
    """statement: 'picks among the Masters still recognised, or among all running instances when there is none'"""
    return ite(exists(str, lambda m: recognised(sms, m)), recognised(sms, x), seen_running(sms, x))


def core_member(sms, x):
    return exists(str, lambda c: core_selects(sms.supvisors.mapper, c, x))


def core_selects(mapper, c, x):
    """x is one of the identifiers the configured core entry c resolves to (SupvisorsMapper.filter: identifier, nick
    identifier or stereotype)"""
    return c in mapper._core_identifiers and ite(
        c in mapper._instances, x == c,
        ite(c in mapper._nick_identifiers, x == mapper._nick_identifiers[c],
            c in mapper.stereotypes and x in mapper.stereotypes[c]))


def preferred(sms, x):
    """statement: 'a core_identifiers member if any, else the lowest nick identifier' - the pool the lowest nick is
    taken from"""
    return candidate(sms, x) and implies(exists(str, lambda y: candidate(sms, y) and core_member(sms, y)),
                                         core_member(sms, x))


@contract('internal_com.mapper:SupvisorsMapper.filter', props=[])
class MapperFilter:
    """ASSUMED (resolution of identifier lists belongs to C18): the result holds exactly the identifiers the entries of
    the list resolve to (known identifier, else nick identifier, else members of the stereotype); unknown entries are
    dropped; the order of first occurrence is kept (not used here)."""
    assumed = True
    raises = ()
    types = {'identifier_list': 'List[str]'}

    def modifies(self):
        return []

    def post_members(self, identifier_list, result):
        return forall(str, lambda x: (x in result) == exists(str, lambda c: c in identifier_list and ite(
            c in self._instances, x == c,
            ite(c in self._nick_identifiers, x == self._nick_identifiers[c],
                c in self.stereotypes and x in self.stereotypes[c]))))

    def post_fresh(self, result):
        return was_fresh(result)

    def post_members_by_entry(self, identifier_list, result):
        """consequence of post_members, stated per entry of the list given (same purpose)"""
        return forall(int, lambda j: implies(
            0 <= j and j < len(identifier_list),
            ite(identifier_list[j] in self._instances, identifier_list[j] in result,
                ite(identifier_list[j] in self._nick_identifiers, self._nick_identifiers[identifier_list[j]] in result,
                    implies(identifier_list[j] in self.stereotypes,
                            forall(int, lambda t: implies(
                                0 <= t and t < len(self.stereotypes[identifier_list[j]]),
                                self.stereotypes[identifier_list[j]][t] in result)))))))

    def post_known(self, result):
        """every identifier returned is a known instance (mapper invariant: nick identifiers and stereotypes only name
        known instances - add_instance, _assign_stereotypes)"""
        return forall(int, lambda k: implies(0 <= k and k < len(result), result[k] in self._instances))


@contract('statemodes:SupvisorsStateModes.get_master_identifiers', props=['C01'])
class GetMasterIdentifiers:
    """'the Master identifiers declared among the Supvisors instances seen as RUNNING' (the empty string is kept: an
    instance seen RUNNING without Master)"""
    raises = ()

    def modifies(self):
        return []

    def pre_valid(self):
        return sms_lean(self)

    def post_declared(self, result):
        return forall(str, lambda m: (m in result) == declared(self, m))

    def post_fresh(self, result):
        """callers modify the returned set (select_master / accept_master discard the empty string)"""
        return was_fresh(result)

    def post_declared_by_declarer(self, result):
        """the same, stated per declaring instance"""
        return forall(str, lambda i: implies(i in self.instance_state_modes and seen_running(self, i),
                                             self.instance_state_modes[i].master_identifier in result))


@contract('statemodes:SupvisorsStateModes.check_master', props=['C01'])
class CheckMaster:
    """statement: 'every instance ends up reporting the same single Master, which ... is seen RUNNING by all of them':
    true iff the instances seen RUNNING declare one and the same Master and none of them is without Master.
    Call sites (ElectionState.next, _MasterSlaveState._check_consistence) come after _OnState._check_consistence, i.e.
    with the local instance seen RUNNING: the set of declarations is not empty."""
    raises = ()

    def modifies(self):
        return []

    def pre_valid(self):
        return sms_pre(self)

    def pre_local_running(self):
        return seen_running(self, self.supvisors.mapper.local_identifier)

    def post_single_master(self, result):
        return result == (not declared(self, '') and forall(str, str, lambda a, b: implies(
            declared(self, a) and declared(self, b), a == b)))


@contract('statemodes:SupvisorsStateModes.select_master', props=['C01'])
class SelectMaster:
    """statement: 'A running Master that is the only one recognised is kept when instances join or leave; otherwise the
    documented rule (a core_identifiers member if any, else the lowest nick identifier) picks among the Masters still
    recognised, or among all running instances when there is none.'  Every pool is read in the PRE-state (the new Master
    is itself a declaration of the local instance afterwards)."""
    raises = ()

    def modifies(self):
        return [field(local_sm(self), 'master_identifier')]

    def pre_valid(self):
        return sms_lean(self)

    def pre_running_known(self):
        """valid_structure: the local view and the mapper have the same identifiers"""
        return forall(str, lambda i: implies(i in local_sm(self).instance_states, i in self.supvisors.mapper._instances))

    def pre_local_running(self):
        """called from ElectionState.next / SynchronizationState with the local instance RUNNING"""
        return seen_running(self, self.supvisors.mapper.local_identifier)

    def post_among_the_candidates(self, old):
        """'picks among the Masters still recognised, or among all running instances when there is none'"""
        return candidate(old.self, local_sm(self).master_identifier)

    def post_core_member_if_any(self, old):
        """'a core_identifiers member if any' - of the candidates"""
        m = local_sm(self).master_identifier
        return forall(str, lambda y: implies(candidate(old.self, y) and core_member(old.self, y),
                                             core_member(old.self, m)))

    def post_lowest_nick_of_the_core_candidates(self, old):
        """'else the lowest nick identifier' - of the preferred pool, part 1: the preferred pool is made of the core
        members among the candidates when there are some (with the next clause: forall x. preferred(old.self, x) ==>
        nick(master) <= nick(x); split on 'if any' because the solver needs the two cases apart)"""
        m = local_sm(self).master_identifier
        nick = self.supvisors.mapper._instances
        return forall(str, lambda x: implies(
            candidate(old.self, x) and core_member(old.self, x),
            rank(nick[m].nick_identifier) <= rank(nick[x].nick_identifier)))

    def post_lowest_nick_of_the_candidates_without_core(self, old):
        """part 2: the preferred pool is made of all the candidates when none of them is a core member"""
        m = local_sm(self).master_identifier
        nick = self.supvisors.mapper._instances
        return implies(not exists(str, lambda y: candidate(old.self, y) and core_member(old.self, y)),
                       forall(str, lambda x: implies(
                           candidate(old.self, x), rank(nick[m].nick_identifier) <= rank(nick[x].nick_identifier))))

    def post_only_recognised_master_is_kept(self, old):
        """corollary: 'A running Master that is the only one recognised is kept'"""
        return forall(str, lambda m: implies(
            recognised(old.self, m) and forall(str, lambda y: implies(recognised(old.self, y), y == m)),
            local_sm(self).master_identifier == m))
