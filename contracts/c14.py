"""C14 - Placement obeys the starting strategy and the distribution rule.
C04 - Start requests only go to eligible instances with spare load (the strategy-level clauses live here because
the same functions carry both properties; the commander-level clauses are in c04.py).

Abstraction of the sums (the engine does not unfold sum() over symbolic collections):
  L(i)  = SupvisorsInstanceStatus.ghost_load        what get_load() returns ("sum of expected_load of the processes
                                                    running on instance i"), see assumed contract GetLoad
  NL(m) = Context.ghost_node_load[m]                what get_nodes_load()[m] returns ("sum over the set of the identifiers
                                                    of machine m of L(i)"), see assumed contract GetNodesLoad
  NR(m) = result of get_node_load_request_map       per machine sum of the pending requests; only its domain and its
                                                    exception-safety are proved (loop invariant), the sum is opaque
Everything else (validity predicate, candidate filtering, choice of the optimum, dispatch) is proved on the real code.
"""
from pyvc.spec import *


# --------------------------------------------------------------------------------------------------------------------
# shared specification functions
def machine_of(supvisors, i):
    """machine id of instance i as the strategy reads it"""
    return supvisors.context.instances[i].supvisors_id.local_view.machine_id


def get0(m, k):
    """m.get(k, 0)"""
    return m[k] if k in m else 0


def node_loading(supvisors, i, load_details):
    """'the expected_loading of everything running on that node plus the starts already requested there': the two node
    maps are summed, so the order in which the caller passes them does not matter"""
    return get0(load_details[1], machine_of(supvisors, i)) + get0(load_details[2], machine_of(supvisors, i))


def instance_loading(supvisors, i, load_details):
    """instance load including the starts already requested on it"""
    return supvisors.context.instances[i].ghost_load + get0(load_details[0], i)


def valid(supvisors, i, expected_load, load_details):
    """C04: node load 'stays at or below 100 once the program's expected_loading is added'"""
    return node_loading(supvisors, i, load_details) + expected_load <= 100


def identified(supvisors, i):
    """instance i is known to the context and has been identified (network view received during the handshake)"""
    return (i in supvisors.context.instances
            and supvisors.context.instances[i].supvisors_id.local_view is not None)


# --------------------------------------------------------------------------------------------------------------------
@contract('instancestatus:SupvisorsInstanceStatus.get_load', props=['C14', 'C04'])
class GetLoad:
    """ASSUMED abstraction: get_load() is sum(expected_load of the running processes); the sum is not unfolded, its
    value is the ghost quantity L(i) = self.ghost_load; reading it changes nothing"""
    assumed = True
    raises = ()

    def modifies(self):
        return []

    def post_value(self, result):
        return result == self.ghost_load


@contract('strategy:AbstractStartingStrategy.is_loading_valid', props=['C14', 'C04'])
class IsLoadingValid:
    """C04: 'whose node load - the expected_loading of everything running on that node plus the starts already requested
    there - stays at or below 100 once the program's expected_loading is added'"""
    raises = ()

    def modifies(self, identifier):
        return []

    def pre_identified(self, identifier):
        return identified(self.supvisors, identifier)

    def post_valid_iff(self, identifier, expected_load, load_details, result):
        return result[0] == valid(self.supvisors, identifier, expected_load, load_details)

    def post_node_loading(self, identifier, load_details, result):
        return result[1] == node_loading(self.supvisors, identifier, load_details)

    def post_instance_loading(self, identifier, load_details, result):
        return result[2] == instance_loading(self.supvisors, identifier, load_details)


def all_identified(supvisors, identifiers):
    return forall(identifiers, lambda i: identified(supvisors, i))


@contract('strategy:AbstractStartingStrategy.get_loading_and_validity', props=['C14', 'C04'])
class GetLoadingAndValidity:
    """DESIGN C14.1: 'map with domain = set of candidates, insertion order = first occurrence, value is_loading_valid(i)'"""
    raises = ()

    def modifies(self):
        return []

    def pre_identified(self, identifiers):
        return all_identified(self.supvisors, identifiers)

    def post_domain(self, identifiers, result):
        return forall(str, lambda i: (i in result) == (i in identifiers))

    def post_validity(self, identifiers, expected_load, load_details, result):
        return forall(result, lambda i: result[i][0] == valid(self.supvisors, i, expected_load, load_details))

    def post_node_loading(self, identifiers, expected_load, load_details, result):
        return forall(result, lambda i: result[i][1] == node_loading(self.supvisors, i, load_details))

    def post_instance_loading(self, identifiers, expected_load, load_details, result):
        return forall(result, lambda i: result[i][2] == instance_loading(self.supvisors, i, load_details))

    def post_order_of_first_occurrence(self, identifiers, result):
        """key a precedes key b in the map => a occurs in the list before any occurrence of b"""
        return forall(int, int, lambda a, b: implies(
            0 <= a and a < b and b < order_len(result),
            exists(int, lambda p: 0 <= p and p < len(identifiers) and identifiers[p] == key_at(result, a)
                   and forall(int, lambda q: implies(0 <= q and q <= p, identifiers[q] != key_at(result, b))))))

    def post_fresh(self, result):
        return was_fresh(result)


def by_instance(supvisors, i, load_details):
    """C14: 'the lowest / highest instance load (node load breaking ties)'"""
    return (instance_loading(supvisors, i, load_details), node_loading(supvisors, i, load_details))


def by_node(supvisors, i, load_details):
    """C14: 'the least / most loaded node (instance load breaking ties)'"""
    return (node_loading(supvisors, i, load_details), instance_loading(supvisors, i, load_details))


def none_iff_no_valid(supvisors, identifiers, expected_load, load_details, result):
    """C04: 'If no instance qualifies nothing is sent': None exactly when no candidate is valid"""
    return (result is None) == (not exists(identifiers, lambda i: valid(supvisors, i, expected_load, load_details)))


def eligible(supvisors, identifiers, expected_load, load_details, result):
    """C04 clause 2: result is None or a candidate whose node keeps spare load"""
    return result is None or (result in identifiers and valid(supvisors, result, expected_load, load_details))


@contract('strategy:ConfigStrategy.get_supvisors_instance', props=['C14', 'C04'])
class ConfigChoice:
    """C14: 'CONFIG takes the first in declared order' (first valid candidate of the list)"""
    raises = ()

    def modifies(self):
        return []

    def pre_identified(self, identifiers):
        return all_identified(self.supvisors, identifiers)

    def post_eligible(self, identifiers, expected_load, load_details, result):
        return eligible(self.supvisors, identifiers, expected_load, load_details, result)

    def post_none_iff(self, identifiers, expected_load, load_details, result):
        return none_iff_no_valid(self.supvisors, identifiers, expected_load, load_details, result)

    def post_first_in_list_order(self, identifiers, expected_load, load_details, result):
        """every valid candidate of the list is preceded by (or is) an occurrence of the result; together with
        post_eligible (the result is itself a valid candidate) this says that the result is the first valid candidate:
        take the first valid position q0, some occurrence p <= q0 of the result is valid, hence p = q0"""
        return result is None or forall(int, lambda q: implies(
            0 <= q and q < len(identifiers) and valid(self.supvisors, identifiers[q], expected_load, load_details),
            exists(int, lambda p: 0 <= p and p <= q and identifiers[p] == result)))


@contract('strategy:LessLoadedStrategy.get_supvisors_instance', props=['C14', 'C04'])
class LessLoadedChoice:
    """C14: 'LESS_LOADED ... the one with the lowest instance load (node load breaking ties) ... loads include starts
    already requested'"""
    raises = ()

    def modifies(self):
        return []

    def pre_identified(self, identifiers):
        return all_identified(self.supvisors, identifiers)

    def post_eligible(self, identifiers, expected_load, load_details, result):
        return eligible(self.supvisors, identifiers, expected_load, load_details, result)

    def post_none_iff(self, identifiers, expected_load, load_details, result):
        return none_iff_no_valid(self.supvisors, identifiers, expected_load, load_details, result)

    def post_minimal(self, identifiers, expected_load, load_details, result):
        return result is None or forall(identifiers, lambda j: implies(
            valid(self.supvisors, j, expected_load, load_details),
            by_instance(self.supvisors, result, load_details) <= by_instance(self.supvisors, j, load_details)))


@contract('strategy:MostLoadedStrategy.get_supvisors_instance', props=['C14', 'C04'])
class MostLoadedChoice:
    """C14: 'MOST_LOADED the one with the ... highest instance load (node load breaking ties)'"""
    raises = ()

    def modifies(self):
        return []

    def pre_identified(self, identifiers):
        return all_identified(self.supvisors, identifiers)

    def post_eligible(self, identifiers, expected_load, load_details, result):
        return eligible(self.supvisors, identifiers, expected_load, load_details, result)

    def post_none_iff(self, identifiers, expected_load, load_details, result):
        return none_iff_no_valid(self.supvisors, identifiers, expected_load, load_details, result)

    def post_maximal(self, identifiers, expected_load, load_details, result):
        return result is None or forall(identifiers, lambda j: implies(
            valid(self.supvisors, j, expected_load, load_details),
            by_instance(self.supvisors, result, load_details) >= by_instance(self.supvisors, j, load_details)))


@contract('strategy:LessLoadedNodeStrategy.get_supvisors_instance', props=['C14', 'C04'])
class LessLoadedNodeChoice:
    """C14: 'LESS_LOADED_NODE ... the one on the least ... loaded node (instance load breaking ties)'"""
    raises = ()

    def modifies(self):
        return []

    def pre_identified(self, identifiers):
        return all_identified(self.supvisors, identifiers)

    def post_eligible(self, identifiers, expected_load, load_details, result):
        return eligible(self.supvisors, identifiers, expected_load, load_details, result)

    def post_none_iff(self, identifiers, expected_load, load_details, result):
        return none_iff_no_valid(self.supvisors, identifiers, expected_load, load_details, result)

    def post_minimal(self, identifiers, expected_load, load_details, result):
        return result is None or forall(identifiers, lambda j: implies(
            valid(self.supvisors, j, expected_load, load_details),
            by_node(self.supvisors, result, load_details) <= by_node(self.supvisors, j, load_details)))


@contract('strategy:MostLoadedNodeStrategy.get_supvisors_instance', props=['C14', 'C04'])
class MostLoadedNodeChoice:
    """C14: 'MOST_LOADED_NODE the one on the ... most loaded node (instance load breaking ties)'"""
    raises = ()

    def modifies(self):
        return []

    def pre_identified(self, identifiers):
        return all_identified(self.supvisors, identifiers)

    def post_eligible(self, identifiers, expected_load, load_details, result):
        return eligible(self.supvisors, identifiers, expected_load, load_details, result)

    def post_none_iff(self, identifiers, expected_load, load_details, result):
        return none_iff_no_valid(self.supvisors, identifiers, expected_load, load_details, result)

    def post_maximal(self, identifiers, expected_load, load_details, result):
        return result is None or forall(identifiers, lambda j: implies(
            valid(self.supvisors, j, expected_load, load_details),
            by_node(self.supvisors, result, load_details) >= by_node(self.supvisors, j, load_details)))


@contract('strategy:LocalStrategy.get_supvisors_instance', props=['C14', 'C04'])
class LocalChoice:
    """C14: 'LOCAL only the requesting instance': the local identifier iff it is a candidate and valid, else None"""
    raises = ()

    def modifies(self):
        return []

    def pre_identified(self, identifiers):
        return all_identified(self.supvisors, identifiers)

    def pre_local_known(self):
        return self.supvisors.mapper.local_identifier is not None

    def post_eligible(self, identifiers, expected_load, load_details, result):
        return eligible(self.supvisors, identifiers, expected_load, load_details, result)

    def post_local_iff(self, identifiers, expected_load, load_details, result):
        local = self.supvisors.mapper.local_identifier
        ok = local in identifiers and valid(self.supvisors, local, expected_load, load_details)
        return (result == local) if ok else (result is None)
